import random, tskit, collections, sys, itertools, numpy as np
sys.path.insert(0,'/tmp/proto')
from gen_ts import random_tables
from simp import parent_at
def below(par,u):
    out={u}; ch=True
    while ch:
        ch=False
        for v in range(len(par)):
            if par[v] in out and v not in out: out.add(v); ch=True
    return out
def naive(ts, sets, f, windows, mode, polarised, span_norm):
    N=ts.num_nodes; L=int(ts.sequence_length); n=[len(s) for s in sets]
    W=len(windows)-1
    outdim=len(f([0]*len(sets)))
    res=np.zeros((W,N,outdim)) if mode=='node' else np.zeros((W,outdim))
    for w in range(W):
        a,b=windows[w],windows[w+1]
        if mode in('branch','node'):
            for x in range(L):   # unit cells
                if not (a<=x<b): continue
                par=parent_at(ts,x)
                for u in range(N):
                    xs=[len(below(par,u)&set(s)) for s in sets]
                    val=np.array(f(xs),dtype=float)
                    if not polarised: val=val+np.array(f([n[k]-xs[k] for k in range(len(sets))]))
                    if mode=='node': res[w,u]+=val
                    elif par[u]!=-1: res[w]+=val*(ts.node(par[u]).time-ts.node(u).time)
        else:
            for site in ts.sites():
                if not(a<=site.position<b): continue
                par=parent_at(ts,site.position)
                # allele of each sample: nearest mutation (last in table order on path)
                def allele(u):
                    v=u
                    while v!=-1:
                        ms=[m for m in site.mutations if m.node==v]
                        if ms: return ms[-1].derived_state
                        v=par[v]
                    return site.ancestral_state
                alleles=collections.OrderedDict()
                alleles[site.ancestral_state]=None
                for m in site.mutations: alleles[m.derived_state]=None
                for al in alleles:
                    if polarised and al==site.ancestral_state: continue
                    xs=[sum(1 for u in s if allele(u)==al) for s in sets]
                    res[w]+=np.array(f(xs),dtype=float)
        if span_norm: res[w]/= (b-a)
    return res
rng=random.Random(int(sys.argv[1])); st=collections.Counter()
for it in range(800):
    t=random_tables(rng,N=rng.randint(3,7),samples_internal=True); ts=t.tree_sequence()
    S=list(ts.samples())
    if len(S)<2: continue
    k=rng.randint(1,2)
    sets=[rng.sample(S,rng.randint(1,len(S))) for _ in range(k)]
    n=[len(s) for s in sets]
    def f(x): return [x[0]*(n[0]-x[0]), x[-1]*(n[-1]-x[-1])*(x[0])]
    L=int(ts.sequence_length)
    cuts=sorted(rng.sample(range(1,L),rng.randint(0,L-1))); windows=[0]+cuts+[L]
    for mode in ['site','branch','node']:
        for pol in [True,False]:
            for sn in [True,False]:
                got=ts.sample_count_stat(sets,f,2,windows=windows,mode=mode,polarised=pol,span_normalise=sn,strict=False)
                exp=naive(ts,sets,f,windows,mode,pol,sn)
                if not np.allclose(got,exp):
                    print("DIFF",mode,pol,sn,sets,windows); print(got); print(exp); print(ts.tables.nodes,ts.tables.edges,ts.tables.sites,ts.tables.mutations); sys.exit()
                st[mode]+=1
print(st)
