import random, itertools, tskit, numpy as np, collections, sys
sys.path.insert(0,'/tmp/proto')
from gen_ts import random_tables
from simp import parent_at, expected_tree
def geno(ts, nodes):
    if ts.num_sites==0: return {}
    out={}
    for v in ts.variants(samples=list(nodes), isolated_as_missing=False):
        out[v.site.position]=[v.alleles[g] for g in v.genotypes]
    return out
rng=random.Random(int(sys.argv[1]))
stats=collections.Counter()
for it in range(3000):
    t=random_tables(rng, N=rng.randint(3,7))
    ts=t.tree_sequence()
    k=rng.randint(1,min(4,ts.num_nodes))
    samples=rng.sample(range(ts.num_nodes),k)
    opts={}
    m=rng.random()
    if m<0.3: opts['keep_unary']=True
    if rng.random()<0.4: opts['keep_input_roots']=True
    if rng.random()<0.3: opts['filter_nodes']=False
    if rng.random()<0.3: opts['filter_sites']=False
    rts = rng.random()<0.3
    if rts: opts['reduce_to_site_topology']=True
    sts,nm=ts.simplify(samples,map_nodes=True,**opts)
    # retained nodes
    used=set()
    for x in range(int(ts.sequence_length)):
        e,A=expected_tree(ts,x,samples,opts.get('keep_unary',False),False,opts.get('keep_input_roots',False))
        for p,c in e: used|={p,c}
    used|=set(samples)
    if opts.get('filter_nodes',True):
        if not rts and set(u for u in range(ts.num_nodes) if nm[u]!=-1)!=used: print("NODESET", samples, opts, used, nm); break
        if [int(nm[s]) for s in samples]!=list(range(len(samples))): print("SAMPLEORDER"); break
    else:
        if list(nm)!=list(range(ts.num_nodes)): print("IDMAP"); break
    # flags
    for u in range(ts.num_nodes):
        if nm[u]!=-1:
            n0=ts.node(u); n1=sts.node(nm[u])
            if n0.time!=n1.time: print("TIME"); break
            if bool(n1.flags&1)!=(u in samples): print("FLAG", u); break
    # genotypes
    g0=geno(ts,samples); g1=geno(sts,[nm[s] for s in samples])
    for pos,gl in g1.items():
        if g0[pos]!=gl: print("GENO",pos,g0[pos],gl,samples,opts); print(ts.tables.edges,ts.tables.sites,ts.tables.mutations); sys.exit()
    if opts.get('filter_sites',True)==False and set(g1)!=set(g0): print("SITES kept?"); break
    # sites retained = those with a retained mutation
    # idempotence
    s2=sts.simplify(**{k:v for k,v in opts.items()})
    a=sts.dump_tables(); b=s2.dump_tables(); a.provenances.clear(); b.provenances.clear()
    if not a.equals(b): 
        stats['nonidem']+=1
        if stats['nonidem']<3: print("NONIDEM", samples, opts); print(a.edges); print(b.edges); print(a.nodes, b.nodes); print(a.mutations,b.mutations)
    if rts:
        sts0=ts.simplify(samples,**{k:v for k,v in opts.items() if k!='reduce_to_site_topology'})
        for s in sts.sites():
            p0=parent_at(sts0,s.position); p1=parent_at(sts,s.position)
            # compare via time-independent? node ids may differ; compare through node maps is hard; compare parent relation sets sizes
        if ts.num_sites==0 and sts.num_edges!=0: print("RTS edges w/o sites")
    stats['ok']+=1
print(stats)
