------------------------------- MODULE TC2 -------------------------------
EXTENDS Integers, Sequences, FiniteSets, TLC, SequencesExt, FiniteSetsExt
CONSTANTS NumNodes, L, MaxEdges, SampleSets, Thresholds
NULL == -1
Nodes == 0..(NumNodes-1)
V == NumNodes                      \* virtual root
Time(u) == IF u < 2 THEN 0 ELSE u - 1
Cand == {[left |-> l, right |-> r, parent |-> p, child |-> c] :
           l \in 0..(L-1), r \in 1..L, p \in Nodes, c \in Nodes}
CandOK == {e \in Cand : e.left < e.right /\ Time(e.parent) > Time(e.child)}
Overlap(a, b) == a.child = b.child /\ a.left < b.right /\ b.left < a.right
ValidSet(S) == \A a \in S, b \in S : a # b => ~Overlap(a, b)
EdgeSets == UNION {{S \in kSubset(k, CandOK) : ValidSet(S)} : k \in 0..MaxEdges}
EdgeLess(a, b) ==
  \/ Time(a.parent) < Time(b.parent)
  \/ Time(a.parent) = Time(b.parent) /\ a.parent < b.parent
  \/ a.parent = b.parent /\ a.child < b.child
  \/ a.parent = b.parent /\ a.child = b.child /\ a.left < b.left

VARIABLES edges, samples, th, st
vars == <<edges, samples, th, st>>
M == Len(edges)
EIds == 1..M
InsLess(i, j) == LET a == edges[i] b == edges[j] IN
  \/ a.left < b.left
  \/ a.left = b.left /\ Time(a.parent) < Time(b.parent)
  \/ a.left = b.left /\ Time(a.parent) = Time(b.parent) /\ a.parent < b.parent
  \/ a.left = b.left /\ a.parent = b.parent /\ a.child < b.child
RemLess(i, j) == LET a == edges[i] b == edges[j] IN
  \/ a.right < b.right
  \/ a.right = b.right /\ Time(a.parent) > Time(b.parent)
  \/ a.right = b.right /\ Time(a.parent) = Time(b.parent) /\ a.parent > b.parent
  \/ a.right = b.right /\ a.parent = b.parent /\ a.child > b.child
I == SetToSortSeq(EIds, InsLess)
O == SetToSortSeq(EIds, RemLess)
BPSet == {0, L} \cup {edges[i].left : i \in EIds} \cup {edges[i].right : i \in EIds}
BP == SetToSortSeq(BPSet, <)
NumTrees == Len(BP) - 1
EL(j) == edges[I[j+1]]     \* j-th (0-based) edge in insertion order
ER(j) == edges[O[j+1]]

\* ---------------- definitional tree ----------------
DParent(k) == [u \in Nodes |->
   IF k = NULL THEN NULL ELSE
   LET x == BP[k+1]
       S == {i \in EIds : edges[i].child = u /\ edges[i].left <= x /\ x < edges[i].right}
   IN IF S = {} THEN NULL ELSE edges[CHOOSE i \in S : TRUE].parent]
DEdge(k) == [u \in Nodes |->
   IF k = NULL THEN NULL ELSE
   LET x == BP[k+1]
       S == {i \in EIds : edges[i].child = u /\ edges[i].left <= x /\ x < edges[i].right}
   IN IF S = {} THEN NULL ELSE CHOOSE i \in S : TRUE]
RECURSIVE DescOf(_, _, _)
DescOf(par, u, n) == IF n = 0 THEN {u}
                     ELSE {u} \cup UNION {DescOf(par, v, n-1) : v \in {w \in Nodes : par[w] = u}}
DNumSamples(par) == [u \in Nodes |-> Cardinality(DescOf(par, u, NumNodes) \cap samples)]
DRoots(par) == {u \in Nodes : par[u] = NULL /\ DNumSamples(par)[u] >= th}

\* ---------------- the machine (pure functions on state records) ----------------
NullTree == [index |-> NULL, dir |-> 0, inS |-> 0, inE |-> 0, outS |-> 0, outE |-> 0,
             left |-> 0, right |-> 0,
             parent |-> [u \in Nodes |-> NULL], edge |-> [u \in Nodes |-> NULL],
             ns |-> [u \in Nodes \cup {V} |-> IF u = V THEN Cardinality(samples) ELSE IF u \in samples THEN 1 ELSE 0],
             roots |-> IF th = 1 THEN samples ELSE {}, numEdges |-> 0, err |-> FALSE]
ClearS(s) == [NullTree EXCEPT !.dir = s.dir, !.inS = s.inS, !.inE = s.inE, !.outS = s.outS, !.outE = s.outE]

RECURSIVE PathUp(_, _)
PathUp(par, u) == IF u = NULL THEN <<>> ELSE <<u>> \o PathUp(par, par[u])
Pot(ns, u) == ns[u] >= th

RemoveEdgeS(s, p, c) ==
  LET par1 == [s.parent EXCEPT ![c] = NULL]
      path == PathUp(par1, p)
      pend == path[Len(path)]
      wasRoot == Pot(s.ns, pend)
      ns1 == [u \in Nodes \cup {V} |-> IF \E i \in 1..Len(path) : path[i] = u THEN s.ns[u] - s.ns[c] ELSE s.ns[u]]
      r1 == IF wasRoot /\ ~Pot(ns1, pend) THEN s.roots \ {pend} ELSE s.roots
      e1 == wasRoot /\ ~Pot(ns1, pend) /\ pend \notin s.roots
      r2 == IF Pot(ns1, c) THEN r1 \cup {c} ELSE r1
      e2 == Pot(ns1, c) /\ c \in r1
  IN [s EXCEPT !.parent = par1, !.edge = [s.edge EXCEPT ![c] = NULL], !.ns = ns1, !.roots = r2,
               !.numEdges = s.numEdges - 1, !.err = s.err \/ e1 \/ e2 \/ s.parent[c] # p]
InsertEdgeS(s, p, c, eid) ==
  LET path == PathUp(s.parent, p)
      pend == path[Len(path)]
      wasRoot == Pot(s.ns, pend)
      ns1 == [u \in Nodes \cup {V} |-> IF \E i \in 1..Len(path) : path[i] = u THEN s.ns[u] + s.ns[c] ELSE s.ns[u]]
      r1 == IF Pot(ns1, c) THEN s.roots \ {c} ELSE s.roots
      e1 == Pot(ns1, c) /\ c \notin s.roots
      r2 == IF Pot(ns1, pend) /\ ~wasRoot THEN r1 \cup {pend} ELSE r1
      e2 == Pot(ns1, pend) /\ ~wasRoot /\ pend \in r1
  IN [s EXCEPT !.parent = [s.parent EXCEPT ![c] = p], !.edge = [s.edge EXCEPT ![c] = eid], !.ns = ns1,
               !.roots = r2, !.numEdges = s.numEdges + 1, !.err = s.err \/ e1 \/ e2 \/ s.parent[c] # NULL]

\* apply a sequence of edge ids
RECURSIVE RemSeq(_, _), InsSeq(_, _)
RemSeq(s, q) == IF q = <<>> THEN s ELSE RemSeq(RemoveEdgeS(s, edges[Head(q)].parent, edges[Head(q)].child), Tail(q))
InsSeq(s, q) == IF q = <<>> THEN s ELSE InsSeq(InsertEdgeS(s, edges[Head(q)].parent, edges[Head(q)].child, Head(q)), Tail(q))
\* ids of order ord at 0-based positions a..b-1 ascending, or a down to b+1 descending
Asc(ord, a, b) == [k \in 1..(IF b > a THEN b - a ELSE 0) |-> ord[a + k]]
Desc(ord, a, b) == [k \in 1..(IF a > b THEN a - b ELSE 0) |-> ord[a - k + 2]]

ScanUp(j, ord, P(_)) == CHOOSE jj \in j..M : (jj = M \/ ~P(ord[jj+1])) /\ \A k \in j..(jj-1) : P(ord[k+1])
ScanDown(j, ord, P(_)) == CHOOSE jj \in (-1)..j : (jj = -1 \/ ~P(ord[jj+1])) /\ \A k \in (jj+1)..j : P(ord[k+1])

NextS(s) ==
  LET isnull == s.index = NULL
      ie0 == IF isnull THEN 0 ELSE s.inE
      oe0 == IF isnull THEN 0 ELSE s.outE
      d0  == IF isnull THEN 1 ELSE s.dir
      r0  == IF isnull THEN 0 ELSE s.right
      lcur == IF d0 = 1 THEN ie0 ELSE oe0 + 1
      rcur == IF d0 = 1 THEN oe0 ELSE ie0 + 1
      no == ScanUp(rcur, O, LAMBDA e : edges[e].right = r0)
      ni == ScanUp(lcur, I, LAMBDA e : edges[e].left = r0)
      nidx == IF isnull THEN 0 ELSE s.index + 1
      s1 == [s EXCEPT !.dir = 1, !.outS = rcur, !.outE = no, !.inS = lcur, !.inE = ni]
  IN IF nidx = NumTrees THEN ClearS(s1)
     ELSE LET s2 == InsSeq(RemSeq(s1, Asc(O, rcur, no)), Asc(I, lcur, ni))
          IN [s2 EXCEPT !.index = nidx, !.left = r0, !.right = BP[nidx+2]]
PrevS(s) ==
  LET isnull == s.index = NULL
      ie0 == IF isnull THEN M - 1 ELSE s.inE
      oe0 == IF isnull THEN M - 1 ELSE s.outE
      d0  == IF isnull THEN -1 ELSE s.dir
      l0  == IF isnull THEN L ELSE s.left
      lcur == IF d0 = -1 THEN oe0 ELSE ie0 - 1
      rcur == IF d0 = -1 THEN ie0 ELSE oe0 - 1
      no == ScanDown(lcur, I, LAMBDA e : edges[e].left = l0)
      ni == ScanDown(rcur, O, LAMBDA e : edges[e].right = l0)
      nidx == IF isnull THEN NumTrees - 1 ELSE s.index - 1
      s1 == [s EXCEPT !.dir = -1, !.outS = lcur, !.outE = no, !.inS = rcur, !.inE = ni]
  IN IF nidx = -1 THEN ClearS(s1)
     ELSE LET s2 == InsSeq(RemSeq(s1, Desc(I, lcur, no)), Desc(O, rcur, ni))
          IN [s2 EXCEPT !.index = nidx, !.left = BP[nidx+1], !.right = l0]

IndexOf(x) == CHOOSE k \in 0..(NumTrees-1) : BP[k+1] <= x /\ x < BP[k+2]
SeekFromNullS(s, x) ==
  LET idx == IndexOf(x) IN
  IF 2 * x <= L THEN
    LET left == BP[idx+1]
        no == ScanUp(0, O, LAMBDA e : edges[e].right <= left)
        is == ScanUp(0, I, LAMBDA e : edges[e].right <= left)
        ie == ScanUp(is, I, LAMBDA e : edges[e].left <= left)
        s1 == [s EXCEPT !.dir = 1, !.outS = no, !.outE = no, !.inS = is, !.inE = ie,
                         !.index = idx, !.left = left, !.right = BP[idx+2]]
        q == SelectSeq(Asc(I, is, ie), LAMBDA e : edges[e].left <= left /\ left < edges[e].right)
    IN InsSeq(s1, q)
  ELSE
    LET right == BP[idx+2]
        no == ScanDown(M-1, I, LAMBDA e : edges[e].left >= right)
        is == ScanDown(M-1, O, LAMBDA e : edges[e].left >= right)
        ie == ScanDown(is, O, LAMBDA e : edges[e].right >= right)
        s1 == [s EXCEPT !.dir = -1, !.outS = no, !.outE = no, !.inS = is, !.inE = ie,
                         !.index = idx, !.left = BP[idx+1], !.right = right]
        q == SelectSeq(Desc(O, is, ie), LAMBDA e : edges[e].right >= right /\ right > edges[e].left)
    IN InsSeq(s1, q)
InIv(s, x) == s.left <= x /\ x < s.right
RECURSIVE LoopNext(_, _, _), LoopPrev(_, _, _)
LoopNext(s, x, fuel) == IF InIv(s, x) \/ fuel = 0 THEN s ELSE LoopNext(NextS(s), x, fuel - 1)
LoopPrev(s, x, fuel) == IF InIv(s, x) \/ fuel = 0 THEN s ELSE LoopPrev(PrevS(s), x, fuel - 1)
SeekLinearS(s, x) ==
  LET dl == IF x < s.left THEN s.left - x ELSE s.left + L - x
      dr == IF x < s.left THEN L - s.right + x ELSE x - s.right
  IN IF dr <= dl THEN LoopNext(s, x, 2 * NumTrees + 2) ELSE LoopPrev(s, x, 2 * NumTrees + 2)
SeekS(s, x) == IF s.index = NULL THEN SeekFromNullS(ClearS(s), x) ELSE SeekLinearS(s, x)

Init == /\ edges \in {SetToSortSeq(S, EdgeLess) : S \in EdgeSets}
        /\ samples \in SampleSets /\ th \in Thresholds
        /\ st = [index |-> NULL, dir |-> 0, inS |-> 0, inE |-> 0, outS |-> 0, outE |-> 0,
             left |-> 0, right |-> 0,
             parent |-> [u \in Nodes |-> NULL], edge |-> [u \in Nodes |-> NULL],
             ns |-> [u \in Nodes \cup {V} |-> IF u = V THEN Cardinality(samples) ELSE IF u \in samples THEN 1 ELSE 0],
             roots |-> IF th = 1 THEN samples ELSE {}, numEdges |-> 0, err |-> FALSE]
ANext  == st' = NextS(st) /\ UNCHANGED <<edges, samples, th>>
APrev  == st' = PrevS(st) /\ UNCHANGED <<edges, samples, th>>
AClear == st' = ClearS(st) /\ UNCHANGED <<edges, samples, th>>
AFirst == st' = NextS(ClearS(st)) /\ UNCHANGED <<edges, samples, th>>
ALast  == st' = PrevS(ClearS(st)) /\ UNCHANGED <<edges, samples, th>>
ASeek  == \E x \in 0..(L-1) : st' = SeekS(st, x) /\ UNCHANGED <<edges, samples, th>>
Next == ANext \/ APrev \/ AClear \/ AFirst \/ ALast \/ ASeek
Spec == Init /\ [][Next]_vars

\* ---------------- properties ----------------
StateOK ==
  LET dp == DParent(st.index) IN
  /\ ~st.err
  /\ st.parent = dp
  /\ st.edge = DEdge(st.index)
  /\ \A u \in Nodes : st.ns[u] = DNumSamples(dp)[u]
  /\ st.roots = DRoots(dp)
  /\ st.numEdges = Cardinality({u \in Nodes : dp[u] # NULL})
  /\ (st.index = NULL => st.left = 0 /\ st.right = 0)
  /\ (st.index # NULL => st.left = BP[st.index+1] /\ st.right = BP[st.index+2])
SeekLands == [][\A x \in 0..(L-1) : st' = SeekS(st, x) => (st'.left <= x /\ x < st'.right)]_vars
=============================================================================
