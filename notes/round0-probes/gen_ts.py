import random, tskit, itertools
def random_tables(rng, N=6, K=4, max_edges=8, nsites=2, nmuts=3, samples_internal=True):
    """random valid small table collection with integer coords; node times = rank; may have internal samples."""
    t = tskit.TableCollection(K)
    times = sorted(rng.randint(0, 3) for _ in range(N))
    for i in range(N):
        fl = 1 if (times[i]==0 and rng.random()<0.8) or (samples_internal and rng.random()<0.15) else 0
        t.nodes.add_row(flags=fl, time=times[i])
    # per child, per unit cell choose parent or none; merge runs, optionally cut
    edges=[]
    for c in range(N):
        cand=[p for p in range(N) if times[p]>times[c]]
        if not cand: continue
        cells=[]
        for x in range(K):
            r=rng.random()
            if x>0 and r<0.5: cells.append(cells[-1])
            elif r<0.8: cells.append(rng.choice(cand))
            else: cells.append(None)
        x=0
        while x<K:
            if cells[x] is None: x+=1; continue
            y=x
            while y<K and cells[y]==cells[x] and not (y>x and rng.random()<0.15): y+=1
            edges.append((x,y,cells[x],c)); x=y
    rng.shuffle(edges)
    edges=edges[:max_edges]
    for l,r,p,c in edges: t.edges.add_row(l,r,p,c)
    t.sort()
    # sites & mutations
    poss = sorted(rng.sample(range(K), min(K, rng.randint(0,nsites))))
    for p in poss: t.sites.add_row(p, rng.choice("ACGT"))
    ts0 = t.tree_sequence()
    for s,p in enumerate(poss):
        tree = ts0.at(p)
        k = rng.randint(0,nmuts)
        nodes=[rng.randrange(N) for _ in range(k)]
        # order by time desc so parents first (approx), then compute parents
        nodes.sort(key=lambda u:-times[u])
        for u in nodes: t.mutations.add_row(s,u,rng.choice("ACGT"))
    t.sort(); t.build_index(); t.compute_mutation_parents()
    return t
if __name__=="__main__":
    rng=random.Random(1)
    ok=0
    for i in range(200):
        t=random_tables(rng)
        ts=t.tree_sequence(); ok+=1
    print(ok, ts.num_trees, ts.num_edges)
