import random, tskit, collections, sys, numpy as np, io
sys.path.insert(0,'/tmp/proto')
from gen_ts import random_tables
rng=random.Random(int(sys.argv[1])); st=collections.Counter()
for it in range(1500):
    t=random_tables(rng,N=rng.randint(3,7),nsites=3,nmuts=4)
    # individuals layout
    S=[j for j,n in enumerate(t.nodes) if n.flags&1]
    mode=rng.choice(['none','all','mixed'])
    if mode!='none' and S:
        k=rng.randint(1,len(S)); 
        for _ in range(k): t.individuals.add_row()
        n=t.nodes.copy(); t.nodes.clear()
        for j,r in enumerate(n):
            ind=-1
            if r.flags&1 and (mode=='all' or rng.random()<0.6): ind=rng.randrange(k)
            t.nodes.append(r.replace(individual=ind))
    ts=t.tree_sequence()
    if ts.num_samples==0: continue
    iam=rng.random()<0.5
    kw=dict(isolated_as_missing=iam, allow_position_zero=True)
    if ts.num_individuals==0:
        pl=rng.choice([None,1,2,3]); 
        if pl: kw['ploidy']=pl
    sm=None
    if rng.random()<0.5 and ts.num_sites:
        sm=np.array([rng.random()<0.4 for _ in range(ts.num_sites)]); kw['site_mask']=sm
    try: out=ts.as_vcf(**kw)
    except Exception as e: st['exc:'+str(e)[:50]]+=1; continue
    lines=[l for l in out.splitlines() if not l.startswith("##")]
    hdr=lines[0].split("\t"); recs=[l.split("\t") for l in lines[1:]]
    # expected
    sinds=sorted(set(int(ts.node(u).individual) for u in ts.samples()))
    use_inds = sinds!=[-1]
    if use_inds:
        inds=sinds
        groups=[[u for u in ts.individual(i).nodes] for i in inds]
    else:
        p=kw.get('ploidy',1); ss=list(ts.samples()); groups=[ss[i:i+p] for i in range(0,len(ss),p)]
    flat=[u for g in groups for u in g]
    assert hdr[9:]==[f"tsk_{j}" for j in range(len(groups))], (hdr,groups)
    exp=[]
    for v in ts.variants(samples=flat if use_inds else None, isolated_as_missing=iam):
        if sm is not None and sm[v.site.id]: continue
        gt=[str(g) if g!=-1 else "." for g in v.genotypes]
        cols=[]; i=0
        for g in groups: cols.append("|".join(gt[i:i+len(g)])); i+=len(g)
        na=v.num_alleles
        exp.append(["1",str(int(round(v.site.position))),str(v.site.id),v.alleles[0],",".join(v.alleles[1:na]) if na>1 else ".",".","PASS",".","GT"]+cols)
    if recs!=exp: print("DIFF"); print(recs); print(exp); sys.exit()
    st['ok']+=1
print(st)
