import random, tskit, collections, sys, numpy as np, re
sys.path.insert(0,'/tmp/proto')
from gen_ts import random_tables
def parse(s):
    assert s.endswith(";"); s=s[:-1]; pos=0
    def node():
        nonlocal pos
        ch=[]
        if pos<len(s) and s[pos]=="(":
            pos+=1
            while True:
                ch.append(node())
                if s[pos]==",": pos+=1; continue
                assert s[pos]==")"; pos+=1; break
        m=re.match(r"[^:,()]*",s[pos:]); label=m.group(0); pos+=len(label)
        ln=None
        if pos<len(s) and s[pos]==":":
            m=re.match(r":(-?[0-9.]+)",s[pos:]); ln=m.group(1); pos+=len(m.group(0))
        return (label,ln,ch)
    r=node(); assert pos==len(s),(s,pos); return r
rng=random.Random(int(sys.argv[1])); st=collections.Counter()
for it in range(2000):
    t=random_tables(rng,N=rng.randint(3,7),nsites=0); ts=t.tree_sequence()
    tree=ts.at(rng.randrange(int(ts.sequence_length)))
    for root in list(tree.roots)+[rng.randrange(ts.num_nodes)]:
        prec=rng.choice([None,0,2])
        try: s=tree.as_newick(root=root,precision=prec)
        except Exception as e: st['exc:'+str(e)[:40]]+=1; continue
        s2=tree.as_newick(root=root,precision=prec,node_labels={u:f"n{u}" for u in ts.samples()})
        p=parse(s); p2=parse(s2)
        def canon(n): return (n[0], n[1], tuple(sorted(canon(c) for c in n[2])))
        def exp(u, isroot=True):
            lab=f"n{u}" if ts.node(u).flags&1 else ""
            ln=None if isroot else "{0:.{1}f}".format(tree.branch_length(u), 0 if prec is None else prec)
            return (lab, ln, tuple(sorted(exp(c,False) for c in tree.children(u))))
        if canon(p)!=exp(root) or canon(p2)!=exp(root): print("DIFF",s,s2,exp(root)); sys.exit()
        st['ok']+=1
print(st)
