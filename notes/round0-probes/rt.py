import random, tskit, collections, sys, numpy as np, pickle, tempfile, os, json
rng=random.Random(int(sys.argv[1])); st=collections.Counter()
def rb(): return bytes(rng.randrange(256) for _ in range(rng.choice([0,0,1,5])))
def rs(): return "".join(rng.choice("abé中 ") for _ in range(rng.choice([0,1,4])))
def schema(): 
    return rng.choice([None, tskit.MetadataSchema({"codec":"json","title":rs()})])
def gen():
    t=tskit.TableCollection(rng.choice([1,2.5,1e9]))
    for _ in range(rng.randint(0,3)): t.populations.add_row(metadata=rb())
    for _ in range(rng.randint(0,3)): t.individuals.add_row(flags=rng.randint(0,2**32-1),location=[rng.choice([0.5,float('nan'),-1e300]) for _ in range(rng.randint(0,2))],parents=[rng.randint(-5,5) for _ in range(rng.randint(0,2))],metadata=rb())
    for _ in range(rng.randint(0,4)): t.nodes.add_row(flags=rng.randint(0,3),time=rng.choice([0,1.5,float('nan'),float('inf')]),population=rng.randint(-1,5),individual=rng.randint(-1,5),metadata=rb())
    for _ in range(rng.randint(0,4)): t.edges.add_row(rng.choice([0,0.5,7]),rng.choice([0,1,-3]),rng.randint(-1,9),rng.randint(-1,9),metadata=rb())
    for _ in range(rng.randint(0,3)): t.sites.add_row(rng.choice([0,0.25,99]),rng.choice(["","A","ACGT"]),metadata=rb())
    for _ in range(rng.randint(0,3)): t.mutations.add_row(rng.randint(-1,4),rng.randint(-1,4),rng.choice(["","T","TT"]),parent=rng.randint(-1,4),metadata=rb(),time=rng.choice([tskit.UNKNOWN_TIME,1.0,float('nan')]))
    for _ in range(rng.randint(0,2)): t.migrations.add_row(0,1,rng.randint(0,3),0,1,rng.choice([0.5,2]),metadata=rb())
    for _ in range(rng.randint(0,2)): t.provenances.add_row(record=rs(),timestamp=rs())
    for tab in [t.nodes,t.edges,t.sites,t.mutations,t.migrations,t.individuals,t.populations]:
        if rng.random()<0.3: tab.metadata_schema=tskit.MetadataSchema({"codec":"struct","type":"object","properties":{}}) if False else tskit.MetadataSchema(None)
    if rng.random()<0.3: t.time_units=rs()
    if rng.random()<0.3: t.metadata=rb()
    if rng.random()<0.3:
        t.reference_sequence.data=rs().encode("ascii","ignore").decode() ; t.reference_sequence.url=rs()
    return t
def beq(a,b):
    da=a.asdict(); db=b.asdict()
    def cmp(x,y):
        if isinstance(x,dict): return set(x)==set(y) and all(cmp(x[k],y[k]) for k in x)
        if isinstance(x,np.ndarray): return x.dtype==y.dtype and x.tobytes()==y.tobytes()
        return x==y
    return cmp(da,db)
for it in range(1500):
    t=gen()
    with tempfile.TemporaryDirectory() as d:
        p=os.path.join(d,"x"); 
        with open(p,"wb") as f:
            t.dump(f); t2=gen(); t2.dump(f)
        with open(p,"rb") as f:
            a=tskit.TableCollection.load(f); b=tskit.TableCollection.load(f)
            try: tskit.TableCollection.load(f); st['noEOF']+=1
            except EOFError: pass
        assert beq(a,t) and beq(b,t2), "dump/load"
        assert a.equals(t) or any(np.isnan(x).any() for x in [t.nodes.time, t.individuals.location, t.mutations.time]), "equals"
    assert beq(tskit.TableCollection.fromdict(t.asdict()),t)
    assert beq(pickle.loads(pickle.dumps(t)),t)
    assert beq(t.copy(),t)
    st['ok']+=1
    st['eq_nan' if not t.equals(t.copy()) else 'eq']+=1
print(st)
