import tskit, msprime, numpy as np, inspect
ts = msprime.sim_ancestry(3, random_seed=2, sequence_length=10, recombination_rate=0.2)
ts = msprime.sim_mutations(ts, rate=0.2, random_seed=2)
before = ts.dump_tables()
bad=[]
for name in dir(ts):
    if name.startswith('_'): continue
    try: v=getattr(ts,name)
    except Exception as e: continue
    if isinstance(v,np.ndarray):
        if v.flags.writeable:
            # try to write and see if ts changes
            try:
                if v.size: 
                    old=v.flat[0]; v.flat[0]=old+1 if v.dtype.kind in 'iuf' else old
            except Exception as e: pass
            same = ts.dump_tables().equals(before)
            bad.append((name, 'writeable', 'ts-changed' if not same else 'copy'))
print(bad)
tree=ts.first()
for name in dir(tree):
    if name.endswith('_array'):
        v=getattr(tree,name); print(name, v.flags.writeable)
v=next(ts.variants()); print('genotypes', v.genotypes.flags.writeable, 'samples', v.samples.flags.writeable)
g=v.genotypes; 
try:
    g[0]=5; print("wrote genotypes; now", v.genotypes[0])
except Exception as e: print("ro", e)
print(ts.dump_tables().equals(before))
