import random, tskit, collections, sys, numpy as np
sys.path.insert(0,'/tmp/proto')
from gen_ts import random_tables
rng=random.Random(int(sys.argv[1])); st=collections.Counter()
def strip(t): 
    t=t.copy(); t.provenances.clear(); return t
for it in range(2000):
    t=random_tables(rng,N=rng.randint(3,7))
    P=rng.randint(0,2); I=rng.randint(0,2)
    for k in range(P): t.populations.add_row(metadata=bytes([65+k]))
    for k in range(I): t.individuals.add_row(metadata=bytes([97+k]))
    nodes=t.nodes.copy(); t.nodes.clear()
    for j,n in enumerate(nodes): t.nodes.append(n.replace(population=rng.randint(-1,P-1), individual=rng.randint(-1,I-1), metadata=bytes([48+j])))
    ts=t.tree_sequence(); N=ts.num_nodes
    # subset definition check
    nodes=rng.sample(range(N),rng.randint(0,N))
    sub=ts.dump_tables(); sub.subset(nodes, record_provenance=False)
    nm={u:i for i,u in enumerate(nodes)}
    exp_edges=sorted((e.left,e.right,nm[e.parent],nm[e.child]) for e in ts.edges() if e.parent in nm and e.child in nm)
    got_edges=sorted((e.left,e.right,e.parent,e.child) for e in sub.edges)
    if exp_edges!=got_edges: print("EDGES"); break
    if [n.metadata for n in sub.nodes]!=[ts.node(u).metadata for u in nodes]: print("NODES"); break
    exp_m=sorted((ts.site(m.site).position,nm[m.node],m.derived_state) for m in ts.mutations() if m.node in nm)
    got_m=sorted((sub.sites[m.site].position,m.node,m.derived_state) for m in sub.mutations)
    if exp_m!=got_m: print("MUTS"); break
    if sorted(s.position for s in sub.sites)!=sorted(set(p for p,_,_ in exp_m)): print("SITES"); break
    # union inverse: split nodes into A,B sharing ancestral portion = nodes with time >= cutoff
    times=ts.nodes_time; cutoff=rng.choice(sorted(set(times)))
    shared=[u for u in range(N) if times[u]>=cutoff]
    rest=[u for u in range(N) if times[u]<cutoff]; rng.shuffle(rest)
    k=rng.randint(0,len(rest)); A=shared+rest[:k]; B=shared+rest[k:]
    sa,sb=set(A),set(B)
    if any(not((e.parent in sa and e.child in sa) or (e.parent in sb and e.child in sb)) for e in ts.edges()): st['crossedge']+=1; continue
    ta=ts.dump_tables(); ta.subset(A,record_provenance=False,reorder_populations=False)
    tb=ts.dump_tables(); tb.subset(B,record_provenance=False,reorder_populations=False)
    mapping=[i if i<len(shared) else -1 for i in range(len(B))]
    try:
        ta.union(tb, mapping, record_provenance=False, add_populations=False)
    except Exception as e:
        st['unionexc:'+str(e)[:50]]+=1; continue
    c1=ta.copy(); c2=ts.dump_tables()
    # reorder nodes of original to match A + new B nodes
    order=A+rest[k:]
    c2.subset(order, record_provenance=False,reorder_populations=False)
    c1.canonicalise(remove_unreferenced=False); c2.canonicalise(remove_unreferenced=False); c1.provenances.clear(); c2.provenances.clear()
    if not c1.equals(c2):
        st['uniondiff']+=1
        if st['uniondiff']<3:
            diff=[n for n in ['nodes','edges','sites','mutations','individuals','populations'] if getattr(c1,n)!=getattr(c2,n)]
            print("UNIONDIFF",diff, A,B,mapping); n=diff[0]; print(getattr(c1,n)); print(getattr(c2,n))
    else: st['ok']+=1
print(st)
