import random, tskit, collections, sys, numpy as np
rng=random.Random(int(sys.argv[1])); st=collections.Counter()
def rb(): return bytes(rng.randrange(256) for _ in range(rng.choice([0,0,1,3])))
def mkrow(kind,n):
    if kind=='ind': return dict(flags=rng.randint(0,3),location=tuple(float(rng.randint(-2,2)) for _ in range(rng.choice([0,1,3]))),parents=tuple(rng.randint(-1,max(n-1,-1)) for _ in range(rng.choice([0,1,2]))),metadata=rb())
    if kind=='mut': return dict(site=rng.randint(0,3),node=rng.randint(0,3),derived_state=rng.choice(["","A","ACG"]),parent=rng.randint(-1,max(n-1,-1)),metadata=rb(),time=rng.choice([0.5,2.0]))
    if kind=='site': return dict(position=float(rng.randint(0,5)),ancestral_state=rng.choice(["","A","ACG"]),metadata=rb())
def tab(kind): return {'ind':tskit.IndividualTable,'mut':tskit.MutationTable,'site':tskit.SiteTable}[kind]()
def asrows(t,kind):
    out=[]
    for r in t:
        if kind=='ind': out.append(dict(flags=r.flags,location=tuple(r.location),parents=tuple(int(p) for p in r.parents),metadata=r.metadata))
        if kind=='mut': out.append(dict(site=r.site,node=r.node,derived_state=r.derived_state,parent=r.parent,metadata=r.metadata,time=r.time))
        if kind=='site': out.append(dict(position=r.position,ancestral_state=r.ancestral_state,metadata=r.metadata))
    return out
for it in range(600):
    kind=rng.choice(['ind','mut','site']); t=tab(kind); model=[]
    for step in range(rng.randint(1,25)):
        op=rng.choice(['add','add','add','set','trunc','keep','clear','slice','copy','append_cols','packmeta','dropmeta'])
        n=len(model)
        if op=='add':
            r=mkrow(kind,n); rid=t.add_row(**r); assert rid==n; model.append(r)
        elif op=='set' and n:
            j=rng.randrange(-n,n); r=mkrow(kind,n); t[j]=t[j].replace(**r); model[j]=r
        elif op=='trunc':
            k=rng.randint(0,n+1)
            try: t.truncate(k); assert k<=n; model=model[:k]
            except (tskit.LibraryError, ValueError): assert k>n
        elif op=='keep':
            keep=[rng.random()<0.6 for _ in range(n)]
            idmap=[-1]*n; c=0
            for j,k in enumerate(keep):
                if k: idmap[j]=c; c+=1
            refs_ok=True; newm=[]
            for j,r in enumerate(model):
                if not keep[j]: continue
                r=dict(r)
                if kind=='ind':
                    ps=[]
                    for p in r['parents']:
                        if p==-1: ps.append(-1)
                        elif not (0<=p<n) or idmap[p]==-1: refs_ok=False
                        else: ps.append(idmap[p])
                    r['parents']=tuple(ps)
                if kind=='mut' and r['parent']!=-1:
                    p=r['parent']
                    if not(0<=p<n) or idmap[p]==-1: refs_ok=False
                    else: r['parent']=idmap[p]
                newm.append(r)
            try:
                got=t.keep_rows(keep); assert refs_ok, "accepted dangling"; assert list(got)==idmap; model=newm
            except tskit.LibraryError as e:
                assert not refs_ok, ("rejected ok refs",e)
        elif op=='clear': t.clear(); model=[]
        elif op=='slice' and n:
            a,b=sorted([rng.randint(0,n),rng.randint(0,n)]); sub=t[a:b]; assert asrows(sub,kind)==model[a:b]
            mask=[rng.random()<0.5 for _ in range(n)]; assert asrows(t[mask],kind)==[r for r,k in zip(model,mask) if k]
            ids=[rng.randrange(n) for _ in range(3)]; assert asrows(t[ids],kind)==[model[i] for i in ids]
        elif op=='copy': t=t.copy()
        elif op=='append_cols':
            o=tab(kind); rs=[mkrow(kind,n) for _ in range(rng.randint(0,3))]
            for r in rs: o.add_row(**r)
            d=o.asdict(); d.pop('metadata_schema'); t.append_columns(**d); model+=rs
        elif op=='packmeta':
            ms=[rb() for _ in range(n)]; t.packset_metadata(ms)
            for r,m in zip(model,ms): r['metadata']=m
        elif op=='dropmeta':
            t.drop_metadata()
            for r in model: r['metadata']=b''
        got=asrows(t,kind)
        if got!=model: print("DIFF",kind,op,step); print(got); print(model); sys.exit()
        st[op]+=1
print(st)
