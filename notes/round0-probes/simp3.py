import random, tskit, collections, sys
sys.path.insert(0,'/tmp/proto')
from gen_ts import random_tables
rng=random.Random(5)
cls=collections.Counter(); ex={}
for it in range(6000):
    t=random_tables(rng, N=rng.randint(3,7)); ts=t.tree_sequence()
    samples=rng.sample(range(ts.num_nodes),rng.randint(1,min(4,ts.num_nodes)))
    opts={}
    for k in ['keep_unary','keep_input_roots','reduce_to_site_topology']:
        if rng.random()<0.35: opts[k]=True
    for k in ['filter_nodes','filter_sites']:
        if rng.random()<0.3: opts[k]=False
    sts=ts.simplify(samples,**opts); s2=sts.simplify(**opts)
    a=sts.dump_tables(); b=s2.dump_tables(); a.provenances.clear(); b.provenances.clear()
    key=tuple(sorted(opts.items()))
    if not a.equals(b):
        diff=[n for n in ['nodes','edges','sites','mutations'] if getattr(a,n)!=getattr(b,n)]
        cls[(key,tuple(diff))]+=1
        ex.setdefault((key,tuple(diff)),(ts,samples))
    else: cls[('ok',)]+=1
for k,v in sorted(cls.items(), key=lambda kv:-kv[1]): print(v,k)
for k in ex:
    if k[0]==(('reduce_to_site_topology',True),):
        ts,samples=ex[k]
        print(k, samples); print(ts.tables.nodes); print(ts.tables.edges); print(ts.tables.sites); print(ts.tables.mutations)
        s1=ts.simplify(samples,reduce_to_site_topology=True); s2=s1.simplify(reduce_to_site_topology=True)
        print(s1.tables.nodes); print(s1.tables.edges); print(s1.tables.sites); print(s2.tables.nodes); print(s2.tables.edges)
        break
