import random, tskit, collections, sys, itertools
sys.path.insert(0,'/tmp/proto')
from gen_ts import random_tables
def defn(ts, nodes):
    """positional IBD: for each pair, per unit cell x: (mrca, chain_a, chain_b) by edge ids; maximal runs"""
    L=int(ts.sequence_length); N=ts.num_nodes
    res=collections.defaultdict(list)
    def up(x):
        pe=[-1]*N
        for e in ts.edges():
            if e.left<=x<e.right: pe[e.child]=e.id
        return pe
    E=ts.tables.edges
    for a,b in itertools.combinations(sorted(nodes),2):
        prev=None; start=None
        for x in range(L+1):
            key=None
            if x<L:
                pe=up(x)
                def chain(u):
                    c=[(u,None)]
                    while pe[u]!=-1:
                        e=pe[u]; u=E.parent[e]; c.append((u,e))
                    return c
                ca=chain(a); cb=chain(b)
                anc_b={u:i for i,(u,_) in enumerate(cb)}
                for i,(u,_) in enumerate(ca):
                    if u in anc_b:
                        key=(u, tuple(e for _,e in ca[1:i+1]), tuple(e for _,e in cb[1:anc_b[u]+1])); break
            if key!=prev:
                if prev is not None: res[(a,b)].append((start,x,prev[0]))
                prev=key; start=x
    return {k:sorted(v) for k,v in res.items() if v}
rng=random.Random(int(sys.argv[1])); st=collections.Counter()
for it in range(3000):
    t=random_tables(rng,N=rng.randint(3,7),nsites=0); ts=t.tree_sequence()
    nodes=rng.sample(range(ts.num_nodes),rng.randint(2,min(5,ts.num_nodes)))
    r=ts.ibd_segments(within=nodes,store_segments=True)
    got={k:sorted((int(s.left),int(s.right),s.node) for s in v) for k,v in r.items()}
    exp=defn(ts,nodes)
    if got!=exp:
        print("DIFF",nodes); print(ts.tables.nodes);print(ts.tables.edges); print("exp",exp); print("got",got); break
    st['ok']+=1; st['segs']+=sum(len(v) for v in exp.values())
print(st)
