import random, tskit, collections, sys, struct, tempfile, os, io
sys.path.insert(0,'/tmp/proto')
from gen_ts import random_tables
rng=random.Random(1)
t=random_tables(rng,N=5); t.nodes.metadata_schema=tskit.MetadataSchema({"codec":"json"})
t.build_index()
path="/tmp/proto/x.trees"; t.dump(path); data=open(path,'rb').read()
n_items=struct.unpack("<I",data[12:16])[0]; fsize=struct.unpack("<Q",data[16:24])[0]
print(len(data), n_items, fsize)
desc_end=64+64*n_items
items=[]
for j in range(n_items):
    d=data[64+64*j:64+64*(j+1)]
    ty=d[0]; ks,kl,as_,al=struct.unpack("<QQQQ",d[8:40]); items.append((ty,ks,kl,as_,al,data[ks:ks+kl].decode()))
keys_end=items[-1][1]+items[-1][2]
print(items[:3], keys_end, items[0][3])
def load(b):
    p="/tmp/proto/y.trees"; open(p,'wb').write(b)
    try:
        r=tskit.TableCollection.load(p); return ('ok', r)
    except Exception as e: return (type(e).__name__, str(e)[:60])
base=load(data)[1]
# prefixes
st=collections.Counter()
for n in range(len(data)):
    r=load(data[:n]); st[r[0]]+=1
print("prefix", st)
# single byte substitutions in structural region
st=collections.Counter(); odd=[]
for off in range(keys_end):
    for newb in (0x00,0xff,(data[off]+1)&0xff,(data[off]-1)&0xff):
        if newb==data[off]: continue
        b=bytearray(data); b[off]=newb; r=load(bytes(b))
        if r[0]=='ok':
            same=r[1].equals(base)
            region='hdr' if off<64 else ('desc' if off<desc_end else 'key')
            st[(region,'ok-same' if same else 'ok-DIFF')]+=1
            if not same: odd.append((off,newb))
        else: st[r[0]]+=1
print(st); 
for off,newb in odd[:10]:
    j=None
    for it in items:
        if it[1]<=off<it[1]+it[2]: j=it
    print(off,newb,j)
