import random, tskit, collections, sys, io, numpy as np
sys.path.insert(0,'/tmp/proto')
from gen_ts import random_tables
rng=random.Random(int(sys.argv[1])); st=collections.Counter()
def rb(rng): return bytes(rng.randrange(256) for _ in range(rng.randint(0,4)))
for it in range(1500):
    t=random_tables(rng,N=rng.randint(3,7))
    # add individuals, populations, metadata everywhere, migrations
    P=rng.randint(0,2); I=rng.randint(0,3)
    for _ in range(P): t.populations.add_row(metadata=rb(rng))
    for j in range(I): t.individuals.add_row(flags=rng.randint(0,3),location=[rng.choice([0.5,1.25,-3.0]) for _ in range(rng.randint(0,2))],parents=[rng.choice([p for p in range(-1,I) if p!=j]) for _ in range(rng.randint(0,2)) ],metadata=rb(rng))
    nodes=t.nodes.copy(); t.nodes.clear()
    for n in nodes: t.nodes.append(n.replace(population=rng.randint(-1,P-1), individual=rng.randint(-1,I-1), metadata=rb(rng)))
    sites=t.sites.copy(); t.sites.clear()
    for s in sites: t.sites.append(s.replace(ancestral_state=rng.choice(["","A","ACG"]),metadata=rb(rng)))
    muts=t.mutations.copy(); t.mutations.clear()
    for m in muts: t.mutations.append(m.replace(derived_state=rng.choice(["","T","TTT"]),metadata=rb(rng)))
    if P>0 and rng.random()<0.5:
        for _ in range(rng.randint(1,2)): t.migrations.add_row(0,rng.randint(1,int(t.sequence_length)),rng.randrange(len(t.nodes)),rng.randrange(P),rng.randrange(P),rng.choice([0.5,1.5,2.5]),metadata=rb(rng))
    t.sort()
    if rng.random()<0.4 and len(t.mutations): t.build_index(); t.compute_mutation_times()
    t.sort(); 
    try: ts=t.tree_sequence()
    except Exception as e: st['invalid']+=1; continue
    bufs={k:io.StringIO() for k in ['nodes','edges','sites','mutations','individuals','populations','migrations']}
    ts.dump_text(**bufs, precision=6)
    for b in bufs.values(): b.seek(0)
    try:
        ts2=tskit.load_text(**bufs, sequence_length=ts.sequence_length, strict=True)
    except Exception as e:
        st['loadexc:'+type(e).__name__]+=1
        if st['loadexc:'+type(e).__name__]<2: print(repr(e)); print(bufs['sites'].getvalue(), bufs['mutations'].getvalue(), bufs['populations'].getvalue(), bufs['individuals'].getvalue())
        continue
    a=ts.dump_tables(); b=ts2.dump_tables()
    diff=[n for n in ['nodes','edges','sites','mutations','individuals','populations','migrations'] if not getattr(a,n).equals(getattr(b,n), ignore_metadata=(n=='edges'))]
    st[tuple(diff)]+=1
    if diff and st[tuple(diff)]<2:
        n=diff[0]; print(diff); print(getattr(a,n)); print(getattr(b,n)); print(bufs[n].getvalue())
print(st)
