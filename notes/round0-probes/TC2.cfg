CONSTANTS NumNodes = 4 L = 3 MaxEdges = 3
  SampleSets = {{0,1},{0,1,2},{1,3}}
  Thresholds = {1,2}
INIT Init
NEXT Next
INVARIANT StateOK
CHECK_DEADLOCK FALSE
