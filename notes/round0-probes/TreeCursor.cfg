CONSTANTS NumNodes = 4 L = 3 MaxEdges = 3
INIT Init
NEXT Next
INVARIANT ParentOK
CHECK_DEADLOCK FALSE
