---------------------------- MODULE TreeCursor ----------------------------
EXTENDS Integers, Sequences, FiniteSets, TLC, SequencesExt, FiniteSetsExt
CONSTANTS NumNodes, L, MaxEdges
NULL == -1
Nodes == 0..(NumNodes-1)
\* node times: nodes 0,1 at time 0, node k>=2 at time k-1
Time(u) == IF u < 2 THEN 0 ELSE u - 1
Cand == {[left |-> l, right |-> r, parent |-> p, child |-> c] :
           l \in 0..(L-1), r \in 1..L, p \in Nodes, c \in Nodes}
CandOK == {e \in Cand : e.left < e.right /\ Time(e.parent) > Time(e.child)}
Overlap(a, b) == a.child = b.child /\ a.left < b.right /\ b.left < a.right
ValidSet(S) == \A a \in S, b \in S : a # b => ~Overlap(a, b)
EdgeSets == UNION {{S \in kSubset(k, CandOK) : ValidSet(S)} : k \in 0..MaxEdges}

EdgeLess(a, b) ==
  \/ Time(a.parent) < Time(b.parent)
  \/ Time(a.parent) = Time(b.parent) /\ a.parent < b.parent
  \/ a.parent = b.parent /\ a.child < b.child
  \/ a.parent = b.parent /\ a.child = b.child /\ a.left < b.left

VARIABLES edges, index, dir, inS, inE, outS, outE, parent
vars == <<edges, index, dir, inS, inE, outS, outE, parent>>
M == Len(edges)
EIds == 1..M
\* insertion order: (left, time[parent], parent, child); removal: (right, -time, -parent, -child)
InsLess(i, j) == LET a == edges[i] b == edges[j] IN
  \/ a.left < b.left
  \/ a.left = b.left /\ Time(a.parent) < Time(b.parent)
  \/ a.left = b.left /\ Time(a.parent) = Time(b.parent) /\ a.parent < b.parent
  \/ a.left = b.left /\ a.parent = b.parent /\ a.child < b.child
RemLess(i, j) == LET a == edges[i] b == edges[j] IN
  \/ a.right < b.right
  \/ a.right = b.right /\ Time(a.parent) > Time(b.parent)
  \/ a.right = b.right /\ Time(a.parent) = Time(b.parent) /\ a.parent > b.parent
  \/ a.right = b.right /\ a.parent = b.parent /\ a.child > b.child
I == SetToSortSeq(EIds, InsLess)
O == SetToSortSeq(EIds, RemLess)
BPSet == {0, L} \cup {edges[i].left : i \in EIds} \cup {edges[i].right : i \in EIds}
BP == SetToSortSeq(BPSet, <)
NumTrees == Len(BP) - 1
\* definitional tree at index k (0-based)
ParentAt(k) == [u \in Nodes |->
   IF k = NULL THEN NULL ELSE
   LET x == BP[k+1]
       S == {i \in EIds : edges[i].child = u /\ edges[i].left <= x /\ x < edges[i].right}
   IN IF S = {} THEN NULL ELSE edges[CHOOSE i \in S : TRUE].parent]

Init == /\ edges \in {SetToSortSeq(S, EdgeLess) : S \in EdgeSets}
        /\ index = NULL /\ dir = 0 /\ inS = 0 /\ inE = 0 /\ outS = 0 /\ outE = 0
        /\ parent = [u \in Nodes |-> NULL]

\* 0-based positions into I/O as in C; I[j+1] in TLA+
ScanUp(j, ord, P(_)) == CHOOSE jj \in j..M : (jj = M \/ ~P(ord[jj+1])) /\ \A k \in j..(jj-1) : P(ord[k+1])
ScanDown(j, ord, P(_)) == CHOOSE jj \in (-1)..j : (jj = -1 \/ ~P(ord[jj+1])) /\ \A k \in (jj+1)..j : P(ord[k+1])

ApplyFwd(par, os, oe, is, ie) ==
  LET removed == {edges[O[j+1]].child : j \in os..(oe-1)}
      p1 == [u \in Nodes |-> IF u \in removed THEN NULL ELSE par[u]]
  IN [u \in Nodes |-> IF \E j \in is..(ie-1) : edges[I[j+1]].child = u
                      THEN edges[I[(CHOOSE j \in is..(ie-1) : edges[I[j+1]].child = u)+1]].parent
                      ELSE p1[u]]
\* reverse: out uses I order going down from os to oe (exclusive), in uses O order
ApplyRev(par, os, oe, is, ie) ==
  LET removed == {edges[I[j+1]].child : j \in (oe+1)..os}
      p1 == [u \in Nodes |-> IF u \in removed THEN NULL ELSE par[u]]
  IN [u \in Nodes |-> IF \E j \in (ie+1)..is : edges[O[j+1]].child = u
                      THEN edges[O[(CHOOSE j \in (ie+1)..is : edges[O[j+1]].child = u)+1]].parent
                      ELSE p1[u]]

Clear == /\ index' = NULL /\ parent' = [u \in Nodes |-> NULL]
         /\ UNCHANGED <<edges, dir, inS, inE, outS, outE>>

Next_ ==
  LET ie0 == IF index = NULL THEN 0 ELSE inE
      oe0 == IF index = NULL THEN 0 ELSE outE
      d0  == IF index = NULL THEN 1 ELSE dir
      lcur == IF d0 = 1 THEN ie0 ELSE oe0 + 1
      rcur == IF d0 = 1 THEN oe0 ELSE ie0 + 1
      left == IF index = NULL THEN 0 ELSE BP[index+2]
      no == ScanUp(rcur, O, LAMBDA e : edges[e].right = left)
      ni == ScanUp(lcur, I, LAMBDA e : edges[e].left = left)
      nidx == (IF index = NULL THEN 0 ELSE index + 1)
  IN IF nidx = NumTrees
     THEN /\ index' = NULL /\ parent' = [u \in Nodes |-> NULL] /\ dir' = 1
          /\ outS' = rcur /\ outE' = no /\ inS' = lcur /\ inE' = ni /\ UNCHANGED edges
     ELSE /\ index' = nidx /\ dir' = 1
          /\ outS' = rcur /\ outE' = no /\ inS' = lcur /\ inE' = ni
          /\ parent' = ApplyFwd(parent, rcur, no, lcur, ni) /\ UNCHANGED edges

Prev_ ==
  LET ie0 == IF index = NULL THEN M - 1 ELSE inE
      oe0 == IF index = NULL THEN M - 1 ELSE outE
      d0  == IF index = NULL THEN -1 ELSE dir
      lcur == IF d0 = -1 THEN oe0 ELSE ie0 - 1
      rcur == IF d0 = -1 THEN ie0 ELSE oe0 - 1
      right == IF index = NULL THEN L ELSE BP[index+1]
      no == ScanDown(lcur, I, LAMBDA e : edges[e].left = right)
      ni == ScanDown(rcur, O, LAMBDA e : edges[e].right = right)
      nidx == (IF index = NULL THEN NumTrees - 1 ELSE index - 1)
  IN IF nidx = -1
     THEN /\ index' = NULL /\ parent' = [u \in Nodes |-> NULL] /\ dir' = -1
          /\ outS' = lcur /\ outE' = no /\ inS' = rcur /\ inE' = ni /\ UNCHANGED edges
     ELSE /\ index' = nidx /\ dir' = -1
          /\ outS' = lcur /\ outE' = no /\ inS' = rcur /\ inE' = ni
          /\ parent' = ApplyRev(parent, lcur, no, rcur, ni) /\ UNCHANGED edges

Next == Next_ \/ Prev_ \/ Clear
Spec == Init /\ [][Next]_vars
ParentOK == parent = ParentAt(index)
=============================================================================
