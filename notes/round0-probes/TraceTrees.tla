---------------------------- MODULE TraceTrees ----------------------------
EXTENDS Integers, Sequences, FiniteSets, TLC, TLCExt, Json, IOUtils, SequencesExt
Cases == ndJsonDeserialize(IOEnv.TRACE_FILE)
VARIABLE k
NULL == -1
ParentDef(c, x) == [u \in 1..Len(c.time) |->
   LET S == {i \in 1..Len(c.edges) : c.edges[i].child = u-1 /\ c.edges[i].left <= x /\ x < c.edges[i].right}
   IN IF S = {} THEN NULL ELSE c.edges[CHOOSE i \in S : TRUE].parent]
BPs(c) == {0, c.L} \cup {c.edges[i].left : i \in 1..Len(c.edges)} \cup {c.edges[i].right : i \in 1..Len(c.edges)}
RECURSIVE Desc(_,_,_)
Desc(par, u, n) == IF n = 0 THEN {u} ELSE {u} \cup UNION {Desc(par, v-1, n-1) : v \in {w \in 1..Len(par) : par[w] = u}}
NSamp(c, par, u) == Cardinality({v \in Desc(par, u, Len(par)) : c.flags[v+1] = 1})
TreeOK(c, t) ==
  /\ t.left \in BPs(c) /\ t.right \in BPs(c) /\ ~\E b \in BPs(c) : t.left < b /\ b < t.right
  /\ LET pd == ParentDef(c, t.left) IN
       /\ \A u \in 1..Len(c.time) : t.parent[u] = pd[u]
       /\ \A u \in 1..Len(c.time) : t.nsamp[u] = NSamp(c, pd, u-1)
       /\ {t.roots[i] : i \in 1..Len(t.roots)} = {u \in 0..(Len(c.time)-1) : pd[u+1] = NULL /\ NSamp(c, pd, u) >= 1}
CaseOK(c) == /\ Len(c.trees) = Cardinality(BPs(c)) - 1
             /\ \A i \in 1..Len(c.trees) : TreeOK(c, c.trees[i])
             /\ c.trees[1].left = 0 /\ c.trees[Len(c.trees)].right = c.L
             /\ \A i \in 1..(Len(c.trees)-1) : c.trees[i].right = c.trees[i+1].left
Init == k = 0
Next == k < Len(Cases) /\ k' = k + 1 /\ (CaseOK(Cases[k+1]) \/ (PrintT(<<"REJECT", Cases[k+1].id>>) /\ FALSE))
Accepted == TLCGet("stats").diameter - 1 = Len(Cases)
=============================================================================
