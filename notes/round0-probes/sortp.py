import random, tskit, collections, sys, numpy as np
sys.path.insert(0,'/tmp/proto')
from gen_ts import random_tables
rng=random.Random(int(sys.argv[1])); st=collections.Counter()
def rich(rng):
    t=random_tables(rng,N=rng.randint(3,7))
    for name,pre in [('edges',b'e'),('sites',b's'),('mutations',b'm')]:
        tab=getattr(t,name); c=tab.copy(); tab.clear()
        for j,r in enumerate(c): tab.append(r.replace(metadata=pre+b"%d"%j))
    P=rng.randint(0,2); I=rng.randint(0,3)
    for k in range(P): t.populations.add_row(metadata=b"p%d"%k)
    for k in range(I): t.individuals.add_row(metadata=b"i%d"%k, parents=[rng.choice([p for p in range(-1,I) if p!=k])] if rng.random()<0.5 else [])
    n=t.nodes.copy(); t.nodes.clear()
    for j,r in enumerate(n): t.nodes.append(r.replace(population=rng.randint(-1,P-1),individual=rng.randint(-1,I-1)))
    if P and rng.random()<0.4:
        for _ in range(rng.randint(1,3)): t.migrations.add_row(0,rng.randint(1,int(t.sequence_length)),rng.randrange(len(t.nodes)),rng.randrange(P),rng.randrange(P),rng.choice([0.5,1.5,2.5]),metadata=b"g%d"%rng.randrange(9))
        t.sort()
    if rng.random()<0.4 and len(t.mutations): t.build_index(); t.compute_mutation_times()
    return t
def shuffle(t,rng, inds=False):
    t=t.copy()
    # edges
    idx=list(range(len(t.edges))); rng.shuffle(idx); t.edges.replace_with(t.edges[idx])
    idx=list(range(len(t.migrations))); rng.shuffle(idx); t.migrations.replace_with(t.migrations[idx])
    # sites with mutation.site remap
    idx=list(range(len(t.sites))); rng.shuffle(idx); inv={old:new for new,old in enumerate(idx)}
    t.sites.replace_with(t.sites[idx])
    m=t.mutations.copy(); t.mutations.clear()
    midx=list(range(len(m))); rng.shuffle(midx); minv={old:new for new,old in enumerate(midx)}
    for old in midx:
        r=m[old]; t.mutations.append(r.replace(site=inv[r.site], parent=minv[r.parent] if r.parent!=-1 else -1))
    return t
for it in range(1500):
    t=rich(rng); t.drop_index()
    try: ts=t.tree_sequence()
    except Exception as e: st['seedinvalid']+=1; continue
    t.drop_index()
    s=shuffle(t,rng); s2=s.copy(); s2.sort()
    # permutation relation for edges incl metadata
    def rows(tab): return sorted(map(repr,tab))
    ok = rows(s2.edges)==rows(t.edges) and rows(s2.migrations)==rows(t.migrations) and s2.nodes.equals(t.nodes) and s2.individuals.equals(t.individuals) and s2.populations.equals(t.populations)
    ok = ok and sorted((x.position,x.ancestral_state,x.metadata) for x in s2.sites)==sorted((x.position,x.ancestral_state,x.metadata) for x in t.sites)
    def mkey(tab,sites): return sorted((sites[m.site].position,m.node,m.derived_state,m.metadata, tab[m.parent].metadata if m.parent!=-1 else None) for m in tab)
    ok = ok and mkey(s2.mutations,s2.sites)==mkey(t.mutations,t.sites)
    s3=s2.copy(); s3.sort(); ok = ok and s3.equals(s2)
    st['sortperm'+('ok' if ok else 'BAD')]+=1
    # loads after sort?  (parent-before-child not guaranteed by sort)
    try:
        s2.build_index(); s2.compute_mutation_parents(); ts2=s2.tree_sequence(); st['loads']+=1
        same = all((ts.genotype_matrix()==ts2.genotype_matrix()).all() for _ in [0]) if ts.num_sites else True
        st['geno'+('ok' if same else 'BAD')]+=1
    except Exception as e: st['loadexc:'+str(e)[:45]]+=1
    # canonicalise invariance
    c1=t.copy(); c2=s.copy()
    try:
        c1.canonicalise(); c2.canonicalise()
        st['canon'+('ok' if c1.equals(c2) else 'DIFF')]+=1
        if not c1.equals(c2) and st['canonDIFF']<3:
            d=[n for n in ['nodes','edges','sites','mutations','individuals','populations','migrations'] if getattr(c1,n)!=getattr(c2,n)]; print(d); print(getattr(c1,d[0]),getattr(c2,d[0]))
    except Exception as e: st['canonexc:'+str(e)[:45]]+=1
print(st)
