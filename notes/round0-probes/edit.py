import random, tskit, collections, sys, itertools, numpy as np
sys.path.insert(0,'/tmp/proto')
from gen_ts import random_tables
from simp import parent_at
rng=random.Random(int(sys.argv[1])); st=collections.Counter()
def rich(rng):
    t=random_tables(rng,N=rng.randint(3,7))
    e=t.edges.copy(); t.edges.clear()
    for j,r in enumerate(e): t.edges.append(r.replace(metadata=b"e%d"%j))
    s=t.sites.copy(); t.sites.clear()
    for j,r in enumerate(s): t.sites.append(r.replace(metadata=b"s%d"%j))
    m=t.mutations.copy(); t.mutations.clear()
    for j,r in enumerate(m): t.mutations.append(r.replace(metadata=b"m%d"%j))
    n=t.nodes.copy(); t.nodes.clear()
    for j,r in enumerate(n): t.nodes.append(r.replace(metadata=b"n%d"%j))
    if rng.random()<0.4 and len(t.mutations): t.build_index(); t.compute_mutation_times()
    return t
def edge_md_at(ts,x):
    return {e.child:(e.parent,e.metadata) for e in ts.edges() if e.left<=x<e.right}
def siteinfo(ts):
    return {s.position:(s.ancestral_state,s.metadata,[(m.node,m.derived_state,m.metadata,None if tskit.is_unknown_time(m.time) else m.time, ts.mutation(m.parent).metadata if m.parent!=-1 else None) for m in s.mutations]) for s in ts.sites()}
for it in range(1500):
    t=rich(rng); ts=t.tree_sequence(); L=int(ts.sequence_length)
    # random interval list over unit cells
    cells=[rng.random()<0.5 for _ in range(L)]
    ivs=[]; x=0
    while x<L:
        if cells[x]:
            y=x
            while y<L and cells[y] and not (y>x and rng.random()<0.2): y+=1
            ivs.append((x,y)); x=y
        else: x+=1
    kept=set(c for a,b in ivs for c in range(a,b))
    for op in ['keep','delete']:
        try:
            r = ts.keep_intervals(ivs,simplify=False,record_provenance=False) if op=='keep' else ts.delete_intervals(ivs,simplify=False,record_provenance=False)
        except Exception as e:
            st[op+'exc:'+str(e)[:40]]+=1; continue
        K = kept if op=='keep' else set(range(L))-kept
        ok=True
        for x in range(L):
            exp=edge_md_at(ts,x) if x in K else {}
            if edge_md_at(r,x)!=exp: ok=False; print(op,"EDGE",x,ivs,exp,edge_md_at(r,x))
        si=siteinfo(ts); sr=siteinfo(r)
        if sr!={p:v for p,v in si.items() if int(p) in K}: ok=False; print(op,"SITES",ivs, si, sr)
        if not r.tables.nodes.equals(ts.tables.nodes): ok=False; print("NODES")
        st[op+('ok' if ok else 'BAD')]+=1
    # delete_sites
    if ts.num_sites:
        ids=rng.sample(range(ts.num_sites),rng.randint(0,ts.num_sites))
        r=ts.delete_sites(ids,record_provenance=False)
        si=siteinfo(ts); sr=siteinfo(r); dele={ts.site(i).position for i in ids}
        exp={}
        for p,v in si.items():
            if p not in dele: exp[p]=v
        st['delsites'+('ok' if sr==exp and r.tables.edges.equals(ts.tables.edges) else 'BAD')]+=1
    # split_edges / decapitate / delete_older
    tm=rng.choice([0,0.5,1,1.5,2,2.5,3,3.5])
    try:
        sp=ts.split_edges(tm)
        # trees: contracting new nodes gives original
        ok=True
        newn=set(range(ts.num_nodes,sp.num_nodes))
        for x in range(L):
            par=parent_at(sp,x); orig=parent_at(ts,x)
            for u in range(ts.num_nodes):
                p=par[u]
                if p in newn:
                    if sp.node(p).time!=tm: ok=False
                    p=par[p]
                if p!=orig[u]: ok=False
            for u in newn:
                pass
        g0=ts.genotype_matrix(isolated_as_missing=False) if ts.num_sites else None
        g1=sp.genotype_matrix(isolated_as_missing=False) if ts.num_sites else None
        if ts.num_sites and not np.array_equal(g0,g1): ok=False
        if not sp.tables.nodes[:ts.num_nodes].equals(ts.tables.nodes): ok=False
        st['split'+('ok' if ok else 'BAD')]+=1
        if not ok: print("SPLIT",tm); print(ts.tables.edges, sp.tables.edges, sp.tables.nodes)
        dc=ts.decapitate(tm)
        ok=True
        for e in dc.edges():
            if dc.node(e.parent).time>tm: ok=False
        for x in range(L):
            par=parent_at(dc,x); orig=parent_at(ts,x)
            for u in range(ts.num_nodes):
                tu=ts.node(u).time
                if orig[u]!=-1 and ts.node(orig[u]).time<=tm:
                    if par[u]!=orig[u]: ok=False
                elif orig[u]!=-1 and tu<tm:   # edge crosses tm: parent is new node at time tm
                    if par[u]==-1 or dc.node(par[u]).time!=tm or par[u]<ts.num_nodes: ok=False
                else:
                    if par[u]!=-1: ok=False
        for m in dc.mutations():
            mt=m.time if not tskit.is_unknown_time(m.time) else dc.node(m.node).time
            if mt>=tm: ok=False
        st['decap'+('ok' if ok else 'BAD')]+=1
        if not ok: print("DECAP",tm); print(ts.tables.nodes,ts.tables.edges, dc.tables.edges, dc.tables.nodes)
    except tskit.LibraryError as e:
        st['timeexc:'+str(e)[:50]]+=1
print(st)
