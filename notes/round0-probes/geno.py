import random, tskit, collections, sys, numpy as np
sys.path.insert(0,'/tmp/proto')
from gen_ts import random_tables
def parent_at(ts, x):
    par=[-1]*ts.num_nodes
    for e in ts.edges():
        if e.left<=x<e.right: par[e.child]=e.parent
    return par
rng=random.Random(int(sys.argv[1])); st=collections.Counter()
for it in range(2000):
    t=random_tables(rng,N=rng.randint(3,7),nsites=3,nmuts=4); ts=t.tree_sequence()
    if ts.num_sites==0: continue
    iam=rng.random()<0.5
    allnodes=list(range(ts.num_nodes)); S=list(ts.samples())
    mode=rng.random()
    if mode<0.3: nodes=None; nl=S
    elif mode<0.6 or iam: nl=rng.sample(S,rng.randint(0,len(S))) if S else []; nodes=nl
    else: nl=rng.sample(allnodes,rng.randint(1,len(allnodes))); nodes=nl
    try:
        var=tskit.Variant(ts,samples=nodes,isolated_as_missing=iam)
    except Exception as e: st['initexc:'+str(e)[:40]]+=1; continue
    order=[rng.randrange(ts.num_sites) for _ in range(6)]
    for sid in order:
        var.decode(sid); site=ts.site(sid); par=parent_at(ts,site.position)
        haschild=[False]*ts.num_nodes
        for c,p in enumerate(par):
            if p!=-1: haschild[p]=True
        exp=[]
        for u in nl:
            v=u; a=None
            while v!=-1:
                ms=[m for m in site.mutations if m.node==v]
                if ms: a=ms[-1].derived_state; break
                v=par[v]
            if a is None:
                isolated = par[u]==-1 and not haschild[u]
                if iam and isolated and (ts.node(u).flags&1): a=None
                else: a=site.ancestral_state
            exp.append(a)
        got=[var.alleles[g] if g!=-1 else None for g in var.genotypes]
        if got!=exp: print("DIFF",sid,nl,iam,got,exp); print(ts.tables.edges,ts.tables.sites,ts.tables.mutations,ts.tables.nodes); sys.exit()
        if var.alleles[0]!=site.ancestral_state: print("ANC0"); sys.exit()
        if var.has_missing_data != (None in exp): print("HASMISSING", var.has_missing_data, exp, var.alleles); sys.exit()
        st['ok']+=1
print(st)
