import random, tskit, collections, sys, itertools, numpy as np
sys.path.insert(0,'/tmp/proto')
from gen_ts import random_tables
from simp import parent_at
rng=random.Random(int(sys.argv[1])); st=collections.Counter()
def best(par, nodes_in_tree, roots, obs, A, fixed_anc):
    # min changes over assignments to nodes_in_tree; root edges count change from ancestral
    nodes=sorted(nodes_in_tree); bestc=None
    ancs=[fixed_anc] if fixed_anc is not None else range(A)
    for anc in ancs:
        for assign in itertools.product(range(A),repeat=len(nodes)):
            s=dict(zip(nodes,assign))
            if any(u in obs and obs[u]!=-1 and s[u]!=obs[u] for u in nodes): continue
            c=sum(1 for u in nodes if (s[par[u]] if par[u]!=-1 else anc)!=s[u])
            if bestc is None or c<bestc: bestc=c
    return bestc
for it in range(1500):
    t=random_tables(rng,N=rng.randint(3,6),nsites=0); ts=t.tree_sequence()
    S=list(ts.samples())
    if len(S)<1: continue
    tree=ts.at(rng.randrange(int(ts.sequence_length)))
    A=rng.randint(1,3)
    g=[rng.choice(list(range(A))+[-1]) for _ in S]
    if all(x==-1 for x in g): continue
    fixed=rng.choice([None]+list(range(A)))
    alleles=[str(i) for i in range(A)]
    anc,muts=tree.map_mutations(g,alleles,ancestral_state=fixed)
    par=[tree.parent(u) for u in range(ts.num_nodes)]
    innodes=set(tree.nodes())
    obs={u:x for u,x in zip(S,g)}
    b=best(par,innodes,tree.roots,obs,A,fixed)
    # reproduce check
    state={}
    order=list(tree.nodes(order="preorder"))
    mstate={}
    for m in muts: mstate.setdefault(m.node,[]).append(m.derived_state)
    ok=True
    for u in order:
        s=anc if par[u]==-1 else state[par[u]]
        if u in mstate: s=mstate[u][-1]
        state[u]=s
    for u,x in obs.items():
        if x!=-1 and u in state and state[u]!=alleles[x]: ok=False
    internal_missing=any(x==-1 and tree.num_children(u)>0 for u,x in obs.items())
    key=('repro' if ok else 'NOREPRO', 'min' if len(muts)==b else 'NONMIN', 'intmiss' if internal_missing else 'nointmiss')
    st[key]+=1
    if (not ok or len(muts)!=b) and not internal_missing and st[key]<3:
        print(key, g, fixed, anc, [(m.node,m.derived_state,m.parent) for m in muts], b); print(tree.draw_text()); print(S)
print(st)
