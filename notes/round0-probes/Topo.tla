------------------------------- MODULE Topo -------------------------------
EXTENDS Integers, Sequences, FiniteSets, TLC, FiniteSetsExt
CONSTANT N
\* set partitions of S into >= 2 blocks, as sets of sets
RECURSIVE Parts(_)
Parts(S) == IF S = {} THEN {{}} ELSE
   LET x == CHOOSE y \in S : \A z \in S : y <= z
       rest == S \ {x}
   IN UNION {{ {B \cup {x}} \cup P : P \in Parts(rest \ B)} : B \in SUBSET rest}
\* topology over leaf set S as set of clades (subsets with >=2 elements incl S itself)
RECURSIVE Topos(_)
RECURSIVE Combine(_)
\* Combine(seq of sets of clade-sets) = all unions choosing one from each
Combine(Q) == IF Q = <<>> THEN {{}} ELSE {a \cup b : a \in Head(Q), b \in Combine(Tail(Q))}
SetToSeq(S) == CHOOSE f \in [1..Cardinality(S) -> S] : \A i, j \in 1..Cardinality(S) : i # j => f[i] # f[j]
Topos(S) == IF Cardinality(S) = 1 THEN {{}} ELSE
   UNION {{ {S} \cup c : c \in Combine([i \in 1..Cardinality(P) |-> Topos(SetToSeq(P)[i])])} :
          P \in {Q \in Parts(S) : Cardinality(Q) >= 2}}
VARIABLE done
Init == done = FALSE
Next == ~done /\ done' = TRUE /\ PrintT(<<"count", N, Cardinality(Topos(1..N))>>)
=============================================================================
