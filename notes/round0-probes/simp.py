import random, itertools, tskit, numpy as np, collections, sys
sys.path.insert(0,'/tmp/proto')
from gen_ts import random_tables

def parent_at(ts, x):
    par=[-1]*ts.num_nodes
    for e in ts.edges():
        if e.left<=x<e.right: par[e.child]=e.parent
    return par
def children(par,u): return [v for v in range(len(par)) if par[v]==u]

def expected_tree(ts, x, samples, keep_unary, kuii, keep_input_roots):
    """returns set of (parent,child) in INPUT ids expected in output at x"""
    par=parent_at(ts,x); N=ts.num_nodes
    S=set(samples)
    order=sorted(range(N), key=lambda u: ts.node(u).time)
    A={}  # carrier
    edges=set()
    for u in order:
        C=[A[c] for c in children(par,u) if A.get(c) is not None]
        C=list(dict.fromkeys(C))
        ku = keep_unary or (kuii and ts.node(u).individual!=-1)
        if u in S:
            A[u]=u
            for c in C: edges.add((u,c))
        elif len(C)==0: A[u]=None
        elif len(C)==1:
            if ku: A[u]=u; edges.add((u,C[0]))
            else: A[u]=C[0]
        else:
            A[u]=u
            for c in C: edges.add((u,c))
    if keep_input_roots:
        for u in range(N):
            if par[u]==-1 and A.get(u) is not None and A[u]!=u:
                edges.add((u,A[u]))
    return edges, A

def check(ts, samples, **opts):
    ku=opts.get('keep_unary',False); kuii=opts.get('keep_unary_in_individuals',False); kir=opts.get('keep_input_roots',False)
    try:
        sts, nm = ts.simplify(samples, map_nodes=True, **opts)
    except Exception as e:
        return ('exc', repr(e))
    inv={int(nm[u]):u for u in range(ts.num_nodes) if nm[u]!=-1}
    L=int(ts.sequence_length)
    for x in range(L):
        exp,A=expected_tree(ts,x+0.5 if False else x,samples,ku,kuii,kir)
        par=parent_at(sts,x)
        got=set((inv[p],inv[c]) for c,p in enumerate(par) if p!=-1)
        if got!=exp:
            return ('diff', x, sorted(exp), sorted(got))
    return ('ok',)

rng=random.Random(int(sys.argv[1]) if len(sys.argv)>1 else 1)
stats=collections.Counter()
for it in range(3000):
    t=random_tables(rng, N=rng.randint(3,7))
    ts=t.tree_sequence()
    k=rng.randint(1,min(4,ts.num_nodes))
    samples=rng.sample(range(ts.num_nodes),k)
    opts={}
    m=rng.random()
    if m<0.3: opts['keep_unary']=True
    elif m<0.4: opts['keep_unary_in_individuals']=True
    if rng.random()<0.4: opts['keep_input_roots']=True
    if rng.random()<0.3: opts['filter_nodes']=False
    r=check(ts,samples,**opts)
    stats[r[0]]+=1
    if r[0]!='ok':
        print(r, samples, opts); print(ts.tables.edges); print(ts.tables.nodes); break
print(stats)
