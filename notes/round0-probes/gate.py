import random, tskit, collections, sys, math, numpy as np
sys.path.insert(0,'/tmp/proto')
from gen_ts import random_tables
UNK=tskit.UNKNOWN_TIME
def isunk(x): return tskit.is_unknown_time(x)
def fin(x): return math.isfinite(x)
def valid(t, check_index=None):
    L=t.sequence_length
    if not (L>0): return False
    N=len(t.nodes); P=len(t.populations); I=len(t.individuals); S=len(t.sites); M=len(t.mutations)
    nt=t.nodes.time
    for n in t.nodes:
        if not fin(n.time): return False
        if not (-1<=n.population<P): return False
        if not (-1<=n.individual<I): return False
    E=list(t.edges)
    for e in E:
        if not(0<=e.parent<N and 0<=e.child<N): return False
        if not(fin(e.left) and fin(e.right)): return False
        if not(0<=e.left<e.right<=L): return False
        if not(nt[e.parent]>nt[e.child]): return False
    # ordering
    for a,b in zip(E,E[1:]):
        if nt[b.parent]<nt[a.parent]: return False
        if a.parent==b.parent:
            if (b.child,b.left)<=(a.child,a.left): return False
    seen=set(); last=None
    for e in E:
        if e.parent!=last:
            if e.parent in seen: return False
            seen.add(e.parent); last=e.parent
    pos=[s.position for s in t.sites]
    for p in pos:
        if not fin(p) or not (0<=p<L): return False
    for a,b in zip(pos,pos[1:]):
        if not a<b: return False
    Mu=list(t.mutations)
    for j,m in enumerate(Mu):
        if not(0<=m.site<S and 0<=m.node<N): return False
        if not(-1<=m.parent<M) or m.parent==j: return False
        if not isunk(m.time):
            if not fin(m.time): return False
            if m.time<nt[m.node]: return False
        if m.parent!=-1:
            pm=Mu[m.parent]
            if pm.site!=m.site: return False
            if not isunk(m.time) and m.time>pm.time: return False   # nan compare false
            if m.parent>j: return False
    for a,b in zip(Mu,Mu[1:]):
        if a.site>b.site: return False
    for s in range(S):
        ms=[m for m in Mu if m.site==s]
        k=[isunk(m.time) for m in ms]
        if any(k) and not all(k): return False
        tm=[m.time for m in ms if not isunk(m.time)]
        for a,b in zip(tm,tm[1:]):
            if b>a: return False
    for g in t.migrations:
        if not(0<=g.node<N): return False
        if not(0<=g.source<P and 0<=g.dest<P): return False
        if not fin(g.time): return False
        if not(fin(g.left) and fin(g.right) and 0<=g.left<g.right<=L): return False
    mt=[g.time for g in t.migrations]
    for a,b in zip(mt,mt[1:]):
        if a>b: return False
    for j,ind in enumerate(t.individuals):
        for p in ind.parents:
            if p!=-1 and not(0<=p<I): return False
            if p==j: return False
    # disjoint child intervals
    for ia,a in enumerate(E):
        for ib,b in enumerate(E):
            if ia<ib and a.child==b.child and a.left<b.right and b.left<a.right: return False
    # mutation time < time of parent node at site
    for m in Mu:
        if not isunk(m.time):
            x=pos[m.site]
            for e in E:
                if e.child==m.node and e.left<=x<e.right:
                    if not (m.time<nt[e.parent]): return False
    return True
def real(t):
    t=t.copy(); before=t.copy()
    try:
        t.tree_sequence(); ok=True
    except (tskit.LibraryError, ValueError) as e: ok=False
    before.drop_index(); t2=t.copy(); t2.drop_index()
    assert t2.equals(before)
    return ok
rng=random.Random(int(sys.argv[1])); st=collections.Counter()
SPEC=[float('nan'),UNK,float('inf'),-float('inf')]
def corrupt(t,rng):
    tabs=[n for n in ['nodes','edges','sites','mutations','individuals','migrations'] if len(getattr(t,n))>0]
    if not tabs: return "none"
    name=rng.choice(tabs); tab=getattr(t,name); j=rng.randrange(len(tab)); row=tab[j]
    fields={'nodes':['time','population','individual'],'edges':['left','right','parent','child'],'sites':['position'],
            'mutations':['site','node','parent','time'],'individuals':['parents'],'migrations':['left','right','node','source','dest','time']}[name]
    f=rng.choice(fields)
    n={'nodes':len(t.nodes)}
    if f in('time','left','right','position'):
        v=rng.choice(SPEC+[-1,0,0.5,1,2,3,t.sequence_length,t.sequence_length+1])
    elif f=='parents': v=[rng.choice([-1,0,j,len(tab),len(tab)-1])]
    else:
        ref={'population':len(t.populations),'individual':len(t.individuals),'parent':len(t.nodes) if name=='edges' else len(t.mutations),
             'child':len(t.nodes),'site':len(t.sites),'node':len(t.nodes),'source':len(t.populations),'dest':len(t.populations)}[f]
        v=rng.choice([-1,0,1,max(ref-1,-1),ref,ref+1,j])
    tab[j]=row.replace(**{f:v})
    return (name,j,f,v)
for it in range(6000):
    t=random_tables(rng,N=rng.randint(3,6))
    if rng.random()<0.5:
        for _ in range(rng.randint(0,2)): t.populations.add_row()
        for _ in range(rng.randint(0,2)): t.individuals.add_row(parents=[-1])
        if len(t.populations)>0:
            for _ in range(rng.randint(0,2)):
                t.migrations.add_row(0,1,0,0,0,rng.choice([0.5,1.5]))
            t.sort()
    if rng.random()<0.3 and len(t.mutations)>0:
        t.build_index(); t.compute_mutation_times()
    assert real(t) and valid(t), "seed invalid?"
    c=[]
    for _ in range(rng.choice([1,1,2])):
        c.append(corrupt(t,rng))
        if rng.random()<0.2 and len(t.edges)>1:
            # swap two edge rows
            a,b=rng.sample(range(len(t.edges)),2); ra,rb=t.edges[a],t.edges[b]; t.edges[a]=rb; t.edges[b]=ra; c.append(('swap',a,b))
    t.drop_index()
    v=valid(t); r=real(t)
    st[(v,r)]+=1
    if v!=r:
        print("MISMATCH valid=",v,"real=",r,c); print(t.nodes,t.edges,t.sites,t.mutations,t.migrations,t.individuals)
        try: t.tree_sequence()
        except Exception as e: print(e)
        break
print(st)
