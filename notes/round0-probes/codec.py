import random, struct, sys, collections, json, numpy as np, tskit
from tskit import metadata as md
rng=random.Random(int(sys.argv[1]))
SCAL=[("integer","b",[-3,0,5]),("integer","B",[0,7,255]),("integer","h",[-300,4]),("integer","H",[65535,1]),("integer","i",[-70000,9]),
      ("integer","I",[4000000000,2]),("integer","l",[-5,6]),("integer","L",[7,8]),("integer","q",[-2**40,3]),("integer","Q",[2**63,1]),
      ("number","f",[0.5,-2.25,1024.0]),("number","d",[0.1,3.5]),("boolean","?",[True,False]),("string","c",["a","Z"]),
      ("string","3s",["abc","ab","abcd"]),("string","5p",["abc","","abcdefg"])]
def gen_schema(depth=0):
    r=rng.random()
    if depth>=2 or r<0.55:
        ty,fmt,vals=rng.choice(SCAL); s={"type":ty,"binaryFormat":fmt}
        if ty=="string" and rng.random()<0.3 and fmt.endswith("s"): s["nullTerminated"]=True
        return s
    if r<0.8:
        n=rng.randint(1,3); props={}
        for k in rng.sample("abcdefg",n):
            props[k]=gen_schema(depth+1)
            if rng.random()<0.6: props[k]["index"]=rng.randint(0,2)
        return {"type":"object","properties":props}
    a={"type":"array","items":gen_schema(depth+1)}
    m=rng.random()
    if m<0.3: a["length"]=rng.randint(0,2)
    elif m<0.6: a["arrayLengthFormat"]=rng.choice("BHILQ")
    elif m<0.7 and depth==1: a["noLengthEncodingExhaustBuffer"]=True
    return a
def gen_val(s):
    if s["type"]=="object": return {k:gen_val(v) for k,v in s["properties"].items()}
    if s["type"]=="array":
        n=s.get("length", rng.randint(0,3)); return [gen_val(s["items"]) for _ in range(n)]
    for ty,fmt,vals in SCAL:
        if fmt==s["binaryFormat"] and ty==s["type"]: return rng.choice(vals)
def cells(s,v):
    """expected byte layout + expected decoded value"""
    if s["type"]=="object":
        out=b""; dec={}
        for k in sorted(s["properties"], key=lambda k:(s["properties"][k].get("index",0),k)):
            b,d=cells(s["properties"][k], v[k]); out+=b; dec[k]=d
        return out,dec
    if s["type"]=="array":
        out=b""; dec=[]
        if "length" not in s and not s.get("noLengthEncodingExhaustBuffer"):
            out+=struct.pack("<"+s.get("arrayLengthFormat","L"),len(v))
        for x in v:
            b,d=cells(s["items"],x); out+=b; dec.append(d)
        return out,dec
    f=s["binaryFormat"]
    if s["type"]=="string":
        raw=v.encode()
        b=struct.pack("<"+f,raw)
        if f=="c": return b,v
        n=int(f[:-1])
        if f.endswith("s"):
            d=raw[:n].ljust(n,b"\0").decode()
            if s.get("nullTerminated"): d=d.split("\0")[0]
            return b,d
        else: # pascal
            d=raw[:n-1].decode(); return b,d
    b=struct.pack("<"+f,v)
    d=struct.unpack("<"+f,b)[0]
    return b,d
st=collections.Counter()
for it in range(3000):
    top={"type":"object","properties":{}}
    for k in rng.sample("uvwxyz",rng.randint(1,3)):
        top["properties"][k]=gen_schema(1)
        if rng.random()<0.6: top["properties"][k]["index"]=rng.randint(0,2)
    top["codec"]="struct"
    # exhaust buffer arrays only valid last
    try:
        ms=tskit.MetadataSchema(top)
    except Exception as e:
        st['schemaexc:'+type(e).__name__]+=1; continue
    v=gen_val(top)
    try:
        enc=ms.validate_and_encode_row(v)
    except Exception as e:
        st['encexc:'+type(e).__name__]+=1
        if st['encexc:'+type(e).__name__]<3: print("ENC",repr(e)[:100],json.dumps(top),v)
        continue
    eb,ed=cells(top,v)
    if enc!=eb: print("LAYOUT",json.dumps(top),v,enc,eb); break
    try: dec=ms.decode_row(enc)
    except Exception as e:
        st['decexc:'+type(e).__name__]+=1
        if st['decexc:'+type(e).__name__]<3: print("DEC",repr(e)[:100],json.dumps(top),v)
        continue
    if dec!=ed:
        st['decdiff']+=1
        if st['decdiff']<4: print("DECDIFF",json.dumps(top),v,dec,ed)
        continue
    ms2=tskit.MetadataSchema(json.loads(repr(ms)))
    if ms2.validate_and_encode_row(v)!=enc: print("REPR"); break
    st['ok']+=1
print(st)
