CONSTANTS
  NumNodesC = 4
  LC = 3
  MaxEdges = 3
  TimeVecs <- TimeVecsQ
  FlagVecs <- FlagVecsQ
SPECIFICATION Spec
CHECK_DEADLOCK FALSE
