------------------------------- MODULE TskSort -------------------------------
(***************************************************************************)
(* C07: TableCollection.sort() as a *relation* between the tables before and *)
(* after (never a particular output where the documentation leaves freedom): *)
(* nodes, individuals and populations untouched; edges, sites, mutations and  *)
(* migrations permuted (row content incl. metadata travels with the row,      *)
(* mutation.site / mutation.parent remapped) into the documented key orders,  *)
(* rows before the *_start bookmarks untouched; plus the definition of        *)
(* compute_mutation_parents (nearest mutation above) and what the repair      *)
(* pipeline must achieve.  Rows carry unique identity tags.                   *)
(***************************************************************************)
EXTENDS TskGenotypes
UNKT == -1                                             \* unknown mutation time in the abstract record
Tags(q) == [i \in 1..Len(q) |-> q[i].tag]
\* row content with references expressed through tags
EdgeRow(e) == <<e.left, e.right, e.parent, e.child, e.tag>>
SiteRow(s) == <<s.pos, s.anc, s.tag>>
MutRow(t, m) == <<t.sites[m.site + 1].tag, m.node, m.der, IF m.parent = NULL THEN NULL ELSE t.muts[m.parent + 1].tag, m.time, m.tag>>
MigRow(g) == <<g.left, g.right, g.node, g.source, g.dest, g.time, g.tag>>
Bag(q, f(_)) == {f(q[i]) : i \in 1..Len(q)}
LexLE(a, b) == \* lexicographic <= on equal-length integer tuples
  \E n \in 0..Len(a) : (\A i \in 1..n : a[i] = b[i]) /\ (n = Len(a) \/ a[n + 1] < b[n + 1])
EdgeKey(t, e) == <<TimeOf(t, e.parent), e.parent, e.child, e.left>>
MigKey(g) == <<g.time, g.source, g.dest, g.left, g.node>>
\* build_index: the two index arrays are the permutations of the edge ids in the documented key orders, whatever index the
\* collection carried before
InsKey(t, e) == <<e.left, TimeOf(t, e.parent), e.parent, e.child>>
RemKey(t, e) == <<e.right, -TimeOf(t, e.parent), -e.parent, -e.child>>
LexLT(a, b) == LexLE(a, b) /\ a # b
IndexFresh(t, ins, rem) ==
  LET M == Len(t.edges) IN
  /\ Len(ins) = M /\ Len(rem) = M
  /\ {ins[i] : i \in 1..M} = 0..(M - 1) /\ {rem[i] : i \in 1..M} = 0..(M - 1)
  /\ \A i \in 1..(M - 1) : LexLT(InsKey(t, t.edges[ins[i] + 1]), InsKey(t, t.edges[ins[i + 1] + 1]))
  /\ \A i \in 1..(M - 1) : LexLT(RemKey(t, t.edges[rem[i] + 1]), RemKey(t, t.edges[rem[i + 1] + 1]))
PosOfTag(q, tg) == CHOOSE i \in 1..Len(q) : q[i].tag = tg
SortRel(a, b, es, ss, ms) ==
  {cl \in {"nodes_untouched", "individuals_untouched", "populations_untouched", "edges_permuted", "edges_prefix", "edges_sorted",
           "sites_permuted", "sites_sorted", "sites_stable", "muts_permuted", "muts_sorted", "muts_stable",
           "migs_permuted", "migs_sorted", "bookmark"} :
    ~ CASE cl = "nodes_untouched" -> a.time = b.time /\ a.rawflags = b.rawflags /\ a.node_tag = b.node_tag /\ a.ind = b.ind /\ a.pop = b.pop
        [] cl = "individuals_untouched" -> a.ind_rows = b.ind_rows /\ a.ind_parents = b.ind_parents
        [] cl = "populations_untouched" -> a.pop_rows = b.pop_rows
        [] cl = "edges_permuted" -> Len(a.edges) = Len(b.edges) /\ Bag(a.edges, EdgeRow) = Bag(b.edges, EdgeRow)
        [] cl = "edges_prefix" -> SubSeq(b.edges, 1, es) = SubSeq(a.edges, 1, es)
        [] cl = "edges_sorted" -> \A i \in (es + 1)..(Len(b.edges) - 1) : LexLE(EdgeKey(b, b.edges[i]), EdgeKey(b, b.edges[i + 1]))
        [] cl = "sites_permuted" -> Len(a.sites) = Len(b.sites) /\ Bag(a.sites, SiteRow) = Bag(b.sites, SiteRow)
        [] cl = "sites_sorted" -> ss > 0 \/ \A i \in 1..(Len(b.sites) - 1) : b.sites[i].pos <= b.sites[i + 1].pos
        [] cl = "sites_stable" -> ss > 0 \/ \A i, j \in 1..Len(b.sites) : (i < j /\ b.sites[i].pos = b.sites[j].pos) =>
                                      PosOfTag(a.sites, b.sites[i].tag) < PosOfTag(a.sites, b.sites[j].tag)
        [] cl = "muts_permuted" -> Len(a.muts) = Len(b.muts) /\ {MutRow(a, a.muts[i]) : i \in 1..Len(a.muts)} = {MutRow(b, b.muts[i]) : i \in 1..Len(b.muts)}
        [] cl = "muts_sorted" -> ms > 0 \/ \A i \in 1..(Len(b.muts) - 1) : LET x == b.muts[i] y == b.muts[i + 1] IN
                                      x.site < y.site \/ (x.site = y.site /\ (x.time = UNKT \/ y.time = UNKT \/ x.time >= y.time))
        [] cl = "muts_stable" -> ms > 0 \/ \A i, j \in 1..Len(b.muts) : LET x == b.muts[i] y == b.muts[j] IN
                                      \* equal (or both unknown) times at one site: relative order retained
                                      (i < j /\ x.site = y.site /\ x.time = y.time) =>
                                      PosOfTag(a.muts, x.tag) < PosOfTag(a.muts, y.tag)
        [] cl = "migs_permuted" -> Len(a.migs) = Len(b.migs) /\ Bag(a.migs, MigRow) = Bag(b.migs, MigRow)
        [] cl = "migs_sorted" -> \A i \in 1..(Len(b.migs) - 1) : LexLE(MigKey(b.migs[i]), MigKey(b.migs[i + 1]))
        [] cl = "bookmark" -> ss = 0 \/ (b.sites = a.sites /\ b.muts = a.muts)
  }
\* compute_mutation_parents: the nearest mutation above m at its site = the previous mutation listed on
\* the same node, else the last mutation listed on the nearest proper ancestor carrying one
MutParentDef(t, m) ==
  LET mm == t.muts[m]
      par == ParentAt(t, SitePos(t, mm.site))
      same == {k \in MutsOnNode(t, mm.site, mm.node) : k < m}
      path == Tail(PathUp(par, mm.node))
      hit == {i \in 1..Len(path) : MutsOnNode(t, mm.site, path[i]) # {}}
  IN IF same # {} THEN Max(same) - 1
     ELSE IF hit = {} THEN NULL ELSE Max(MutsOnNode(t, mm.site, path[Min(hit)])) - 1
=============================================================================
