---------------------------- MODULE Trace_Simplify ----------------------------
(* C04, code -> spec: recorded calls of TreeSequence.simplify on real tree        *)
(* sequences (input, chosen samples, options, output tables, node map, result of  *)
(* simplifying again) validated against the positional definition.                *)
EXTENDS TskSimplify, Json, IOUtils, TLC
Cases == ndJsonDeserialize(IOEnv.CASES)
VARIABLE k
Inv(c) == [q \in 0..(NumNodes(c.out) - 1) |-> LET S == {u \in NodesOf(c.ts) : c.nm[u + 1] = q} IN
             IF Cardinality(S) = 1 THEN CHOOSE u \in S : TRUE ELSE NULL]
OutEdgesAt(c, x) == LET par == ParentAt(c.out, x) inv == Inv(c) IN
   {<<inv[par[q]], inv[q]>> : q \in {r \in NodesOf(c.out) : par[r] # NULL}}
Fails(c) ==
  LET ts == c.ts
      out == c.out
      o == c.opts
      S == ToSet(c.samples)
      inv == Inv(c)
      mapped == {u \in NodesOf(ts) : c.nm[u + 1] # NULL}
      keptMuts == SelectSeq([m \in 1..Len(ts.muts) |-> m], LAMBDA m : MutCarrier(ts, m, S, o) # NULL)
      outSitePos == [s \in 1..Len(out.sites) |-> out.sites[s].pos]
      inSiteAt(p) == CHOOSE s \in 0..(Len(ts.sites) - 1) : ts.sites[s + 1].pos = p
  IN {cl \in {"nm_injective", "trees", "nodeset", "sample_order", "identity_map", "time", "flags", "mutations", "sites",
              "genotypes", "idempotent", "individuals", "populations", "rts_trees", "rts_no_sites_no_edges", "L", "ragged_metadata"} :
     ~ CASE cl = "nm_injective" -> \A q \in NodesOf(out) : inv[q] # NULL
         [] cl = "L" -> out.L = ts.L
         [] cl = "trees" -> o.reduce_to_site_topology = 1 \/ \A x \in 0..(ts.L - 1) : OutEdgesAt(c, x) = ExpectedEdges(ts, x, S, o)
         [] cl = "nodeset" -> o.filter_nodes = 0 \/ o.reduce_to_site_topology = 1 \/ mapped = UsedNodes(ts, S, o) \cup S
         [] cl = "sample_order" -> o.filter_nodes = 0 \/ \A i \in 1..Len(c.samples) : c.nm[c.samples[i] + 1] = i - 1
         [] cl = "identity_map" -> o.filter_nodes = 1 \/ (NumNodes(out) = NumNodes(ts) /\ \A u \in NodesOf(ts) : c.nm[u + 1] = u)
         [] cl = "time" -> \A u \in mapped : TimeOf(out, c.nm[u + 1]) = TimeOf(ts, u) /\ out.ind_tag[c.nm[u + 1] + 1] = ts.ind_tag[u + 1]
                                           /\ out.pop_tag[c.nm[u + 1] + 1] = ts.pop_tag[u + 1] /\ out.node_tag[c.nm[u + 1] + 1] = u
         \* the sample bit is set exactly on the chosen samples (unless update_sample_flags is off); every
         \* other flag bit is preserved
         [] cl = "flags" -> \A u \in mapped : LET rf == ts.rawflags[u + 1] of == out.rawflags[c.nm[u + 1] + 1] IN
                                              IF o.update_sample_flags = 1
                                              THEN of = (rf - (rf % 2)) + (IF u \in S THEN 1 ELSE 0)
                                              ELSE of = rf
         [] cl = "mutations" -> o.reduce_to_site_topology = 1 \/
               (/\ Len(out.muts) = Len(keptMuts)
                /\ \A i \in 1..Len(keptMuts) : LET m == ts.muts[keptMuts[i]] om == out.muts[i] IN
                     /\ inv[om.node] = MutCarrier(ts, keptMuts[i], S, o)
                     /\ om.der = m.der /\ om.tag = keptMuts[i] - 1
                     /\ out.sites[om.site + 1].pos = ts.sites[m.site + 1].pos)
         [] cl = "sites" -> /\ \A s \in 1..Len(out.sites) : \E t \in 1..Len(ts.sites) : ts.sites[t].pos = out.sites[s].pos /\ ts.sites[t].anc = out.sites[s].anc
                                                                                      /\ out.sites[s].tag = t - 1
                            /\ IsStrictlySorted(outSitePos)
                            /\ IF o.filter_sites = 1
                               THEN ToSet(outSitePos) = {ts.sites[ts.muts[keptMuts[i]].site + 1].pos : i \in 1..Len(keptMuts)}
                                    \/ o.reduce_to_site_topology = 1
                               ELSE Len(out.sites) = Len(ts.sites)
         [] cl = "genotypes" -> \A s \in 0..(Len(out.sites) - 1) : \A i \in 1..Len(c.samples) :
                                   StateOf(out, s, c.nm[c.samples[i] + 1]) = StateOf(ts, inSiteAt(out.sites[s + 1].pos), c.samples[i])
         [] cl = "idempotent" -> c.idem = 1
         \* the same call with the metadata of a random subset of input rows removed gives row for row the same tables,
         \* each output row carrying the metadata (or none) of the input row it came from
         [] cl = "ragged_metadata" -> c.ragged_ok = 1
         [] cl = "individuals" -> IF o.filter_individuals = 1
                                  THEN ToSet(out.ind_rows) = {ts.ind_tag[u + 1] : u \in mapped} \ {NULL}
                                  ELSE out.ind_rows = ts.ind_rows
         [] cl = "populations" -> IF o.filter_populations = 1
                                  THEN ToSet(out.pop_rows) = {ts.pop_tag[u + 1] : u \in mapped} \ {NULL}
                                  ELSE out.pop_rows = ts.pop_rows
         [] cl = "rts_trees" -> o.reduce_to_site_topology = 0 \/
               \* at every retained site the reduced result shows exactly the unreduced tree
               \A s \in 1..Len(out.sites) : OutEdgesAt(c, out.sites[s].pos) = ExpectedEdges(ts, out.sites[s].pos, S, o)
         [] cl = "rts_no_sites_no_edges" -> o.reduce_to_site_topology = 0 \/ Len(ts.sites) > 0 \/ Len(out.edges) = 0
     }
Init == k = 0
Next == k < Len(Cases) /\ k' = k + 1
Spec == Init /\ [][Next]_k
Report == k = 0 \/ PrintT(<<"V", Cases[k].id, Fails(Cases[k])>>)
=============================================================================
