---------------------------- MODULE Trace_Immutable ----------------------------
(* C13 (second half): no call on a TreeSequence or an object obtained from it    *)
(* alters the tree sequence.  State: the digest of the tree sequence's tables.   *)
(* Every recorded call is one step; the action property is tables' = tables,     *)
(* also after the harness *attempted to write* into every array handed out:      *)
(* such an array must be read-only or a private copy.                            *)
EXTENDS Integers, Sequences, FiniteSets, TLC, Json, IOUtils
Cases == ndJsonDeserialize(IOEnv.CASES)
VARIABLES k, j, tables, bad
vars == <<k, j, tables, bad>>
C == Cases[k]
Init == k = 1 /\ j = 0 /\ tables = C.digest0 /\ bad = {}
Step == /\ j < Len(C.events)
        /\ LET ev == C.events[j + 1] IN
             /\ tables' = ev.digest
             /\ bad' = bad \cup (IF ev.digest # tables THEN {"call_changed_tables"} ELSE {})
                           \cup (IF \E i \in 1..Len(ev.arrays) : ev.arrays[i].digest_after_write # tables
                                 THEN {"writable_view_of_tables"} ELSE {})
                           \cup (IF \E i \in 1..Len(ev.arrays) : ev.arrays[i].wrote = 1 /\ ev.arrays[i].writeable = 0
                                 THEN {"readonly_flag_not_enforced"} ELSE {})
                           \* an array that could be written to must have been a copy: the same call still returns the original values
                           \cup (IF ev.refetch_same = 0 THEN {"write_visible_in_later_call:" \o ev.call} ELSE {})
        /\ j' = j + 1 /\ k' = k
NextCase == j = Len(C.events) /\ k < Len(Cases) /\ k' = k + 1 /\ j' = 0 /\ tables' = Cases[k + 1].digest0 /\ bad' = {}
Next == Step \/ NextCase
Spec == Init /\ [][Next]_vars
\* the property as an action property over the trace behaviour
Immutable == [][k' = k => tables' = tables]_vars
Report == j < Len(C.events) \/ PrintT(<<"V", C.id, bad>>)
=============================================================================
