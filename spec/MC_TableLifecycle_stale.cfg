CONSTANTS
  MaxSteps = 6
  Emit = FALSE
SPECIFICATION Spec
INVARIANT NeverStale
CHECK_DEADLOCK FALSE
