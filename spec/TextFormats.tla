----------------------------- MODULE TextFormats -----------------------------
(***************************************************************************)
(* C17: the tab-delimited text table formats.  For each of the seven table   *)
(* kinds: the required columns, the optional columns with their documented   *)
(* defaults, and what a header-driven parser must produce for any column     *)
(* order, any subset of optional columns and any unknown extra column.       *)
(* Values are abstract: integers, UNKT for an unknown mutation time, and     *)
(* sequences of small integers for byte / character strings and lists.       *)
(***************************************************************************)
EXTENDS Integers, Sequences, FiniteSets, SequencesExt, FiniteSetsExt, TLC
UNKT == -1
Kinds == {"nodes", "edges", "sites", "mutations", "individuals", "populations", "migrations"}
Required(k) == CASE k = "nodes" -> <<"is_sample", "time">>
                 [] k = "edges" -> <<"left", "right", "parent", "child">>
                 [] k = "sites" -> <<"position", "ancestral_state">>
                 [] k = "mutations" -> <<"site", "node", "derived_state">>
                 [] k = "individuals" -> <<"flags">>
                 [] k = "populations" -> <<"metadata">>
                 [] k = "migrations" -> <<"left", "right", "node", "source", "dest", "time">>
\* optional column -> default when the column is absent
Optional(k) == CASE k = "nodes" -> [population |-> -1, individual |-> -1, metadata |-> <<>>]
                 [] k = "sites" -> [metadata |-> <<>>]
                 [] k = "mutations" -> [time |-> UNKT, parent |-> -1, metadata |-> <<>>]
                 [] k = "individuals" -> [location |-> <<>>, parents |-> <<>>, metadata |-> <<>>]
                 [] k = "migrations" -> [metadata |-> <<>>]
                 [] OTHER -> [x \in {} |-> 0]
AllCols(k) == ToSet(Required(k)) \cup DOMAIN Optional(k)
\* what the parser must produce for one full row when only the columns in `present` are in the file
ParsedRow(k, full, present) == [c \in AllCols(k) |-> IF c \in present THEN full[c] ELSE Optional(k)[c]]
ParsedTable(k, rows, present) == [i \in 1..Len(rows) |-> ParsedRow(k, rows[i], present)]

\* fixed example rows per kind (the harness renders them as text in the enumerated column layouts)
Rows(k) ==
  CASE k = "nodes" -> <<[is_sample |-> 1, time |-> 0, population |-> 0, individual |-> 1, metadata |-> <<1, 2, 255>>],
                         [is_sample |-> 0, time |-> 3, population |-> -1, individual |-> -1, metadata |-> <<>>],
                         [is_sample |-> 1, time |-> 7, population |-> 1, individual |-> 0, metadata |-> <<0>>]>>
    [] k = "edges" -> <<[left |-> 0, right |-> 5, parent |-> 1, child |-> 0], [left |-> 2, right |-> 5, parent |-> 2, child |-> 1]>>
    [] k = "sites" -> <<[position |-> 1, ancestral_state |-> <<65>>, metadata |-> <<9, 10>>],
                         [position |-> 3, ancestral_state |-> <<>>, metadata |-> <<>>],
                         [position |-> 4, ancestral_state |-> <<65, 67, 71>>, metadata |-> <<200>>]>>
    [] k = "mutations" -> <<[site |-> 0, node |-> 2, derived_state |-> <<84>>, time |-> 2, parent |-> -1, metadata |-> <<7>>],
                             [site |-> 0, node |-> 0, derived_state |-> <<>>, time |-> UNKT, parent |-> 0, metadata |-> <<>>],
                             [site |-> 2, node |-> 1, derived_state |-> <<84, 84>>, time |-> 0, parent |-> -1, metadata |-> <<0, 0>>]>>
    [] k = "individuals" -> <<[flags |-> 0, location |-> <<>>, parents |-> <<>>, metadata |-> <<>>],
                               [flags |-> 3, location |-> <<1, 2>>, parents |-> <<0, -1>>, metadata |-> <<5>>],
                               [flags |-> 1, location |-> <<7>>, parents |-> <<1>>, metadata |-> <<255, 0>>]>>
    \* a population without metadata is an empty field - an empty *line* when metadata is the only column in the file
    [] k = "populations" -> <<[metadata |-> <<1>>], [metadata |-> <<>>], [metadata |-> <<2, 3>>], [metadata |-> <<>>]>>
    [] k = "migrations" -> <<[left |-> 0, right |-> 2, node |-> 1, source |-> 0, dest |-> 1, time |-> 2, metadata |-> <<4>>],
                              [left |-> 1, right |-> 5, node |-> 0, source |-> 1, dest |-> 0, time |-> 3, metadata |-> <<>>]>>
=============================================================================
