----------------------------- MODULE TreeCursor -----------------------------
(***************************************************************************)
(* The tsk_tree_t / tsk_tree_position_t state machine, transcribed action   *)
(* by action from c/tskit/trees.c:                                          *)
(*   tsk_tree_position_next / _prev / _seek_forward / _seek_backward,       *)
(*   tsk_tree_next / _prev / _first / _last / _seek / _seek_index /         *)
(*   _seek_from_null / _seek_linear / _clear / _copy,                       *)
(*   tsk_tree_insert_edge / _remove_edge with the path_end / POTENTIAL_ROOT *)
(*   root bookkeeping, sample counts and tracked-sample counts.             *)
(*                                                                          *)
(* The machine is written as pure functions on a state record so that the   *)
(* model-checking spec (MC_TreeCursor), the simulation spec that emits      *)
(* behaviours for replay into the code (Sim_TreeCursor) and the trace       *)
(* validation spec (Trace_TreeCursor) all reuse exactly the same actions.   *)
(*                                                                          *)
(* ts   : tree sequence record (see TskTrees) plus                          *)
(*        ins, rem : the edge insertion / removal index (0-based edge ids)  *)
(* o    : tree options [th |-> root_threshold, tracked |-> set of samples]  *)
(* Positions into the index orders are 0-based as in C.                     *)
(***************************************************************************)
EXTENDS TskTrees, TLC

M(ts) == Len(ts.edges)
VRoot(ts) == NumNodes(ts)
EdgeI(ts, j) == ts.edges[ts.ins[j + 1] + 1]     \* j-th (0-based) edge in insertion order
EdgeO(ts, j) == ts.edges[ts.rem[j + 1] + 1]
BP(ts) == BPSeq(ts)

\* --- the documented index orders (used to build ts.ins/ts.rem in MC and to check logged ones)
\* tsk_table_collection_build_index keys: (left, time[parent], parent, child) ascending and
\* (right, -time[parent], -parent, -child) ascending
InsLess(ts, i, j) == LET a == ts.edges[i] b == ts.edges[j] IN
  \/ a.left < b.left
  \/ a.left = b.left /\ TimeOf(ts, a.parent) < TimeOf(ts, b.parent)
  \/ a.left = b.left /\ TimeOf(ts, a.parent) = TimeOf(ts, b.parent) /\ a.parent < b.parent
  \/ a.left = b.left /\ a.parent = b.parent /\ a.child < b.child
RemLess(ts, i, j) == LET a == ts.edges[i] b == ts.edges[j] IN
  \/ a.right < b.right
  \/ a.right = b.right /\ TimeOf(ts, a.parent) > TimeOf(ts, b.parent)
  \/ a.right = b.right /\ TimeOf(ts, a.parent) = TimeOf(ts, b.parent) /\ a.parent > b.parent
  \/ a.right = b.right /\ a.parent = b.parent /\ a.child > b.child
IndexOK(ts) ==
  /\ Len(ts.ins) = M(ts) /\ Len(ts.rem) = M(ts)
  /\ {ts.ins[k] + 1 : k \in 1..M(ts)} = EIx(ts) /\ {ts.rem[k] + 1 : k \in 1..M(ts)} = EIx(ts)
  /\ \A k \in 1..(M(ts) - 1) : InsLess(ts, ts.ins[k] + 1, ts.ins[k + 1] + 1)
  /\ \A k \in 1..(M(ts) - 1) : RemLess(ts, ts.rem[k] + 1, ts.rem[k + 1] + 1)

\* ---------------- state ----------------
NS0(ts) == [u \in 0..VRoot(ts) |-> IF u = VRoot(ts) THEN Cardinality(SamplesOf(ts))
                                    ELSE IF IsSample(ts, u) THEN 1 ELSE 0]
NT0(ts, o) == [u \in 0..VRoot(ts) |-> IF u = VRoot(ts) THEN Cardinality(o.tracked)
                                       ELSE IF u \in o.tracked THEN 1 ELSE 0]
\* a freshly initialised tree (tsk_tree_init: memset 0 on the position, then clear)
NullTree(ts, o) ==
  [index |-> NULL, dir |-> 0, inS |-> 0, inE |-> 0, outS |-> 0, outE |-> 0, left |-> 0, right |-> 0,
   parent |-> [u \in NodesOf(ts) |-> NULL], edge |-> [u \in NodesOf(ts) |-> NULL],
   ns |-> NS0(ts), nt |-> NT0(ts, o),
   roots |-> IF o.th = 1 THEN SamplesOf(ts) ELSE {}, numEdges |-> 0, err |-> FALSE]
\* tsk_tree_clear: tree arrays reset, position set null, but direction and the in/out
\* ranges of the position keep their stale values
ClearS(ts, o, s) == [NullTree(ts, o) EXCEPT !.dir = s.dir, !.inS = s.inS, !.inE = s.inE,
                                            !.outS = s.outS, !.outE = s.outE, !.err = s.err]

Pot(o, ns, u) == ns[u] >= o.th
OnPath(path, u) == \E i \in 1..Len(path) : path[i] = u

\* tsk_tree_remove_edge; err collects the implicit assumptions of remove_root/insert_root
RemoveEdgeS(ts, o, s, p, c) ==
  LET par1 == [s.parent EXCEPT ![c] = NULL]
      path == PathUp(par1, p)
      pend == path[Len(path)]
      wasRoot == Pot(o, s.ns, pend)
      ns1 == [u \in DOMAIN s.ns |-> IF OnPath(path, u) THEN s.ns[u] - s.ns[c] ELSE s.ns[u]]
      nt1 == [u \in DOMAIN s.nt |-> IF OnPath(path, u) THEN s.nt[u] - s.nt[c] ELSE s.nt[u]]
      r1 == IF wasRoot /\ ~Pot(o, ns1, pend) THEN s.roots \ {pend} ELSE s.roots
      e1 == wasRoot /\ ~Pot(o, ns1, pend) /\ pend \notin s.roots
      r2 == IF Pot(o, ns1, c) THEN r1 \cup {c} ELSE r1
      e2 == Pot(o, ns1, c) /\ c \in r1
  IN [s EXCEPT !.parent = par1, !.edge = [s.edge EXCEPT ![c] = NULL], !.ns = ns1, !.nt = nt1, !.roots = r2,
               !.numEdges = s.numEdges - 1, !.err = s.err \/ e1 \/ e2 \/ s.parent[c] # p]
\* tsk_tree_insert_edge
InsertEdgeS(ts, o, s, p, c, eid) ==
  LET path == PathUp(s.parent, p)
      pend == path[Len(path)]
      wasRoot == Pot(o, s.ns, pend)
      ns1 == [u \in DOMAIN s.ns |-> IF OnPath(path, u) THEN s.ns[u] + s.ns[c] ELSE s.ns[u]]
      nt1 == [u \in DOMAIN s.nt |-> IF OnPath(path, u) THEN s.nt[u] + s.nt[c] ELSE s.nt[u]]
      r1 == IF Pot(o, ns1, c) THEN s.roots \ {c} ELSE s.roots
      e1 == Pot(o, ns1, c) /\ c \notin s.roots
      r2 == IF Pot(o, ns1, pend) /\ ~wasRoot THEN r1 \cup {pend} ELSE r1
      e2 == Pot(o, ns1, pend) /\ ~wasRoot /\ pend \in r1
  IN [s EXCEPT !.parent = [s.parent EXCEPT ![c] = p], !.edge = [s.edge EXCEPT ![c] = eid], !.ns = ns1, !.nt = nt1,
               !.roots = r2, !.numEdges = s.numEdges + 1,
               !.err = s.err \/ e1 \/ e2 \/ s.parent[c] # NULL \/ OnPath(path, c)]

\* apply a sequence of 0-based edge ids
RECURSIVE RemSeq(_, _, _, _), InsSeq(_, _, _, _)
RemSeq(ts, o, s, q) == IF q = <<>> THEN s ELSE
    LET e == ts.edges[Head(q) + 1] IN RemSeq(ts, o, RemoveEdgeS(ts, o, s, e.parent, e.child), Tail(q))
InsSeq(ts, o, s, q) == IF q = <<>> THEN s ELSE
    LET e == ts.edges[Head(q) + 1] IN InsSeq(ts, o, InsertEdgeS(ts, o, s, e.parent, e.child, Head(q)), Tail(q))
\* ids of order ord at 0-based positions a .. b-1 ascending, or a down to b+1 descending
Asc(ord, a, b) == [k \in 1..(IF b > a THEN b - a ELSE 0) |-> ord[a + k]]
Desc2(ord, a, b) == [k \in 1..(IF a > b THEN a - b ELSE 0) |-> ord[a - k + 2]]

\* `while (j < M && P(order[j])) j++`  and  `while (j >= 0 && P(order[j])) j--`
ScanUp(ts, j, ord, P(_)) ==
  CHOOSE jj \in j..M(ts) : (jj = M(ts) \/ ~P(ts.edges[ord[jj + 1] + 1])) /\ \A k \in j..(jj - 1) : P(ts.edges[ord[k + 1] + 1])
ScanDown(ts, j, ord, P(_)) ==
  CHOOSE jj \in (-1)..j : (jj = -1 \/ ~P(ts.edges[ord[jj + 1] + 1])) /\ \A k \in (jj + 1)..j : P(ts.edges[ord[k + 1] + 1])

\* tsk_tree_next = tsk_tree_position_next + edge application (or clear when leaving the end)
NextS(ts, o, s) ==
  LET isnull == s.index = NULL
      ie0 == IF isnull THEN 0 ELSE s.inE
      oe0 == IF isnull THEN 0 ELSE s.outE
      d0  == IF isnull THEN 1 ELSE s.dir
      r0  == IF isnull THEN 0 ELSE s.right
      lcur == IF d0 = 1 THEN ie0 ELSE oe0 + 1
      rcur == IF d0 = 1 THEN oe0 ELSE ie0 + 1
      no == ScanUp(ts, rcur, ts.rem, LAMBDA e : e.right = r0)
      ni == ScanUp(ts, lcur, ts.ins, LAMBDA e : e.left = r0)
      nidx == IF isnull THEN 0 ELSE s.index + 1
      s1 == [s EXCEPT !.dir = 1, !.outS = rcur, !.outE = no, !.inS = lcur, !.inE = ni]
  IN IF nidx = NumTrees(ts) THEN ClearS(ts, o, s1)
     ELSE LET s2 == InsSeq(ts, o, RemSeq(ts, o, s1, Asc(ts.rem, rcur, no)), Asc(ts.ins, lcur, ni))
          IN [s2 EXCEPT !.index = nidx, !.left = r0, !.right = BP(ts)[nidx + 2]]
PrevS(ts, o, s) ==
  LET isnull == s.index = NULL
      ie0 == IF isnull THEN M(ts) - 1 ELSE s.inE
      oe0 == IF isnull THEN M(ts) - 1 ELSE s.outE
      d0  == IF isnull THEN -1 ELSE s.dir
      l0  == IF isnull THEN ts.L ELSE s.left
      lcur == IF d0 = -1 THEN oe0 ELSE ie0 - 1
      rcur == IF d0 = -1 THEN ie0 ELSE oe0 - 1
      no == ScanDown(ts, lcur, ts.ins, LAMBDA e : e.left = l0)
      ni == ScanDown(ts, rcur, ts.rem, LAMBDA e : e.right = l0)
      nidx == IF isnull THEN NumTrees(ts) - 1 ELSE s.index - 1
      s1 == [s EXCEPT !.dir = -1, !.outS = lcur, !.outE = no, !.inS = rcur, !.inE = ni]
  IN IF nidx = -1 THEN ClearS(ts, o, s1)
     ELSE LET s2 == InsSeq(ts, o, RemSeq(ts, o, s1, Desc2(ts.ins, lcur, no)), Desc2(ts.rem, rcur, ni))
          IN [s2 EXCEPT !.index = nidx, !.left = BP(ts)[nidx + 1], !.right = l0]

IndexOfPos(ts, x) == CHOOSE k \in 0..(NumTrees(ts) - 1) : BP(ts)[k + 1] <= x /\ x < BP(ts)[k + 2]
\* tsk_tree_seek_from_null: forward scan when x <= L/2, else backward; only edges that
\* actually cover the target interval are inserted (the "edge filter")
SeekFromNullS(ts, o, s, x) ==
  LET idx == IndexOfPos(ts, x) IN
  IF 2 * x <= ts.L THEN
    LET left == BP(ts)[idx + 1]
        no == ScanUp(ts, 0, ts.rem, LAMBDA e : e.right <= left)
        is == ScanUp(ts, 0, ts.ins, LAMBDA e : e.right <= left)
        ie == ScanUp(ts, is, ts.ins, LAMBDA e : e.left <= left)
        s1 == [s EXCEPT !.dir = 1, !.outS = no, !.outE = no, !.inS = is, !.inE = ie,
                         !.index = idx, !.left = left, !.right = BP(ts)[idx + 2]]
        q == SelectSeq(Asc(ts.ins, is, ie), LAMBDA e : ts.edges[e + 1].left <= left /\ left < ts.edges[e + 1].right)
    IN InsSeq(ts, o, s1, q)
  ELSE
    LET right == BP(ts)[idx + 2]
        no == ScanDown(ts, M(ts) - 1, ts.ins, LAMBDA e : e.left >= right)
        is == ScanDown(ts, M(ts) - 1, ts.rem, LAMBDA e : e.left >= right)
        ie == ScanDown(ts, is, ts.rem, LAMBDA e : e.right >= right)
        s1 == [s EXCEPT !.dir = -1, !.outS = no, !.outE = no, !.inS = is, !.inE = ie,
                         !.index = idx, !.left = BP(ts)[idx + 1], !.right = right]
        q == SelectSeq(Desc2(ts.rem, is, ie), LAMBDA e : ts.edges[e + 1].right >= right /\ right > ts.edges[e + 1].left)
    IN InsSeq(ts, o, s1, q)
InIv(s, x) == s.left <= x /\ x < s.right
RECURSIVE LoopNext(_, _, _, _, _), LoopPrev(_, _, _, _, _)
LoopNext(ts, o, s, x, fuel) == IF InIv(s, x) \/ fuel = 0 THEN s ELSE LoopNext(ts, o, NextS(ts, o, s), x, fuel - 1)
LoopPrev(ts, o, s, x, fuel) == IF InIv(s, x) \/ fuel = 0 THEN s ELSE LoopPrev(ts, o, PrevS(ts, o, s), x, fuel - 1)
\* tsk_tree_seek_linear: the direction with the shorter wrap-around distance
SeekLinearS(ts, o, s, x) ==
  LET dl == IF x < s.left THEN s.left - x ELSE s.left + ts.L - x
      dr == IF x < s.left THEN ts.L - s.right + x ELSE x - s.right
  IN IF dr <= dl THEN LoopNext(ts, o, s, x, 2 * NumTrees(ts) + 2) ELSE LoopPrev(ts, o, s, x, 2 * NumTrees(ts) + 2)
SeekS(ts, o, s, x) == IF s.index = NULL THEN SeekFromNullS(ts, o, s, x) ELSE SeekLinearS(ts, o, s, x)
SeekIndexS(ts, o, s, i) == SeekS(ts, o, s, BP(ts)[i + 1])
FirstS(ts, o, s) == NextS(ts, o, ClearS(ts, o, s))
LastS(ts, o, s) == PrevS(ts, o, ClearS(ts, o, s))

\* ---------------- what the property talks about ----------------
\* the definitional state at tree index k (NULL = the null tree)
DefState(ts, o, k) ==
  LET x == IF k = NULL THEN -1 ELSE BP(ts)[k + 1]
      par == IF k = NULL THEN [u \in NodesOf(ts) |-> NULL] ELSE ParentAt(ts, x)
  IN [index |-> k,
      left |-> IF k = NULL THEN 0 ELSE BP(ts)[k + 1],
      right |-> IF k = NULL THEN 0 ELSE BP(ts)[k + 2],
      parent |-> par,
      edge |-> IF k = NULL THEN [u \in NodesOf(ts) |-> NULL] ELSE EdgeAt(ts, x),
      ns |-> [u \in 0..VRoot(ts) |-> IF u = VRoot(ts) THEN Cardinality(SamplesOf(ts)) ELSE NumSamplesIn(ts, par, u)],
      nt |-> [u \in 0..VRoot(ts) |-> IF u = VRoot(ts) THEN Cardinality(o.tracked) ELSE NumTrackedIn(par, o.tracked, u)],
      roots |-> RootsIn(ts, par, o.th),
      numEdges |-> NumEdgesIn(par)]
Project(s) == [index |-> s.index, left |-> s.left, right |-> s.right, parent |-> s.parent, edge |-> s.edge,
               ns |-> s.ns, nt |-> s.nt, roots |-> s.roots, numEdges |-> s.numEdges]
\* C06/C01 core: the incremental state is the definitional state of its index, and none
\* of the bookkeeping assumptions (remove_root of a non-root, double parent, cycle) fired
StateMatchesDef(ts, o, s) == ~s.err /\ Project(s) = DefState(ts, o, s.index)
\* cursor well-formedness
CursorWF(ts, s) ==
  /\ s.index \in (-1)..(NumTrees(ts) - 1)
  /\ s.inS \in (-1)..M(ts) /\ s.inE \in (-1)..M(ts) /\ s.outS \in (-1)..M(ts) /\ s.outE \in (-1)..M(ts)
  /\ s.dir \in {-1, 0, 1}
=============================================================================
