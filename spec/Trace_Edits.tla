------------------------------ MODULE Trace_Edits ------------------------------
(* C11, code -> spec: recorded editing calls (tables before, arguments, tables     *)
(* after) on real tree sequences validated against the relations of TskEdits.     *)
EXTENDS TskEdits, Json, IOUtils, TLC
Cases == ndJsonDeserialize(IOEnv.CASES)
VARIABLE k
Pre(p, S) == {p \o "_" \o c : c \in S}
OpFails(c, e) ==
  LET a == IF e.base = "in" THEN c.a ELSE c.a2 IN
  CASE e.op = "keep_intervals" -> Pre("keep", KeepRel(a, e.b, {x \in Cells(a) : InIvs(e.ivs, x)}))
    [] e.op = "delete_intervals" -> Pre("delete", KeepRel(a, e.b, {x \in Cells(a) : ~InIvs(e.ivs, x)}))
    [] e.op \in {"ltrim", "rtrim", "trim"} -> Pre(e.op, TrimRel(a, e.b, e.shift, e.newL))
    [] e.op = "delete_sites" -> Pre("delete_sites", DeleteSitesRel(a, e.b, ToSet(e.ids)))
    [] e.op = "split_edges" -> Pre("split", SplitRel(a, e.b, e.t2, e.nf, e.np))
    [] e.op = "delete_older" -> Pre("delete_older", DeleteOlderRel(a, e.b, e.t2))
    [] e.op = "decapitate" -> Pre("decapitate", DeleteOlderRel(e.mid, e.b, e.t2)) \cup Pre("decapitate_split", SplitRel(a, e.mid, e.t2, e.nf, e.np))
    [] e.op = "extend_haplotypes" -> Pre("extend", ExtendRel(a, e.b)) \cup (IF e.simplify_same = 1 THEN {} ELSE {"extend_simplified_differs"})
\* every editing call is repeated on the same tables with the metadata of a random subset of rows removed: same rows, each with the
\* metadata (or none) of the row it came from
Fails(c) == UNION {OpFails(c, c.ops[i]) : i \in 1..Len(c.ops)} \cup (IF c.ragged_ok = 1 THEN {} ELSE {"ragged_metadata"})
Init == k = 0
Next == k < Len(Cases) /\ k' = k + 1
Spec == Init /\ [][Next]_k
Report == k = 0 \/ PrintT(<<"V", Cases[k].id, Fails(Cases[k])>>)
=============================================================================
