-------------------------------- MODULE Ranks --------------------------------
(***************************************************************************)
(* C15: leaf-labelled tree topologies without unary nodes, as *clade sets*:  *)
(* a topology on the leaf set S is the set of its clades (leaf sets of the   *)
(* internal nodes, each with >= 2 leaves, S itself included when |S| >= 2).  *)
(* Topologies(S) is built by recursion over set partitions - nothing of the  *)
(* library's mixed-radix ranking scheme is used.                             *)
(***************************************************************************)
EXTENDS Integers, Sequences, FiniteSets, FiniteSetsExt, SequencesExt
\* set partitions of S as sets of blocks
RECURSIVE Parts(_)
Parts(S) == IF S = {} THEN {{}} ELSE
   LET x == CHOOSE y \in S : \A z \in S : y <= z
       rest == S \ {x}
   IN UNION {{ {B \cup {x}} \cup P : P \in Parts(rest \ B)} : B \in SUBSET rest}
RECURSIVE Topos(_), Combine(_)
Combine(Q) == IF Q = <<>> THEN {{}} ELSE {a \cup b : a \in Head(Q), b \in Combine(Tail(Q))}
Topos(S) == IF Cardinality(S) = 1 THEN {{}} ELSE
   UNION {{ {S} \cup c : c \in Combine([i \in 1..Cardinality(P) |-> Topos(SetToSeq(P)[i])])} :
          P \in {Q \in Parts(S) : Cardinality(Q) >= 2}}
Topologies(n) == Topos(0..(n - 1))
\* a clade set is a well-formed topology: laminar family containing the full set
IsTopology(C, S) ==
   /\ (Cardinality(S) >= 2 => S \in C) /\ \A c \in C : c \subseteq S /\ Cardinality(c) >= 2
   /\ \A a, b \in C : a \subseteq b \/ b \subseteq a \/ a \cap b = {}

\* ---- topology of a tree reduced to chosen leaves ----
\* par: function node -> parent; chosen: sequence of nodes (position i carries label i-1)
RECURSIVE Anc(_, _, _)
Anc(par, u, fuel) == IF u = -1 \/ fuel = 0 THEN {} ELSE {u} \cup Anc(par, par[u], fuel - 1)
Below(par, chosen, v) == {i - 1 : i \in {j \in 1..Len(chosen) : v \in Anc(par, chosen[j], Cardinality(DOMAIN par) + 1)}}
Reduced(par, chosen) == {c \in {Below(par, chosen, v) : v \in DOMAIN par} : Cardinality(c) >= 2}
SameRoot(par, chosen) == \E v \in DOMAIN par : par[v] = -1 /\ Cardinality(Below(par, chosen, v)) = Len(chosen)

\* ---- generated trees (Tree.generate_star / generate_comb / generate_balanced) as clade sets over leaves lo..lo+n-1 ----
StarClades(n) == IF n >= 2 THEN {0..(n - 1)} ELSE {}
CombClades(n) == {i..(n - 1) : i \in 0..(n - 2)}
\* balanced: the leaves below a node are handed to its children in order, floor(n / arity) each, the last child takes the rest;
\* fewer leaves than the arity hang directly under the node
RECURSIVE BalClades(_, _, _)
BalClades(lo, n, k) ==
  IF n <= 1 THEN {}
  ELSE {lo..(lo + n - 1)} \cup
       (IF n <= k THEN {}
        ELSE LET q == n \div k IN
             UNION ({BalClades(lo + (i - 1) * q, q, k) : i \in 1..(k - 1)} \cup {BalClades(lo + (k - 1) * q, n - (k - 1) * q, k)}))
\* a binary resolution of a topology: a topology on the same leaves that keeps every clade and whose every clade splits in two
IsBinary(C, S) == IsTopology(C, S) /\ Cardinality(C) = Cardinality(S) - 1
Resolves(C2, C1, S) == IsBinary(C2, S) /\ C1 \subseteq C2
=============================================================================
