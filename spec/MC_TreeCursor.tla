--------------------------- MODULE MC_TreeCursor ---------------------------
(* Exhaustive model check of the tree cursor over the small-scope universe:   *)
(* every reachable cursor state (index x direction x in/out ranges) of every  *)
(* small tree sequence under every option satisfies the C06/C01 invariants.   *)
EXTENDS Universe
CONSTANTS Thresholds, TrackedMode
VARIABLES ts, o, st
vars == <<ts, o, st>>
TimeVecsQ == {<<0,0,1,2>>}
FlagVecsQ == {<<1,1,0,0>>, <<0,1,1,0>>}
TimeVecsT == {<<0,0,1,2>>, <<0,1,1,2>>, <<0,0,1,1>>}
FlagVecsT == {<<1,1,0,0>>, <<1,1,1,0>>, <<0,1,0,1>>}
TimeVecsS == {<<0,0,1,2>>, <<0,1,2,3>>}
FlagVecsS == {<<1,1,0,0>>, <<1,1,1,0>>, <<1,1,1,1>>, <<1,0,1,1>>}

TrackedChoices(t) == LET S == SamplesOf(t) IN
   IF TrackedMode = 1 THEN (IF S = {} THEN {{}} ELSE {{Min(S)}})
   ELSE {{}, S} \cup (IF S = {} THEN {} ELSE {{Min(S)}})
Init == /\ ts \in AllTs
        /\ o \in {[th |-> th, tracked |-> tr] : th \in Thresholds, tr \in TrackedChoices(ts)}
        /\ st = NullTree(ts, o)
\* Each action carries its own post-condition as an Assert (evaluated once per transition):
\*  (2) next/prev return FALSE (enter the null state) exactly when stepping off either end,
\*      otherwise they move by exactly one tree;  (3) seek(x) lands on the tree containing x.
NextIdx(s) == IF s.index = NULL THEN 0 ELSE IF s.index + 1 = NumTrees(ts) THEN NULL ELSE s.index + 1
PrevIdx(s) == IF s.index = NULL THEN NumTrees(ts) - 1 ELSE s.index - 1
ANext  == LET n == NextS(ts, o, st) IN st' = n /\ Assert(n.index = NextIdx(st), "NextStep") /\ UNCHANGED <<ts, o>>
APrev  == LET n == PrevS(ts, o, st) IN st' = n /\ Assert(n.index = PrevIdx(st), "PrevStep") /\ UNCHANGED <<ts, o>>
AClear == st' = ClearS(ts, o, st) /\ UNCHANGED <<ts, o>>
AFirst == LET n == FirstS(ts, o, st) IN st' = n /\ Assert(n.index = 0, "First") /\ UNCHANGED <<ts, o>>
ALast  == LET n == LastS(ts, o, st) IN st' = n /\ Assert(n.index = NumTrees(ts) - 1, "Last") /\ UNCHANGED <<ts, o>>
ASeek  == \E x \in 0..(ts.L - 1) : LET n == SeekS(ts, o, st, x) IN
             st' = n /\ Assert(InIv(n, x), "SeekLands") /\ UNCHANGED <<ts, o>>
ASeekIndex == \E i \in 0..(NumTrees(ts) - 1) : LET n == SeekIndexS(ts, o, st, i) IN
             st' = n /\ Assert(n.index = i, "SeekIndexLands") /\ UNCHANGED <<ts, o>>
Next == ANext \/ APrev \/ AClear \/ AFirst \/ ALast \/ ASeek \/ ASeekIndex
Spec == Init /\ [][Next]_vars

\* (1) observable state = definitional state of the index; no bookkeeping assumption broken
StateOK == StateMatchesDef(ts, o, st)
\* (4) cursor well-formed
WF == CursorWF(ts, st)
=============================================================================
