CONSTANTS
  MaxItems = 3
SPECIFICATION Spec
INVARIANT WellFormedAccepted
INVARIANT PrefixOK
INVARIANT OnlyKnownBlindSpots
INVARIANT BlindSpotsAreReal
INVARIANT NeverUnknown
CHECK_DEADLOCK FALSE
