----------------------------- MODULE TskGenotypes -----------------------------
(***************************************************************************)
(* Genotypes by definition (C03): the allele of node u at site s is the      *)
(* derived state of the nearest mutation at s on the path from u towards     *)
(* its root (the last-listed mutation on the nearest node that carries one), *)
(* the ancestral state if there is none; it is *missing* exactly when        *)
(* isolated_as_missing is on and u is an isolated sample (sample flag, no    *)
(* parent, no children at the site's position) with no mutation directly     *)
(* above it.  Alleles are abstract tokens (small integers).                  *)
(***************************************************************************)
EXTENDS TskTrees
MISSING == -1
SitePos(ts, s) == ts.sites[s + 1].pos
MutsOnNode(ts, s, u) == {m \in 1..Len(ts.muts) : ts.muts[m].site = s /\ ts.muts[m].node = u}
\* the mutation row (1-based) deciding u's state at site s, or 0
NearestMut(ts, s, u) ==
  LET par == ParentAt(ts, SitePos(ts, s))
      path == PathUp(par, u)
      hit == {i \in 1..Len(path) : MutsOnNode(ts, s, path[i]) # {}}
  IN IF hit = {} THEN 0 ELSE Max(MutsOnNode(ts, s, path[Min(hit)]))
StateOf(ts, s, u) == LET m == NearestMut(ts, s, u) IN IF m = 0 THEN ts.sites[s + 1].anc ELSE ts.muts[m].der
IsIsolated(ts, s, u) == LET par == ParentAt(ts, SitePos(ts, s)) IN par[u] = NULL /\ ChildrenIn(par, u) = {}
IsMissing(ts, s, u, iam) == iam /\ IsSample(ts, u) /\ IsIsolated(ts, s, u) /\ MutsOnNode(ts, s, u) = {}
AlleleOf(ts, s, u, iam) == IF IsMissing(ts, s, u, iam) THEN MISSING ELSE StateOf(ts, s, u)
SiteAlleles(ts, s) == {ts.sites[s + 1].anc} \cup {ts.muts[m].der : m \in {k \in 1..Len(ts.muts) : ts.muts[k].site = s}}
\* sites whose position lies in [left, right)
SitesInInterval(ts, left, right) == {s \in 0..(Len(ts.sites) - 1) : left <= SitePos(ts, s) /\ SitePos(ts, s) < right}
=============================================================================
