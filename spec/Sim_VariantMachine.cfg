CONSTANTS
  MaxSites = 0
  MaxMuts = 0
  NumAlleles = 3
  Depth = 8
  EnumLayers = FALSE
  MaxCopies = 2
  OptLevel = 2
  Record = TRUE
SPECIFICATION Spec
INVARIANT Emit
INVARIANT VarOK
INVARIANT ErrIff
INVARIANT AlleleOrder
INVARIANT UserKept
CHECK_DEADLOCK FALSE
