----------------------------- MODULE TskSimplify -----------------------------
(***************************************************************************)
(* simplify() by definition, position by position (C04) - independent of     *)
(* the library's segment-merging algorithm.  At position x every input node  *)
(* u has a *carrier* A_x(u): the output node that represents the ancestry of *)
(* the chosen samples passing through u, or NULL when no chosen sample       *)
(* descends from u at x:                                                     *)
(*   C(u)   = distinct non-NULL carriers of u's children at x                *)
(*   u chosen sample        -> A(u) = u, u is parent of every node in C(u)   *)
(*   C(u) empty             -> A(u) = NULL                                   *)
(*   C(u) = {c} (unary)     -> A(u) = c, unless unary nodes are kept for u,  *)
(*                             then A(u) = u with child c                    *)
(*   |C(u)| >= 2            -> A(u) = u (coalescence), parent of all of C(u) *)
(* keep_input_roots additionally keeps every input root u with A(u) # u,     *)
(* NULL as the parent of A(u).                                               *)
(* ts additionally carries ind (individual of each node).                    *)
(***************************************************************************)
EXTENDS TskGenotypes
KeepUnaryAt(ts, o, u) == o.keep_unary = 1 \/ (o.keep_unary_in_individuals = 1 /\ ts.ind[u + 1] # NULL)
RECURSIVE Carrier(_, _, _, _, _, _)
Carrier(ts, par, S, o, u, fuel) ==
  IF fuel = 0 THEN NULL ELSE
  LET C == {Carrier(ts, par, S, o, c, fuel - 1) : c \in ChildrenIn(par, u)} \ {NULL} IN
  IF u \in S THEN u
  ELSE IF C = {} THEN NULL
  ELSE IF Cardinality(C) = 1 THEN (IF KeepUnaryAt(ts, o, u) THEN u ELSE CHOOSE c \in C : TRUE)
  ELSE u
CarrierMap(ts, x, S, o) == LET par == ParentAt(ts, x) IN [u \in NodesOf(ts) |-> Carrier(ts, par, S, o, u, NumNodes(ts) + 1)]
\* expected (parent, child) pairs at x, in input node ids
ExpectedEdges(ts, x, S, o) ==
  LET par == ParentAt(ts, x)
      A == CarrierMap(ts, x, S, o)
      kids(u) == {A[c] : c \in ChildrenIn(par, u)} \ {NULL}
  IN UNION {{<<u, c>> : c \in kids(u)} : u \in {v \in NodesOf(ts) : A[v] = v}}
     \cup (IF o.keep_input_roots = 1
           THEN {<<u, A[u]>> : u \in {v \in NodesOf(ts) : par[v] = NULL /\ A[v] # NULL /\ A[v] # v}}
           ELSE {})
\* nodes that appear in some output tree
UsedNodes(ts, S, o) == UNION {UNION {{e[1], e[2]} : e \in ExpectedEdges(ts, x, S, o)} : x \in 0..(ts.L - 1)}
\* a mutation on node v at site s survives iff v carries chosen-sample ancestry at the site; it
\* moves to the carrier
\* (a retained input root keeps its own mutations)
MutCarrier(ts, m, S, o) ==
  LET mm == ts.muts[m]
      x == SitePos(ts, mm.site)
      A == CarrierMap(ts, x, S, o)
  IN IF o.keep_input_roots = 1 /\ ParentAt(ts, x)[mm.node] = NULL /\ A[mm.node] # NULL THEN mm.node ELSE A[mm.node]
=============================================================================
