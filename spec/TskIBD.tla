-------------------------------- MODULE TskIBD --------------------------------
(***************************************************************************)
(* C19: IBD segments by definition, position by position.  For a pair (a,b)  *)
(* and a unit cell x, follow the edges upwards from a and from b; if the two  *)
(* paths meet, the key of x is <<mrca, edge ids from a to the mrca, edge ids  *)
(* from b to the mrca>>.  The IBD segments of the pair are the maximal runs   *)
(* of cells with the same key, each labelled with the mrca.  Filters: span    *)
(* strictly greater than min_span, mrca strictly younger than max_time.       *)
(* Times are on a doubled grid so that max_time can lie between node times.   *)
(***************************************************************************)
EXTENDS TskTrees
RECURSIVE ChainIn(_, _, _, _)
\* sequence of <<node, edge id by which it was reached>> from u upwards (edge id NULL for u itself)
ChainIn(ts, x, u, fuel) ==
  LET e == EdgeAt(ts, x)[u] IN
  IF e = NULL \/ fuel = 0 THEN <<>> ELSE <<<<ts.edges[e + 1].parent, e>>>> \o ChainIn(ts, x, ts.edges[e + 1].parent, fuel - 1)
UpChain(ts, x, u) == <<<<u, NULL>>>> \o ChainIn(ts, x, u, NumNodes(ts))
KeyAt(ts, x, a, b) ==
  LET ca == UpChain(ts, x, a)
      cb == UpChain(ts, x, b)
      meet == {i \in 1..Len(ca) : \E j \in 1..Len(cb) : cb[j][1] = ca[i][1]}
  IN IF meet = {} THEN <<>>
     ELSE LET i == Min(meet)
              j == CHOOSE jj \in 1..Len(cb) : cb[jj][1] = ca[i][1]
          IN <<ca[i][1], [q \in 1..(i - 1) |-> ca[q + 1][2]], [q \in 1..(j - 1) |-> cb[q + 1][2]]>>
\* maximal runs: (l, r, node) with constant non-empty key on l..r-1, different key (or the end) on both sides
Segments(ts, a, b) ==
  {<<l, r, KeyAt(ts, l, a, b)[1]>> : <<l, r>> \in {<<l, r>> \in (0..(ts.L - 1)) \X (1..ts.L) :
      /\ l < r /\ KeyAt(ts, l, a, b) # <<>>
      /\ \A x \in l..(r - 1) : KeyAt(ts, x, a, b) = KeyAt(ts, l, a, b)
      /\ (l = 0 \/ KeyAt(ts, l - 1, a, b) # KeyAt(ts, l, a, b))
      /\ (r = ts.L \/ KeyAt(ts, r, a, b) # KeyAt(ts, l, a, b))}}
Passes(ts, seg, minspan, maxtime2) == (seg[2] - seg[1]) > minspan /\ (maxtime2 = NULL \/ TimeOf(ts, seg[3]) < maxtime2)
Filtered(ts, a, b, minspan, maxtime2) == {s \in Segments(ts, a, b) : Passes(ts, s, minspan, maxtime2)}
SpanSum(S) == FoldSet(LAMBDA s, acc : acc + (s[2] - s[1]), 0, S)
=============================================================================
