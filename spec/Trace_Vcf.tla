------------------------------- MODULE Trace_Vcf -------------------------------
(* C16, code -> spec: parsed VCF output of write_vcf / as_vcf validated against the *)
(* record definition of Exports.tla.                                                *)
EXTENDS Exports, Json, IOUtils
Cases == ndJsonDeserialize(IOEnv.CASES)
VARIABLE k
Fails(c) ==
  LET ts == c.ts
      a == c.args
      gr == VcfGroups(ts, a)
      groups == gr.g
      must == VcfMustRaise(ts, a, gr)
  IN IF c.raised = 1 THEN (IF must THEN {} ELSE {"raised_on_legal_input:" \o c.error})
     ELSE IF must THEN {"accepted_input_that_must_raise"}
     ELSE
       LET exp == VcfExpected(ts, a, groups)
           got == c.records
       IN {cl \in {"num_lines", "pos_id", "ref_alt", "gt_shape", "gt_values", "names", "contig_length"} :
            ~ CASE cl = "num_lines" -> Len(got) = Len(exp)
                [] cl = "pos_id" -> Len(got) # Len(exp) \/ \A i \in 1..Len(exp) : got[i].pos = exp[i].pos /\ got[i].id = exp[i].id
                [] cl = "ref_alt" -> Len(got) # Len(exp) \/ \A i \in 1..Len(exp) :
                        got[i].ref = exp[i].ref /\ ToSet(got[i].alt) = exp[i].alts /\ Len(got[i].alt) = Cardinality(exp[i].alts)
                [] cl = "gt_shape" -> Len(got) # Len(exp) \/ \A i \in 1..Len(exp) :
                        Len(got[i].gt) = Len(groups) /\ \A g \in 1..Len(groups) : Len(got[i].gt[g]) = Len(groups[g])
                [] cl = "gt_values" -> Len(got) # Len(exp) \/ \A i \in 1..Len(exp) : \A g \in 1..Len(exp[i].gt) : \A j \in 1..Len(exp[i].gt[g]) :
                        \* the number printed is an index into REF,ALT...; it must name the expected allele
                        LET n == got[i].gt[g][j]
                            alleles == <<got[i].ref>> \o got[i].alt
                        IN IF exp[i].gt[g][j] = MISSING THEN n = -1
                           ELSE n >= 0 /\ n < Len(alleles) /\ alleles[n + 1] = exp[i].gt[g][j]
                [] cl = "names" -> c.names = (IF a.names # <<>> THEN a.names ELSE [g \in 1..Len(groups) |-> g - 1])
                [] cl = "contig_length" -> c.contig_length = VcfContigLength(ts, a)
          }
Init == k = 0
Next == k < Len(Cases) /\ k' = k + 1
Spec == Init /\ [][Next]_k
Report == k = 0 \/ PrintT(<<"V", Cases[k].id, Fails(Cases[k])>>)
=============================================================================
