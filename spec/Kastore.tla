------------------------------- MODULE Kastore -------------------------------
(***************************************************************************)
(* The kastore container (c/subprojects/kastore/kastore.c) as tskit uses it:  *)
(* 64-byte header, one 64-byte descriptor per item, keys packed right after   *)
(* the descriptors, arrays 8-byte aligned and adjacent, file_size = end of    *)
(* the last array.  Reader(f) is a transcription of kastore_read_header /     *)
(* kastore_read_descriptors / kastore_read_file (KAS_READ_ALL) as a sequence  *)
(* of validation steps over an abstract file.                                 *)
(*                                                                            *)
(* 64-bit fields are modelled EXACTLY as unsigned 64-bit integers made of     *)
(* four 16-bit limbs (little endian) so that wrap-around in `start + len` and  *)
(* `len * type_size` is modelled faithfully (the bounds checks were made       *)
(* overflow-safe after this model exposed acceptance of array_len + 2^64/size).*)
(*                                                                            *)
(* f = [len,      \* number of bytes physically present (a prefix when < fsize)*)
(*      magic,    \* 1 when the 8 magic bytes are intact                       *)
(*      vmaj, vmin, nitems (naturals), fsize (U64),                            *)
(*      items : Seq([type (0..255), ks, kl, as, al : U64])]                    *)
(***************************************************************************)
EXTENDS Integers, Sequences, FiniteSets, TLC
B == 65536
U(n) == <<n % B, (n \div B) % B, 0, 0>>                  \* small natural (< 2^31) -> U64
Zero == U(0)
IsSmall(a) == a[3] = 0 /\ a[4] = 0 /\ a[2] < 16384        \* fits a TLC integer (< 2^30)
ToNat(a) == a[1] + B * a[2]                                 \* only for IsSmall values
AddU(a, b) ==                                             \* (a + b) mod 2^64
  LET s1 == a[1] + b[1]
      s2 == a[2] + b[2] + s1 \div B
      s3 == a[3] + b[3] + s2 \div B
      s4 == a[4] + b[4] + s3 \div B
  IN <<s1 % B, s2 % B, s3 % B, s4 % B>>
LtU(a, b) ==
  \/ a[4] < b[4]
  \/ a[4] = b[4] /\ a[3] < b[3]
  \/ a[4] = b[4] /\ a[3] = b[3] /\ a[2] < b[2]
  \/ a[4] = b[4] /\ a[3] = b[3] /\ a[2] = b[2] /\ a[1] < b[1]
GtU(a, b) == LtU(b, a)
SubU(a, b) ==                                             \* a - b for a >= b
  LET d1 == a[1] - b[1]
      c1 == IF d1 < 0 THEN 1 ELSE 0
      d2 == a[2] - b[2] - c1
      c2 == IF d2 < 0 THEN 1 ELSE 0
      d3 == a[3] - b[3] - c2
      c3 == IF d3 < 0 THEN 1 ELSE 0
      d4 == a[4] - b[4] - c3
  IN <<(d1 + B) % B, (d2 + B) % B, (d3 + B) % B, (d4 + B) % B>>
Half(a) == <<(a[1] \div 2) + (a[2] % 2) * 32768, (a[2] \div 2) + (a[3] % 2) * 32768,
             (a[3] \div 2) + (a[4] % 2) * 32768, a[4] \div 2>>
Dbl(a) == AddU(a, a)
TypeSize(t) == CASE t \in {0, 1} -> 1 [] t \in {2, 3} -> 2 [] t \in {4, 5, 8} -> 4 [] t \in {6, 7, 9} -> 8 [] OTHER -> 0
NumTypes == 10
MulSize(a, t) == LET z == TypeSize(t) IN        \* (a * type_size) mod 2^64
  IF z = 1 THEN a ELSE IF z = 2 THEN Dbl(a) ELSE IF z = 4 THEN Dbl(Dbl(a)) ELSE Dbl(Dbl(Dbl(a)))
DivSize(a, t) == LET z == TypeSize(t) IN          \* a / type_size (integer division)
  IF z = 1 THEN a ELSE IF z = 2 THEN Half(a) ELSE IF z = 4 THEN Half(Half(a)) ELSE Half(Half(Half(a)))
HeaderSize == 64
DescSize == 64
Align8(n) == IF n % 8 = 0 THEN n ELSE (n + 8) - (n % 8)
AlignU(a) == LET r == a[1] % 8 IN IF r = 0 THEN a ELSE AddU(a, U(8 - r))

\* ---- writer: pack items (given type, key length, array length as naturals) ----
RECURSIVE PackKeys(_, _, _), PackArrays(_, _, _)
PackKeys(spec, j, off) == IF j > Len(spec) THEN <<>> ELSE <<off>> \o PackKeys(spec, j + 1, off + spec[j].kl)
PackArrays(spec, j, off) == IF j > Len(spec) THEN <<>>
    ELSE LET a == Align8(off) IN <<a>> \o PackArrays(spec, j + 1, a + spec[j].al * TypeSize(spec[j].type))
KeysEnd(spec) == LET ks == PackKeys(spec, 1, HeaderSize + DescSize * Len(spec)) IN
                 IF spec = <<>> THEN HeaderSize ELSE ks[Len(spec)] + spec[Len(spec)].kl
FileSizeOf(spec) == IF spec = <<>> THEN HeaderSize
                    ELSE LET as == PackArrays(spec, 1, KeysEnd(spec)) n == Len(spec) IN
                         as[n] + spec[n].al * TypeSize(spec[n].type)
Write(spec) ==
  LET ks == PackKeys(spec, 1, HeaderSize + DescSize * Len(spec))
      as == PackArrays(spec, 1, KeysEnd(spec))
  IN [len |-> FileSizeOf(spec), magic |-> 1, vmaj |-> 1, vmin |-> 0, nitems |-> Len(spec), fsize |-> U(FileSizeOf(spec)),
      \* kord abstracts the key *content*: its position in the lexicographic order (the writer sorts the items, so 2j;
      \* odd values are contents that fall between two neighbours, an even value 2i is the content of key i)
      items |-> [j \in 1..Len(spec) |-> [type |-> spec[j].type, ks |-> U(ks[j]), kl |-> U(spec[j].kl),
                                         as |-> U(as[j]), al |-> U(spec[j].al), kord |-> 2 * j]]]

\* ---- reader ----
RECURSIVE KeysPacked(_, _, _), ArraysPacked(_, _, _)
KeysPacked(items, j, off) ==       \* returns <<ok, offset after keys>>
  IF j > Len(items) THEN <<TRUE, off>>
  ELSE IF items[j].ks # off THEN <<FALSE, off>> ELSE KeysPacked(items, j + 1, AddU(off, items[j].kl))
ArraysPacked(items, j, off) ==
  IF j > Len(items) THEN <<TRUE, off>>
  ELSE LET a == AlignU(off) IN
       IF items[j].as # a THEN <<FALSE, off>> ELSE ArraysPacked(items, j + 1, AddU(a, MulSize(items[j].al, items[j].type)))
\* the descriptor block that is actually interpreted has min(nitems, Len(items)) entries; a corrupted
\* nitems larger than the descriptors present makes the reader interpret key/array bytes as
\* descriptors - that case is resolved conservatively as "unknown" and never used as an oracle
Reader(f) ==
  IF f.len = 0 THEN "EOF"
  ELSE IF f.len < HeaderSize THEN "ERR"                       \* short header read
  ELSE IF f.magic # 1 THEN "ERR"
  ELSE IF f.vmaj # 1 THEN "ERR"                               \* too old / too new
  ELSE IF LtU(f.fsize, U(HeaderSize)) THEN "ERR"
  ELSE IF f.nitems = 0 THEN (IF f.fsize = U(HeaderSize) THEN "OK" ELSE "ERR")
  ELSE IF f.nitems > Len(f.items) THEN
         (IF GtU(U(HeaderSize + DescSize * f.nitems), f.fsize) THEN "ERR" ELSE "UNKNOWN")
  ELSE LET n == f.nitems
           its == SubSeq(f.items, 1, n)
           descEnd == HeaderSize + DescSize * n
       IN IF GtU(U(descEnd), f.fsize) THEN "ERR"
          ELSE IF f.len < descEnd THEN "ERR"                  \* short read of the descriptors
          ELSE IF \E j \in 1..n : its[j].type >= NumTypes THEN "ERR"
          \* overflow-safe bounds: key_start > file_size || key_len > file_size - key_start, and
          \* array_start > file_size || array_len > (file_size - array_start) / type_size
          ELSE IF \E j \in 1..n : GtU(its[j].ks, f.fsize) \/ GtU(its[j].kl, SubU(f.fsize, its[j].ks)) THEN "ERR"
          ELSE IF \E j \in 1..n : GtU(its[j].as, f.fsize) \/ GtU(its[j].al, DivSize(SubU(f.fsize, its[j].as), its[j].type)) THEN "ERR"
          ELSE LET kp == KeysPacked(its, 1, U(descEnd)) IN
               IF ~kp[1] THEN "ERR"
               ELSE LET ap == ArraysPacked(its, 1, kp[2]) IN
                    IF ~ap[1] THEN "ERR"
                    ELSE IF ap[2] # f.fsize THEN "ERR"
                    ELSE IF ~IsSmall(f.fsize) \/ f.len < ToNat(f.fsize) THEN "ERR"   \* short read of keys / arrays
                    \* keys are looked up by bisection: they must be strictly increasing (checked after the keys are read)
                    ELSE IF \E j \in 2..n : its[j - 1].kord >= its[j].kord THEN "ERR"
                    ELSE "OK"

\* ---- layout classification of a byte offset in a well-formed file written from spec ----
\* kinds: "magic", "vmaj", "vmin", "nitems", "fsize", "hdr_reserved", "type", "desc_reserved",
\*        "ks", "kl", "as", "al", "key", "pad", "data", "beyond"
ByteKind(spec, off) ==
  LET n == Len(spec)
      descEnd == HeaderSize + DescSize * n
      ke == KeysEnd(spec)
      as == PackArrays(spec, 1, ke)
  IN IF off < 8 THEN "magic" ELSE IF off < 10 THEN "vmaj" ELSE IF off < 12 THEN "vmin" ELSE IF off < 16 THEN "nitems"
     ELSE IF off < 24 THEN "fsize" ELSE IF off < HeaderSize THEN "hdr_reserved"
     ELSE IF off < descEnd THEN
            LET r == (off - HeaderSize) % DescSize IN
            IF r = 0 THEN "type" ELSE IF r < 8 THEN "desc_reserved" ELSE IF r < 16 THEN "ks" ELSE IF r < 24 THEN "kl"
            ELSE IF r < 32 THEN "as" ELSE IF r < 40 THEN "al" ELSE "desc_reserved"
     ELSE IF off < ke THEN "key"
     ELSE IF off >= FileSizeOf(spec) THEN "beyond"
     ELSE IF \E j \in 1..n : as[j] <= off /\ off < as[j] + spec[j].al * TypeSize(spec[j].type) THEN "data" ELSE "pad"
Structural == {"magic", "vmaj", "nitems", "fsize", "type", "ks", "kl", "as", "al", "key"}
Ignored == {"vmin", "hdr_reserved", "desc_reserved", "pad"}
=============================================================================
