---------------------------- MODULE RateMapOps ----------------------------
(***************************************************************************)
(* X06.  tskit.RateMap (python/tskit/intervals.py) on a tick grid.  A map  *)
(* is [pos |-> strictly increasing ticks from 0, rate |-> one value per    *)
(* interval, NAN = unknown].  The harness scales a tick to 0.5 coordinate  *)
(* units and a rate r to r * 0.25, so every expected float is exact.       *)
(* Meanings are written from the documentation (integral of the rate,      *)
(* containing interval, "mark the flanks unknown"), not from the numpy     *)
(* calls (searchsorted / interp / nancumsum).                              *)
(***************************************************************************)
EXTENDS Integers, Sequences, FiniteSets
NAN == -1
NI(m) == Len(m.rate)
SL(m) == m.pos[Len(m.pos)]
Min2(a, b) == IF a < b THEN a ELSE b
Max2(a, b) == IF a > b THEN a ELSE b
WF(m) == /\ Len(m.pos) >= 2 /\ Len(m.rate) = Len(m.pos) - 1 /\ m.pos[1] = 0
         /\ \A i \in 1..NI(m) : m.pos[i] < m.pos[i + 1] /\ m.rate[i] >= NAN
         /\ \E i \in 1..NI(m) : m.rate[i] # NAN
\* the interval containing tick x, 0 <= x < SL(m)  (find_index, 1-based here)
Idx(m, x) == CHOOSE i \in 1..NI(m) : m.pos[i] <= x /\ x < m.pos[i + 1]
RateAt(m, x) == m.rate[Idx(m, x)]
Known(r) == IF r = NAN THEN 0 ELSE r
RECURSIVE CumI(_, _, _)
CumI(m, x, i) == IF i = 0 THEN 0
                 ELSE CumI(m, x, i - 1) + Known(m.rate[i]) * Max2(0, Min2(m.pos[i + 1], x) - m.pos[i])
\* integral of the rate over [0, x), unknown stretches contributing nothing (in rate x ticks)
Cum(m, x) == CumI(m, x, NI(m))
RECURSIVE KnownSpanI(_, _)
KnownSpanI(m, i) == IF i = 0 THEN 0
                    ELSE KnownSpanI(m, i - 1) + (IF m.rate[i] = NAN THEN 0 ELSE m.pos[i + 1] - m.pos[i])
KnownSpan(m) == KnownSpanI(m, NI(m))
Missing(m) == {i \in 1..NI(m) : m.rate[i] = NAN}

(* slice(left, right, trim) *)
SliceArgsOK(m, l, r) == 0 <= l /\ l < r /\ r <= SL(m)
Core(m, l, r) ==
  LET i0 == Idx(m, l)  j0 == Idx(m, r - 1) IN
  [pos |-> <<l>> \o [k \in 1..(j0 - i0) |-> m.pos[i0 + k]] \o <<r>>,
   rate |-> [k \in 1..(j0 - i0 + 1) |-> m.rate[i0 + k - 1]]]
Shift(c, d) == [c EXCEPT !.pos = [k \in 1..Len(c.pos) |-> c.pos[k] - d]]
PadLeft(c, l) == IF l = 0 THEN c
                 ELSE IF c.rate[1] = NAN THEN [c EXCEPT !.pos[1] = 0]
                 ELSE [pos |-> <<0>> \o c.pos, rate |-> <<NAN>> \o c.rate]
PadRight(c, r, sl) == IF r = sl THEN c
                      ELSE IF c.rate[Len(c.rate)] = NAN THEN [c EXCEPT !.pos[Len(c.pos)] = sl]
                      ELSE [pos |-> Append(c.pos, sl), rate |-> Append(c.rate, NAN)]
SliceMap(m, l, r, trim) == IF trim THEN Shift(Core(m, l, r), l)
                           ELSE PadRight(PadLeft(Core(m, l, r), l), r, SL(m))
\* "key" : bad arguments (KeyError);  "value" : nothing known is left (ValueError);  "ok"
SliceOutcome(m, l, r, trim) == IF ~SliceArgsOK(m, l, r) THEN "key"
                               ELSE IF ~WF(SliceMap(m, l, r, trim)) THEN "value" ELSE "ok"

(* what a slice means, independent of how SliceMap lays the intervals out *)
Clamp(x, l, r) == Min2(Max2(x, l), r)
SliceMeaning(m, s, l, r, trim) ==
  IF trim
  THEN /\ SL(s) = r - l
       /\ \A x \in 0..SL(s) : Cum(s, x) = Cum(m, x + l) - Cum(m, l)
       /\ \A x \in 0..(SL(s) - 1) : RateAt(s, x) = RateAt(m, x + l)
  ELSE /\ SL(s) = SL(m)
       /\ \A x \in 0..SL(s) : Cum(s, x) = Cum(m, Clamp(x, l, r)) - Cum(m, l)
       /\ \A x \in 0..(SL(s) - 1) : RateAt(s, x) = (IF l <= x /\ x < r THEN RateAt(m, x) ELSE NAN)
\* interval boundaries of a slice are boundaries of the source (or the cut points / the ends)
SliceBoundaries(m, s, l, r, trim) ==
  LET d == IF trim THEN l ELSE 0 IN
  \A k \in 1..Len(s.pos) : s.pos[k] + d \in {m.pos[q] : q \in 1..Len(m.pos)} \cup {l, r}

Maps(L, R) == UNION {UNION {{[pos |-> p, rate |-> q] : q \in [1..n -> R \cup {NAN}]} :
                        p \in {pp \in [1..(n + 1) -> 0..L] : pp[1] = 0 /\ \A i \in 1..n : pp[i] < pp[i + 1]}} : n \in 1..L}
=============================================================================
