---------------------------- MODULE Trace_Genotypes ----------------------------
(* C03, code -> spec.  Each case is one Variant object history on a real tree    *)
(* sequence: a sequence of decode(site) calls in arbitrary order (plus copies),  *)
(* followed by the whole-sequence views (variants iteration with left/right,     *)
(* genotype_matrix, haplotypes, alignments).  One TLC state per decode: the      *)
(* recorded result must be the definitional one whatever was decoded before.     *)
EXTENDS TskGenotypes, Json, IOUtils, TLC
Cases == ndJsonDeserialize(IOEnv.CASES)
VARIABLES k, j, bad
vars == <<k, j, bad>>
C == Cases[k]
T == C.ts
IAM == C.iam = 1
Nodes == C.nodes                     \* requested nodes, in order

\* one decoded variant record d = [site, alleles, g, has_missing] against the definition
VariantFails(c, d, useralleles) ==
  LET ts == c.ts
      s == d.site
      iam == c.iam = 1
      want == [i \in 1..Len(c.nodes) |-> AlleleOf(ts, s, c.nodes[i], iam)]
      al == d.alleles
      anyMissing == \E i \in 1..Len(c.nodes) : want[i] = MISSING
      real == IF Len(al) > 0 /\ al[Len(al)] = MISSING THEN SubSeq(al, 1, Len(al) - 1) ELSE al
  IN {cl \in {"len", "rule", "alleles0", "allele_set", "missing_flag", "none_last", "user_alleles"} :
      ~ CASE cl = "len" -> Len(d.g) = Len(c.nodes)
          [] cl = "rule" -> \A i \in 1..Len(c.nodes) :
                IF want[i] = MISSING THEN d.g[i] = -1
                ELSE d.g[i] >= 0 /\ d.g[i] < Len(al) /\ al[d.g[i] + 1] = want[i]
          [] cl = "alleles0" -> useralleles # <<>> \/ (Len(al) >= 1 /\ al[1] = ts.sites[s + 1].anc)
          [] cl = "allele_set" -> useralleles # <<>> \/ (ToSet(real) = SiteAlleles(ts, s) /\ Len(real) = Cardinality(SiteAlleles(ts, s)))
          [] cl = "missing_flag" -> (d.has_missing = 1) = anyMissing
          [] cl = "none_last" -> useralleles # <<>> \/ ((Len(al) > 0 /\ al[Len(al)] = MISSING) = anyMissing)
          [] cl = "user_alleles" -> useralleles = <<>> \/ real = useralleles
     }

\* whole-sequence views, checked once per case (at j = 0)
SeqFails(c) ==
  LET ts == c.ts
      iam == c.iam = 1
      sel == SitesInInterval(ts, c.left, c.right)
      selq == SetToSortSeq(sel, <)
  IN {cl \in {"iter_sites", "iter_variants", "gm", "haps", "align", "user_raise"} :
      ~ CASE cl = "iter_sites" -> [i \in 1..Len(c.iter) |-> c.iter[i].site] = selq
          [] cl = "iter_variants" -> \A i \in 1..Len(c.iter) : VariantFails(c, c.iter[i], c.user_alleles) = {}
          [] cl = "gm" -> c.gm_skip = 1 \/
                 (/\ Len(c.gm) = Len(ts.sites)
                  /\ \A s \in 0..(Len(ts.sites) - 1) : \A i \in 1..Len(c.nodes) :
                        c.gm[s + 1][i] = AlleleOf(ts, s, c.nodes[i], iam))
          [] cl = "haps" -> c.haps_skip = 1 \/
                 (/\ Len(c.haps) = Len(c.nodes)
                  /\ \A i \in 1..Len(c.nodes) : /\ Len(c.haps[i]) = Len(selq)
                                               /\ \A q \in 1..Len(selq) : c.haps[i][q] = AlleleOf(ts, selq[q], c.nodes[i], iam))
          [] cl = "align" -> c.align_skip = 1 \/
                 \* alignments() either raises (missing data present) or gives, per requested node, the
                 \* site alleles at site positions and the reference elsewhere
                 \* (documented limitation: it raises whenever any tree has an isolated sample)
                 LET par(x) == ParentAt(ts, x)
                     anyIso == \E b \in 1..NumTrees(ts) : \E u \in SamplesOf(ts) :
                                  par(BPSeq(ts)[b])[u] = NULL /\ ChildrenIn(par(BPSeq(ts)[b]), u) = {} IN
                 IF c.align_raised = 1 THEN anyIso
                 ELSE /\ ~anyIso
                      /\ \A i \in 1..Len(c.nodes) : /\ Len(c.align[i]) = c.right - c.left
                            /\ \A x \in c.left..(c.right - 1) :
                                 LET ss == {s \in sel : SitePos(ts, s) = x} IN
                                 c.align[i][x - c.left + 1] = (IF ss = {} THEN 100 + x ELSE StateOf(ts, CHOOSE s \in ss : TRUE, c.nodes[i]))
          [] cl = "user_raise" -> c.user_alleles = <<>> \/
                 \* with a user allele list the call must raise iff some selected site has an allele outside it
                 ((c.user_raised = 1) = (\E s \in 0..(Len(ts.sites) - 1) : ~(SiteAlleles(ts, s) \subseteq ToSet(c.user_alleles))))
     }

Init == k = 1 /\ j = 0 /\ bad = SeqFails(C)
Step == /\ j < Len(C.decodes)
        /\ j' = j + 1 /\ k' = k
        /\ bad' = bad \cup VariantFails(C, C.decodes[j + 1], <<>>)
NextCase == /\ j = Len(C.decodes) /\ k < Len(Cases)
            /\ k' = k + 1 /\ j' = 0 /\ bad' = SeqFails(Cases[k + 1])
Next == Step \/ NextCase
Spec == Init /\ [][Next]_vars
Report == j < Len(C.decodes) \/ PrintT(<<"V", C.id, bad>>)
=============================================================================
