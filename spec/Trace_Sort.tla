------------------------------ MODULE Trace_Sort ------------------------------
(* C07, code -> spec: recorded sort() calls (with bookmarks) on shuffled          *)
(* collections, the repair pipeline sort / build_index / deduplicate_sites /      *)
(* compute_mutation_parents (/ compute_mutation_times), and canonicalise.         *)
EXTENDS TskSort, Json, IOUtils, TLC
Cases == ndJsonDeserialize(IOEnv.CASES)
VARIABLE k
Fails(c) ==
  SortRel(c.shuffled, c.sorted, c.edge_start, c.site_start, c.mutation_start)
  \cup (IF c.idem = 1 THEN {} ELSE {"sort_not_idempotent"})
  \* the same shuffle with metadata removed from a random subset of rows (ragged metadata column): whole rows permuted, same order
  \cup (IF c.ragged_ok = 1 THEN {} ELSE {"sort_with_ragged_metadata_not_a_row_permutation"})
  \cup (IF c.canon_skip = 1 \/ c.canon_same = 1 THEN {} ELSE {"canonicalise_depends_on_row_order"})
  \* build_index() on a collection that still carries the index of another (equally valid) row order
  \cup (IF c.reindex.skip = 1 THEN {} ELSE
        {cl \in {"build_index_kept_a_stale_index", "reindexed_collection_does_not_load"} :
          ~ CASE cl = "build_index_kept_a_stale_index" -> IndexFresh(c.reindex.ts, c.reindex.ins, c.reindex.rem)
              [] cl = "reindexed_collection_does_not_load" -> c.reindex.loads = 1})
  \cup (IF c.repair_skip = 1 THEN {} ELSE
        LET o == c.orig r == c.repaired IN
        {cl \in {"repaired_loads", "same_trees", "same_genotypes", "mutation_parents", "sites_unique"} :
          ~ CASE cl = "repaired_loads" -> c.repaired_loads = 1
              [] cl = "same_trees" -> c.repaired_loads = 0 \/ \A x \in 0..(o.L - 1) : ParentAt(r, x) = ParentAt(o, x)
              [] cl = "sites_unique" -> c.repaired_loads = 0 \/ \A i \in 1..(Len(r.sites) - 1) : r.sites[i].pos < r.sites[i + 1].pos
              [] cl = "same_genotypes" -> c.repaired_loads = 0 \/
                    \A s \in 0..(Len(r.sites) - 1) : \A u \in NodesOf(o) :
                        LET so == CHOOSE q \in 0..(Len(o.sites) - 1) : o.sites[q + 1].pos = r.sites[s + 1].pos IN
                        StateOf(r, s, u) = StateOf(o, so, u)
              [] cl = "mutation_parents" -> c.repaired_loads = 0 \/ \A m \in 1..Len(r.muts) : r.muts[m].parent = MutParentDef(r, m)
        })
Init == k = 0
Next == k < Len(Cases) /\ k' = k + 1
Spec == Init /\ [][Next]_k
Report == k = 0 \/ PrintT(<<"V", Cases[k].id, Fails(Cases[k])>>)
=============================================================================
