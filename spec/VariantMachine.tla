--------------------------- MODULE VariantMachine ---------------------------
(***************************************************************************)
(* The variant decoder (c/tskit/genotypes.c: tsk_variant_init,              *)
(* tsk_variant_decode, tsk_variant_restricted_copy; python/tskit/           *)
(* genotypes.py: Variant) as a state machine.  One action per public call:  *)
(*   Decode(s)      any site, in any order, repeated, after a failed call   *)
(*   Copy           a frozen copy (restricted_copy)                         *)
(*   DecodeCopy     decode on a copy: refused, the copy does not change     *)
(* The decoder's buffers are modelled as the code keeps them: an allele     *)
(* array of capacity `cap` whose first `na` entries are live (stale         *)
(* entries stay behind), a genotype array that is overwritten sample by     *)
(* sample, the missing-data counter that is decremented by what             *)
(* update_genotypes reports.  The private tree of the decoder is            *)
(* abstracted to "the marginal tree at the site's position": that the       *)
(* incremental tree equals it after any history of seeks is what            *)
(* MC_TreeCursor establishes.                                               *)
(*                                                                          *)
(* Checked by TLC: after every successful Decode the observable state       *)
(* (alleles, genotypes, has_missing_data) is the definitional one of        *)
(* TskGenotypes for that site, whatever was decoded before (VarOK); the     *)
(* allele list is the ancestral state followed by the derived states in     *)
(* order of first appearance (AlleleOrder); a call fails exactly when a     *)
(* user-supplied allele list lacks a state of the site (ErrIff); copies     *)
(* never change (CopiesFrozen).                                             *)
(***************************************************************************)
EXTENDS TskGenotypes, TLC, Json, IOUtils

CONSTANTS MaxSites, MaxMuts, NumAlleles, Depth, EnumLayers, MaxCopies, Record, OptLevel

UNSET == -9        \* never-written allele slot
GARB == -7         \* never-written genotype slot

VARIABLES ts, opt, v, copies, hist
vars == <<ts, opt, v, copies, hist>>

\* ---------------------------------------------------------------- inputs
Bases == ToSet(ndJsonDeserialize(IOEnv.SIMTS))
SameSite(q) == \A i \in 1..(Len(q) - 1) : q[i].site <= q[i + 1].site
\* the mutation order the data model requires: a mutation above another one is listed first
AboveFirst(b, sites, q) ==
    \A i, j \in 1..Len(q) : (i < j /\ q[i].site = q[j].site) =>
        LET par == ParentAt(b, sites[q[i].site + 1].pos)
        IN ~(q[i].node # q[j].node /\ IsDescendant(par, q[i].node, q[j].node))
SiteSeqs(b) == UNION {{SetToSortSeq({[pos |-> p, anc |-> 0] : p \in P}, LAMBDA x, y : x.pos < y.pos) : P \in kSubset(k, 0..(b.L - 1))}
                      : k \in 0..MaxSites}
MutCand(b, sites) == {[site |-> s, node |-> u, der |-> d, parent |-> NULL, time |-> -1] :
                         s \in 0..(Len(sites) - 1), u \in NodesOf(b), d \in 0..(NumAlleles - 1)}
MutSeqs(b, sites) == UNION {{q \in [1..k -> MutCand(b, sites)] : SameSite(q) /\ AboveFirst(b, sites, q)} : k \in 0..MaxMuts}
WithLayer(b, sites, muts) == [L |-> b.L, time |-> b.time, flags |-> b.flags, edges |-> b.edges, sites |-> sites, muts |-> muts]
Layers(b) == UNION {{WithLayer(b, sites, muts) : muts \in MutSeqs(b, sites)} : sites \in SiteSeqs(b)}
TsChoices == IF EnumLayers THEN UNION {Layers(b) : b \in Bases} ELSE Bases

\* options: isolated_as_missing, an explicit sample list (alt) or the default one, a user allele list or none
SampleChoices(t) ==
    LET S == SampleSeq(t) IN
    {[alt |-> FALSE, q |-> S]} \cup
    {[alt |-> TRUE, q |-> q] : q \in {Reverse(S)} \cup {<<NumNodes(t) - 1>>} \cup
           (IF OptLevel < 2 THEN {} ELSE {S} \cup {<<u>> : u \in NodesOf(t)} \cup
                                      {<<u, w>> : u \in {NumNodes(t) - 1}, w \in SamplesOf(t) \ {NumNodes(t) - 1}})}
UserChoices == {<<>>, <<2, 1, 0>>, <<1, 0>>} \cup (IF OptLevel < 2 THEN {} ELSE {<<0, 1, 2>>, <<0, 0, 1, 2>>})
OptChoices(t) == {[iam |-> i, alt |-> sc.alt, samples |-> sc.q, user |-> ua] :
                     i \in BOOLEAN, sc \in SampleChoices(t), ua \in UserChoices}
\* tsk_variant_init refuses non-sample nodes when isolated nodes are to be reported as missing
InitOK(t, o) == ~(o.alt /\ o.iam /\ \E j \in 1..Len(o.samples) : ~IsSample(t, o.samples[j]))

\* ---------------------------------------------------------------- the machine
InitVar(t, o) ==
    LET cap0 == IF o.user = <<>> THEN 4 ELSE Len(o.user) IN
    [site |-> NULL, cap |-> cap0,
     al |-> IF o.user = <<>> THEN [j \in 1..cap0 |-> UNSET] ELSE o.user,
     na |-> IF o.user = <<>> THEN 0 ELSE Len(o.user),
     geno |-> [j \in 1..Len(o.samples) |-> GARB], hm |-> FALSE, err |-> ""]

\* tsk_variant_get_allele_index: first live slot holding the state, -1 if none
FindAllele(al, na, a) == LET H == {j \in 1..na : al[j] = a} IN IF H = {} THEN -1 ELSE Min(H) - 1

\* sample indexes whose node hangs below `node` (sample-list walk and traversal visit the same set)
Below(o, par, node) == {j \in 1..Len(o.samples) : o.samples[j] \in Desc(par, node)}

\* tsk_variant_mark_missing: roots of the tree without children that are in the index map
MarkSet(t, o, par) == {j \in 1..Len(o.samples) :
                          o.samples[j] \in RootsIn(t, par, 1) /\ ChildrenIn(par, o.samples[j]) = {}}

RowsOfSite(t, s) == SelectSeq([i \in 1..Len(t.muts) |-> i], LAMBDA i : t.muts[i].site = s)

RECURSIVE MutLoop(_, _, _, _, _)
MutLoop(t, o, par, w, rows) ==
    IF rows = <<>> \/ w.err # "" THEN w
    ELSE LET m == t.muts[Head(rows)]
             k0 == FindAllele(w.al, w.na, m.der)
         IN IF k0 = -1 /\ o.user # <<>> THEN [w EXCEPT !.err = "ALLELE_NOT_FOUND"]
            ELSE LET grow == k0 = -1 /\ w.na = w.cap
                     cap1 == IF grow THEN 2 * w.cap ELSE w.cap
                     al1 == IF grow THEN w.al \o [j \in 1..w.cap |-> UNSET] ELSE w.al
                     k == IF k0 = -1 THEN w.na ELSE k0
                     al2 == IF k0 = -1 THEN [al1 EXCEPT ![k + 1] = m.der] ELSE al1
                     na2 == IF k0 = -1 THEN w.na + 1 ELSE w.na
                     B == Below(o, par, m.node)
                     nlm == Cardinality({j \in B : w.geno[j] = MISSING})
                     g2 == [j \in 1..Len(w.geno) |-> IF j \in B THEN k ELSE w.geno[j]]
                 IN MutLoop(t, o, par, [w EXCEPT !.cap = cap1, !.al = al2, !.na = na2, !.geno = g2, !.nm = w.nm - nlm],
                            Tail(rows))

DecodeS(t, o, s0, s) ==
    LET par == ParentAt(t, SitePos(t, s))
        anc == t.sites[s + 1].anc
        user == o.user # <<>>
        a0 == IF user THEN FindAllele(s0.al, s0.na, anc) ELSE 0
    IN IF user /\ a0 = -1 THEN [s0 EXCEPT !.site = s, !.err = "ALLELE_NOT_FOUND"]
       ELSE LET al0 == IF user THEN s0.al ELSE [s0.al EXCEPT ![1] = anc]
                na0 == IF user THEN s0.na ELSE 1
                M == IF o.iam THEN MarkSet(t, o, par) ELSE {}
                g0 == [j \in 1..Len(s0.geno) |-> IF j \in M THEN MISSING ELSE a0]
                w == MutLoop(t, o, par, [cap |-> s0.cap, al |-> al0, na |-> na0, geno |-> g0, nm |-> Cardinality(M), err |-> ""],
                             RowsOfSite(t, s))
            IN [site |-> s, cap |-> w.cap, al |-> w.al, na |-> w.na, geno |-> w.geno,
                hm |-> IF w.err = "" THEN w.nm > 0 ELSE s0.hm, err |-> w.err]

\* what the Python object shows
Live(s) == SubSeq(s.al, 1, s.na)
Obs(s) == [site |-> s.site, alleles |-> Live(s), geno |-> s.geno, hm |-> s.hm, err |-> s.err]

Init == /\ ts \in TsChoices
        /\ opt \in {o \in OptChoices(ts) : InitOK(ts, o)}
        /\ v = InitVar(ts, opt)
        /\ copies = <<>>
        /\ hist = <<>>

Rec(op, arg, e) == hist' = IF Record THEN Append(hist, [op |-> op, arg |-> arg, exp |-> e]) ELSE hist
ADecode(s) == /\ v' = DecodeS(ts, opt, v, s)
              /\ Rec("decode", s, Obs(v'))
              /\ UNCHANGED <<ts, opt, copies>>
\* restricted_copy is only offered by the Python layer once something has been decoded successfully or not; the C copy
\* duplicates the live alleles and the genotypes
ACopy == /\ Len(copies) < MaxCopies
         /\ v.site # NULL /\ v.err = ""
         /\ copies' = Append(copies, Obs(v))
         /\ Rec("copy", Len(copies), Obs(v))
         /\ UNCHANGED <<ts, opt, v>>
ADecodeCopy(i, s) == /\ i \in 1..Len(copies)
                     /\ Rec("decode_copy", <<i - 1, s>>, [copies[i] EXCEPT !.err = "CANT_DECODE_COPY"])
                     /\ UNCHANGED <<ts, opt, v, copies>>
Next == /\ Record => Len(hist) < Depth
        /\ \/ \E s \in 0..(Len(ts.sites) - 1) : ADecode(s)
           \/ ACopy
           \/ \E i \in 1..Len(copies), s \in 0..(Len(ts.sites) - 1) : ADecodeCopy(i, s)
Spec == Init /\ [][Next]_vars

\* ---------------------------------------------------------------- properties
TokOf(s, g) == IF g = MISSING THEN MISSING ELSE s.al[g + 1]
Lacks(t, o, s) == o.user # <<>> /\ ~(SiteAlleles(t, s) \subseteq ToSet(o.user))
ErrIff == v.site # NULL => ((v.err # "") <=> Lacks(ts, opt, v.site))
VarOK == (v.site # NULL /\ v.err = "") =>
    /\ \A j \in 1..Len(opt.samples) :
          /\ v.geno[j] = MISSING \/ (0 <= v.geno[j] /\ v.geno[j] < v.na)
          /\ TokOf(v, v.geno[j]) = AlleleOf(ts, v.site, opt.samples[j], opt.iam)
    /\ v.hm <=> (\E j \in 1..Len(opt.samples) : v.geno[j] = MISSING)
    /\ v.na <= v.cap /\ Len(v.al) = v.cap
\* without a user list: ancestral state first, then the derived states in order of first appearance, no repeats
FirstSeen(q) == SelectSeq([i \in 1..Len(q) |-> i], LAMBDA i : \A k \in 1..(i - 1) : q[k] # q[i])
AlleleOrder == (v.site # NULL /\ v.err = "" /\ opt.user = <<>>) =>
    LET rows == RowsOfSite(ts, v.site)
        states == <<ts.sites[v.site + 1].anc>> \o [i \in 1..Len(rows) |-> ts.muts[rows[i]].der]
        fs == FirstSeen(states)
    IN Live(v) = [i \in 1..Len(fs) |-> states[fs[i]]]
UserKept == opt.user # <<>> => Live(v) = opt.user
CopiesFrozen == [][\A i \in 1..Len(copies) : copies'[i] = copies[i]]_vars
\* the outcome of a Decode is a function of the site alone: the state left behind by earlier calls does not matter
Outcome(s) == IF s.err # "" THEN [err |-> s.err] ELSE Obs(s)
HistoryFree == [][\A s \in 0..(Len(ts.sites) - 1) :
                    Outcome(DecodeS(ts, opt, v, s)) = Outcome(DecodeS(ts, opt, InitVar(ts, opt), s))]_vars

Emit == ~Record \/ Len(hist) < Depth \/ PrintT(<<"H", ToJson([ts |-> ts, opt |-> opt, hist |-> hist])>>)
=============================================================================
