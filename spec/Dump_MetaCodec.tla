---------------------------- MODULE Dump_MetaCodec ----------------------------
(* spec -> code: TLC enumerates struct-codec schemas from a bounded grammar (every  *)
(* scalar format, strings c / Ns / Np with and without null termination, padding,   *)
(* arrays with each length-prefix format / fixed length / exhaust-buffer (last in    *)
(* the encoded order only), nested objects, index permutations incl. ties broken     *)
(* by name, defaults, object|null top level) with conforming values, and emits the   *)
(* cell layout and the expected decoded value of each.                               *)
EXTENDS MetaCodec, Json, IOUtils
CONSTANT Deep
VARIABLE done
Half == [num |-> 1, den |-> 2]
R(n) == [num |-> n, den |-> 1]
Scalars == {[s |-> [t |-> "integer", f |-> f], vals |-> IF f \in {"b", "h", "i", "l", "q"} THEN {-3, 0, 100} ELSE {0, 7, 200}] :
              f \in {"b", "B", "h", "H", "i", "I", "l", "L", "q", "Q"}}
           \cup {[s |-> [t |-> "number", f |-> f], vals |-> {R(0), R(3), Half, [num |-> -9, den |-> 4]}] : f \in {"f", "d"}}
           \cup {[s |-> [t |-> "boolean", f |-> "?"], vals |-> {TRUE, FALSE}]}
           \cup {[s |-> [t |-> "string", f |-> "c", kind |-> "c", n |-> 1, nullterm |-> FALSE], vals |-> {<<97>>, <<90>>}]}
           \cup {[s |-> [t |-> "string", f |-> "3s", kind |-> "s", n |-> 3, nullterm |-> nt], vals |-> {<<>>, <<97, 98>>, <<97, 98, 99>>, <<97, 98, 99, 100>>, <<97, 0, 99>>}] : nt \in BOOLEAN}
           \cup {[s |-> [t |-> "string", f |-> "4p", kind |-> "p", n |-> 4, nullterm |-> FALSE], vals |-> {<<>>, <<97, 98>>, <<97, 98, 99, 100, 101>>}]}
           \cup {[s |-> [t |-> "null", f |-> "2x"], vals |-> {NULLV}]}
SomeScalars == {x \in Scalars : x.s.f \in {"B", "h", "d", "3s", "?"}}
Arrays == UNION {{[s |-> [t |-> "array", items |-> x.s, mode |-> "len", lf |-> lf, length |-> 0], vals |-> {<<>>, <<v>>, <<v, w>>}] :
                    lf \in {"B", "H", "I", "L", "Q"}, v \in x.vals, w \in x.vals}
                 \cup {[s |-> [t |-> "array", items |-> x.s, mode |-> "fixed", lf |-> "L", length |-> 2], vals |-> {<<v, w>>}] : v \in x.vals, w \in x.vals}
                 : x \in {y \in SomeScalars : y.s.f \in {"B", "h", "3s"}}}
Exhaust == {[s |-> [t |-> "array", items |-> x.s, mode |-> "exhaust", lf |-> "L", length |-> 0], vals |-> {<<>>, <<v>>, <<v, w>>}] :
              x \in {y \in SomeScalars : y.s.f \in {"B", "h"}}, v \in {0, 7}, w \in {7}}
Names == <<"a", "b", "c">>
Ord(nm) == CHOOSE i \in 1..3 : Names[i] = nm
\* an object over the first k names with the given sub-schemas (as [s, vals] choices) and indexes; two values:
\* the "first" value of every property, and a value differing from it wherever the pool offers one
FirstVal(c) == CHOOSE v \in c.vals : TRUE
OtherVal(c) == IF Cardinality(c.vals) = 1 THEN FirstVal(c) ELSE CHOOSE v \in c.vals : v # FirstVal(c)
MkObj(ch, ix, k) ==
  [s |-> [t |-> "object", nullable |-> FALSE,
          props |-> [i \in 1..k |-> [name |-> Names[i], ord |-> i, s |-> ch[i].s, index |-> ix[i], hasdef |-> FALSE, def |-> 0]]],
   vals |-> {[nm \in {Names[i] : i \in 1..k} |-> FirstVal(ch[Ord(nm)])], [nm \in {Names[i] : i \in 1..k} |-> OtherVal(ch[Ord(nm)])]}]
Objects(pool, k) == {MkObj(ch, ix, k) : ch \in [1..k -> pool], ix \in [1..k -> {-1, 0, 1}]}
Inner == Objects({x \in SomeScalars : x.s.f \in {"B", "3s"}}, 2)
Tops ==
  \* (1) one property of every kind
  Objects(Scalars \cup Arrays \cup Exhaust, 1)
  \* (2) two properties from a smaller pool, all index combinations (ties broken by name)
  \cup Objects(SomeScalars \cup {CHOOSE a \in Arrays : a.s.lf = "H"}, 2)
  \* (3) nested object / array of objects
  \cup (IF Deep THEN Objects({x \in SomeScalars : x.s.f = "h"} \cup {CHOOSE o \in Inner : TRUE}
                             \cup {[s |-> [t |-> "array", items |-> (CHOOSE o \in Inner : TRUE).s, mode |-> "len", lf |-> "B", length |-> 0],
                                    vals |-> {<<>>, <<CHOOSE v \in (CHOOSE o \in Inner : TRUE).vals : TRUE>>}]}, 2) ELSE {})
\* exhaust-buffer arrays are only legal as the last encoded item (documented precondition)
LastIsOK(top) == LET ps == OrderedProps(top.s) IN \A i \in 1..(Len(ps) - 1) : ~(ps[i].s.t = "array" /\ ps[i].s.mode = "exhaust")
WithDefaults(top) ==   \* the same schema with a default on the last declared property, and a value that omits it
  LET k == Len(top.s.props)
      v == CHOOSE x \in top.vals : TRUE
      p == top.s.props[k]
  IN [s |-> [top.s EXCEPT !.props[k].hasdef = TRUE, !.props[k].def = v[p.name]],
      vals |-> {[nm \in (DOMAIN v) \ {p.name} |-> v[nm]]}]
Nullable(top) == [s |-> [top.s EXCEPT !.nullable = TRUE], vals |-> {NULLV} \cup top.vals]
Legal == {t \in Tops : LastIsOK(t)}
AllTops == Legal \cup {WithDefaults(t) : t \in {x \in Legal : Len(x.s.props) = 2}} \cup {Nullable(t) : t \in {x \in Legal : Len(x.s.props) = 1}}
Cases == UNION {{[schema |-> t.s, value |-> v, cells |-> Layout(t.s, v), decoded |-> Decoded(t.s, v)] : v \in t.vals} : t \in AllTops}
Init == done = FALSE
Next == ~done /\ done' = TRUE /\ ndJsonSerialize(IOEnv.OUT, SetToSeq(Cases))
Spec == Init /\ [][Next]_done
=============================================================================
