------------------------------- MODULE Exports -------------------------------
(***************************************************************************)
(* What the text exports must say, defined from the genotype / tree          *)
(* definitions (C16 VCF, C17 text tables, C18 Newick / Nexus / FASTA).       *)
(* Only structure and logical values are modelled; turning a value into      *)
(* characters (and back) is the harness's tokenizer (DESIGN 5).              *)
(***************************************************************************)
EXTENDS TskGenotypes, TLC

\* ------------------------------------------------------------------ VCF
\* positions are given on a doubled grid (pos2 = 2 * position) so that x.5 positions exist;
\* numpy.round rounds halves to even
RoundHalfEven(p2) == IF p2 % 2 = 0 THEN p2 \div 2
                     ELSE LET lo == (p2 - 1) \div 2 IN IF lo % 2 = 0 THEN lo ELSE lo + 1
RECURSIVE Legacy(_, _)
Legacy(q, last) == IF q = <<>> THEN <<>>
                   ELSE LET p == IF RoundHalfEven(Head(q)) <= last THEN last + 1 ELSE RoundHalfEven(Head(q)) IN
                        <<p>> \o Legacy(Tail(q), p)
TransformAll(tr, q) == CASE tr = "round" -> [i \in 1..Len(q) |-> RoundHalfEven(q[i])]
                         [] tr = "plus1" -> [i \in 1..Len(q) |-> RoundHalfEven(q[i]) + 1]     \* lambda x: 1 + round(x)
                         [] tr = "legacy" -> Legacy(q, 0)
GErr == [ok |-> FALSE, g |-> <<>>]
GOk(g) == [ok |-> TRUE, g |-> g]
NodesOfInd(ts, i) == SetToSortSeq({u \in NodesOf(ts) : ts.ind[u + 1] = i}, <)
\* the sample nodes of each VCF individual, or "error"
VcfGroups(ts, a) ==
  LET S == SampleSeq(ts)
      sampleInds == {ts.ind[S[k] + 1] : k \in 1..Len(S)}
      ninds == Len(ts.ind_rows)
  IN IF ninds > 0 /\ a.ploidy # 0 THEN GErr
     ELSE IF a.individuals # <<>> \/ (a.use_default_individuals = 1 /\ sampleInds # {NULL}) THEN
          LET inds == IF a.individuals # <<>> THEN a.individuals ELSE SetToSortSeq(sampleInds, <) IN
          IF a.individuals = <<>> /\ NULL \in sampleInds THEN GErr          \* mixed association
          ELSE IF \E k \in 1..Len(inds) : inds[k] < 0 \/ inds[k] >= ninds THEN GErr
          ELSE IF \E k \in 1..Len(inds) : NodesOfInd(ts, inds[k]) = <<>> THEN GErr
          ELSE IF \E k \in 1..Len(inds) : Cardinality({IsSample(ts, NodesOfInd(ts, inds[k])[j]) : j \in 1..Len(NodesOfInd(ts, inds[k]))}) # 1 THEN GErr
          ELSE GOk([k \in 1..Len(inds) |-> NodesOfInd(ts, inds[k])])
     ELSE LET p == IF a.ploidy = 0 THEN 1 ELSE a.ploidy IN
          IF p < 1 \/ Len(S) % p # 0 THEN GErr
          ELSE GOk([k \in 1..(Len(S) \div p) |-> SubSeq(S, (k - 1) * p + 1, k * p)])
\* expected data lines: one per unmasked site, in site order
VcfExpected(ts, a, groups) ==
  LET pos == TransformAll(a.transform, a.pos2)
      kept == SelectSeq([s \in 1..Len(ts.sites) |-> s], LAMBDA s : a.site_mask[s] = 0)
      masked(s, u) == a.sample_mask # <<>> /\ a.sample_mask[s][u] = 1
  IN [i \in 1..Len(kept) |->
        LET s == kept[i] IN
        [pos |-> pos[s], id |-> s - 1, ref |-> ts.sites[s].anc,
         alts |-> SiteAlleles(ts, s - 1) \ {ts.sites[s].anc},
         gt |-> [g \in 1..Len(groups) |-> [j \in 1..Len(groups[g]) |->
                   LET flatidx == Len(FlattenSeq(SubSeq(groups, 1, g - 1))) + j IN
                   IF masked(s, flatidx) THEN MISSING ELSE AlleleOf(ts, s - 1, groups[g][j], a.iam = 1)]]]]
VcfMustRaise(ts, a, groups) ==
  LET pos == TransformAll(a.transform, a.pos2) IN
  \/ ~groups.ok
  \/ (a.allow_position_zero = 0 /\ \E s \in 1..Len(ts.sites) : a.site_mask[s] = 0 /\ pos[s] = 0)
  \/ \E s \in 1..Len(ts.sites) : a.site_mask[s] = 0 /\ Cardinality(SiteAlleles(ts, s - 1)) > 9
  \* individuals made of non-sample nodes cannot be decoded with isolated_as_missing (documented library error)
  \/ (a.iam = 1 /\ \E g \in 1..Len(groups.g) : \E j \in 1..Len(groups.g[g]) : ~IsSample(ts, groups.g[g][j]))
VcfContigLength(ts, a) ==
  LET pos == TransformAll(a.transform, a.pos2)
      tl == TransformAll(a.transform, <<ts.L2>>)[1]
  IN Max({1, tl} \cup (IF Len(pos) > 0 THEN {pos[Len(pos)]} ELSE {}))

\* ------------------------------------------------------------------ Newick / Nexus / FASTA
\* The harness tokenises a Newick string into the preorder list of its nodes:
\* <<label token, branch length in time units (or NOLEN), number of decimals printed, number of children>>.
\* kids is the child order the Tree reports; a preorder list with child counts determines the ordered tree.
NOLEN == -999999
LabelOf(lab, u) == IF u \in DOMAIN lab THEN lab[u] ELSE -1
NewickExpected(ts, par, kids, root, lab, withlen) ==
  LET pre == PreFrom(kids, root, NumNodes(ts) + 1) IN
  [i \in 1..Len(pre) |-> LET u == pre[i] IN
       <<LabelOf(lab, u),
         IF u = root \/ ~withlen THEN NOLEN ELSE TimeOf(ts, par[u]) - TimeOf(ts, u),
         Len(kids[u])>>]
=============================================================================
