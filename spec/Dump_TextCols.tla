---------------------------- MODULE Dump_TextCols ----------------------------
(* spec -> code: TLC enumerates, for each of the seven parsers, every subset of   *)
(* optional columns, with and without an unknown extra column, in many column     *)
(* orders (all permutations up to 5 columns, otherwise all rotations, their       *)
(* reversals and all adjacent transpositions), together with the table the        *)
(* parser must return.  The harness renders each layout as text and calls         *)
(* the real parse_* function.                                                     *)
EXTENDS TextFormats, Json, IOUtils
VARIABLE done
Perms(S) == {f \in [1..Cardinality(S) -> S] : \A i, j \in 1..Cardinality(S) : i # j => f[i] # f[j]}
Rot(q, r) == [i \in 1..Len(q) |-> q[((i + r - 1) % Len(q)) + 1]]
SwapAdj(q, j) == [q EXCEPT ![j] = q[j + 1], ![j + 1] = q[j]]
Orders(S) == IF Cardinality(S) <= 5 THEN Perms(S)
             ELSE LET q == SetToSeq(S) IN
                  {Rot(q, r) : r \in 0..(Len(q) - 1)} \cup {Reverse(Rot(q, r)) : r \in 0..(Len(q) - 1)}
                  \cup {SwapAdj(q, j) : j \in 1..(Len(q) - 1)}
Layouts(k) == UNION {UNION {{[kind |-> k, header |-> h, rows |-> Rows(k),
                               expected |-> ParsedTable(k, Rows(k), ToSet(Required(k)) \cup O)] :
                              h \in Orders(ToSet(Required(k)) \cup O \cup extra)} :
                            extra \in {{}, {"zzz_unknown"}}} : O \in SUBSET (DOMAIN Optional(k))}
All == UNION {Layouts(k) : k \in Kinds}
Init == done = FALSE
Next == ~done /\ done' = TRUE /\ ndJsonSerialize(IOEnv.OUT, SetToSeq(All))
Spec == Init /\ [][Next]_done
=============================================================================
