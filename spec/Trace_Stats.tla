------------------------------ MODULE Trace_Stats ------------------------------
(* C08, code -> spec: recorded statistic calls with results scaled to integers or given as   *)
(* reduced fractions; the window refinement law; thread-count independence.  Every call      *)
(* record has a `kind` selecting the definition of TskStats it is compared with.             *)
EXTENDS TskStats, Json, IOUtils, TLC
Cases == ndJsonDeserialize(IOEnv.CASES)
VARIABLE k
NW(c) == Len(c.windows) - 1
WL(c, w) == c.windows[w]
WR(c, w) == c.windows[w + 1]
Refines(c) == c.fine_windows = <<>> \/
   \A w \in 1..NW(c) : \A i \in 1..Len(c.result[w]) :
      c.result[w][i] = FoldSet(LAMBDA q, acc : acc + c.fine_result[q][i], 0,
                               {q \in 1..(Len(c.fine_windows) - 1) : c.windows[w] <= c.fine_windows[q] /\ c.fine_windows[q + 1] <= c.windows[w + 1]})
CountFails(ts, c) ==
  LET nw == NW(c)
      pol == c.polarised = 1
      exp(w, i) ==
        IF c.mode = "site" THEN SiteStat(ts, c.stat, c.sets, c.indexes[i], pol, c.windows[w], c.windows[w + 1])
        ELSE BranchStat(ts, c.stat, c.sets, c.indexes[i], pol, c.windows[w], c.windows[w + 1])
  IN {cl \in {"shape", "values", "node_values", "window_refinement", "threads"} :
       ~ CASE cl = "shape" -> Len(c.result) = nw
           [] cl = "values" -> c.mode = "node" \/ \A w \in 1..nw : \A i \in 1..Len(c.indexes) : c.result[w][i] = exp(w, i)
           [] cl = "node_values" -> c.mode # "node" \/ \A w \in 1..nw : \A u \in NodesOf(ts) : \A i \in 1..Len(c.indexes) :
                                      c.result[w][u + 1][i] = NodeStat(ts, c.stat, c.sets, c.indexes[i], pol, c.windows[w], c.windows[w + 1], u)
           \* for any refinement of the windows the (span-weighted) sum of the finer results is the coarser result
           [] cl = "window_refinement" -> c.mode = "node" \/ Refines(c)
           [] cl = "threads" -> \A t \in 1..Len(c.threaded) : c.threaded[t] = c.threaded[1]
     }
OtherFails(ts, c) ==
  LET pol == c.polarised = 1 IN
  CASE c.kind = "afs" ->
         {cl \in {"shape", "values", "window_refinement"} :
            ~ CASE cl = "shape" -> Len(c.result) = NW(c) /\ \A w \in 1..NW(c) : Len(c.result[w]) = Cardinality(AfsCoords(AllSizes(c.sets)))
                [] cl = "values" -> \A w \in 1..NW(c) : AfsOK(ts, c.mode, pol, c.sets, WL(c, w), WR(c, w), c.result[w])
                [] cl = "window_refinement" -> Refines(c)}
    [] c.kind = "fst" ->
         {cl \in {"shape", "values"} :
            ~ CASE cl = "shape" -> Len(c.result) = NW(c)
                [] cl = "values" -> \A w \in 1..NW(c) : \A i \in 1..Len(c.indexes) : FstOK(ts, c.mode, c.sets, c.indexes[i], WL(c, w), WR(c, w), c.result[w][i])}
    [] c.kind = "relatedness" ->
         {cl \in {"shape", "values", "window_refinement"} :
            ~ CASE cl = "shape" -> Len(c.result) = NW(c)
                [] cl = "values" -> \A w \in 1..NW(c) : \A i \in 1..Len(c.indexes) :
                                      c.result[w][i] = Relatedness(ts, c.mode, c.sets, c.indexes[i], c.centre = 1, pol, WL(c, w), WR(c, w))
                [] cl = "window_refinement" -> Refines(c)}
    [] c.kind = "general" ->
         \* the summary function returns two values (c.fnames); results are [window][output] or [window][node][output]
         {cl \in {"shape", "values", "node_values", "window_refinement"} :
            ~ CASE cl = "shape" -> Len(c.result) = NW(c)
                [] cl = "values" -> c.mode = "node" \/ \A w \in 1..NW(c) : \A q \in 1..Len(c.fnames) :
                       c.result[w][q] = (IF c.mode = "site" THEN GeneralSite(ts, c.weights, c.fnames[q], pol, WL(c, w), WR(c, w))
                                         ELSE GeneralBranch(ts, c.weights, c.fnames[q], pol, WL(c, w), WR(c, w)))
                [] cl = "node_values" -> c.mode # "node" \/ \A w \in 1..NW(c) : \A u \in NodesOf(ts) : \A q \in 1..Len(c.fnames) :
                       c.result[w][u + 1][q] = GeneralNode(ts, c.weights, c.fnames[q], pol, WL(c, w), WR(c, w), u)
                [] cl = "window_refinement" -> c.mode = "node" \/ Refines(c)}
    [] c.kind = "traitcov" ->
         {cl \in {"shape", "values", "window_refinement"} :
            ~ CASE cl = "shape" -> Len(c.result) = NW(c)
                [] cl = "values" -> \A w \in 1..NW(c) : \A q \in 1..Len(c.weights[1]) : c.result[w][q] = TraitCov(ts, c.mode, c.weights, q, WL(c, w), WR(c, w))
                [] cl = "window_refinement" -> Refines(c)}
    [] c.kind = "grw" ->
         {cl \in {"shape", "values", "window_refinement"} :
            ~ CASE cl = "shape" -> Len(c.result) = NW(c)
                [] cl = "values" -> \A w \in 1..NW(c) : \A i \in 1..Len(c.indexes) :
                                      c.result[w][i] = Grw(ts, c.mode, c.weights, c.indexes[i], c.centre = 1, pol, WL(c, w), WR(c, w))
                [] cl = "window_refinement" -> Refines(c)}
    [] c.kind = "gnn" ->
         {cl \in {"shape", "values", "threads"} :
            ~ CASE cl = "shape" -> Len(c.result) = Len(c.focal)
                [] cl = "values" -> \A j \in 1..Len(c.focal) : \A t \in 1..Len(c.sets) : GnnOK(ts, c.sets, c.focal[j], t, c.result[j][t])
                [] cl = "threads" -> \A t \in 1..Len(c.threaded) : c.threaded[t] = c.threaded[1]}
    [] c.kind = "meandesc" ->
         {cl \in {"shape", "values"} :
            ~ CASE cl = "shape" -> Len(c.result) = NumNodes(ts)
                [] cl = "values" -> \A u \in NodesOf(ts) : \A t \in 1..Len(c.sets) : MeanDescOK(ts, c.sets, u, t, c.result[u + 1][t])}
    [] c.kind = "paircoal" ->
         {cl \in {"shape", "values"} :
            ~ CASE cl = "shape" -> Len(c.result) = NW(c)
                [] cl = "values" -> \A w \in 1..NW(c) : \A i \in 1..Len(c.indexes) : \A u \in NodesOf(ts) :
                                      IF c.span_normalise = 1 THEN PairCoalNormOK(ts, c.sets, c.indexes[i], WL(c, w), WR(c, w), u, c.result[w][i][u + 1])
                                      ELSE c.result[w][i][u + 1] = PairCoal(ts, c.sets, c.indexes[i], WL(c, w), WR(c, w), u)}
    [] c.kind = "treedist" ->
         {cl \in {"rf", "kc_topology", "kc_half", "kc_branch_length"} :
            ~ CASE cl = "rf" -> c.rf = RF(ts, c.x, c.y, c.rx, c.ry)
                \* recorded: 4 x squared distance (-1: refused / not compared)
                [] cl = "kc_topology" -> c.kc0 = -1 \/ c.kc0 = KcSquared4(ts, c.x, c.y, c.rx, c.ry, 0)
                [] cl = "kc_half" -> c.kch = -1 \/ c.kch = KcSquared4(ts, c.x, c.y, c.rx, c.ry, 1)
                [] cl = "kc_branch_length" -> c.kc1 = -1 \/ c.kc1 = KcSquared4(ts, c.x, c.y, c.rx, c.ry, 2)}
    [] c.kind = "ld" ->
         {cl \in {"r2"} : ~ \A q \in 1..Len(c.pairs) : R2OK(ts, c.pairs[q][1], c.pairs[q][2], c.pairs[q][3])}
    \* relations evaluated by the harness in floating point (square roots, regressions): see DESIGN 5
    [] c.kind = "derived" -> {cl \in {"relation"} : c.ok # 1}
Fails(c) == UNION {{c.calls[i].stat \o "_" \o c.calls[i].mode \o "_" \o cl :
                      cl \in (IF c.calls[i].kind = "count" THEN CountFails(c.ts, c.calls[i]) ELSE OtherFails(c.ts, c.calls[i]))} : i \in 1..Len(c.calls)}
Init == k = 0
Next == k < Len(Cases) /\ k' = k + 1
Spec == Init /\ [][Next]_k
Report == k = 0 \/ PrintT(<<"V", Cases[k].id, Fails(Cases[k])>>)
=============================================================================
