------------------------------ MODULE Trace_Stats ------------------------------
(* C08, code -> spec: recorded statistic calls (named statistics and               *)
(* sample_count_stat with the numerator as summary function) with results scaled   *)
(* to integers; the window refinement law; thread-count independence.              *)
EXTENDS TskStats, Json, IOUtils, TLC
Cases == ndJsonDeserialize(IOEnv.CASES)
VARIABLE k
CallFails(ts, c) ==
  LET nw == Len(c.windows) - 1
      pol == c.polarised = 1
      exp(w, i) ==
        IF c.mode = "site" THEN SiteStat(ts, c.stat, c.sets, c.indexes[i], pol, c.windows[w], c.windows[w + 1])
        ELSE BranchStat(ts, c.stat, c.sets, c.indexes[i], pol, c.windows[w], c.windows[w + 1])
  IN {cl \in {"shape", "values", "node_values", "window_refinement", "threads"} :
       ~ CASE cl = "shape" -> Len(c.result) = nw
           [] cl = "values" -> c.mode = "node" \/ \A w \in 1..nw : \A i \in 1..Len(c.indexes) : c.result[w][i] = exp(w, i)
           [] cl = "node_values" -> c.mode # "node" \/ \A w \in 1..nw : \A u \in NodesOf(ts) : \A i \in 1..Len(c.indexes) :
                                      c.result[w][u + 1][i] = NodeStat(ts, c.stat, c.sets, c.indexes[i], pol, c.windows[w], c.windows[w + 1], u)
           \* for any refinement of the windows the (span-weighted) sum of the finer results is the coarser result
           [] cl = "window_refinement" -> c.fine_windows = <<>> \/ c.mode = "node" \/
                  \A w \in 1..nw : \A i \in 1..Len(c.indexes) :
                     c.result[w][i] = FoldSet(LAMBDA q, acc : acc + c.fine_result[q][i], 0,
                                              {q \in 1..(Len(c.fine_windows) - 1) : c.windows[w] <= c.fine_windows[q] /\ c.fine_windows[q + 1] <= c.windows[w + 1]})
           [] cl = "threads" -> \A t \in 1..Len(c.threaded) : c.threaded[t] = c.threaded[1]
     }
Fails(c) == UNION {{c.calls[i].stat \o "_" \o c.calls[i].mode \o "_" \o cl : cl \in CallFails(c.ts, c.calls[i])} : i \in 1..Len(c.calls)}
Init == k = 0
Next == k < Len(Cases) /\ k' = k + 1
Spec == Init /\ [][Next]_k
Report == k = 0 \/ PrintT(<<"V", Cases[k].id, Fails(Cases[k])>>)
=============================================================================
