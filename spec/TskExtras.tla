------------------------------ MODULE TskExtras ------------------------------
(***************************************************************************)
(* Behaviour beyond the twenty listed properties (spec growth): table-level  *)
(* operations whose meaning has a short positional definition.               *)
(*                                                                          *)
(*  link_ancestors(samples, ancestors): at every position x, every node c of *)
(*    samples \cup ancestors that is in `samples` or an ancestor of one of   *)
(*    them inherits from the nearest strict ancestor that is itself in       *)
(*    samples \cup ancestors ("more recently than from any other node in     *)
(*    these lists"); the output rows are the maximal intervals of that       *)
(*    relation.                                                              *)
(*  EdgeTable.squash(): the same set of (position, parent, child) cells in   *)
(*    the fewest rows, ordered by (parent, child, left).                     *)
(*  individuals_time / individuals_population: the common value of the       *)
(*    individual's nodes (undefined -> the call must raise).                  *)
(*  TreeSequence.samples(population, time): the samples passing the filter,  *)
(*    in id order.                                                           *)
(***************************************************************************)
EXTENDS TskTrees
Cells(ts) == 0..(ts.L - 1)
\* rows: sequence of [left, right, parent, child]; the (cell, parent, child) triples they cover
Triples(rows) == UNION {{<<x, rows[i].parent, rows[i].child>> : x \in rows[i].left..(rows[i].right - 1)} : i \in 1..Len(rows)}
\* maximal: no two rows of one (parent, child) pair touch or overlap; every row non-empty
Maximal(rows) == /\ \A i \in 1..Len(rows) : rows[i].left < rows[i].right
                 /\ \A i, j \in 1..Len(rows) : (i # j /\ rows[i].parent = rows[j].parent /\ rows[i].child = rows[j].child)
                        => (rows[i].right < rows[j].left \/ rows[j].right < rows[i].left)
HasSampleBelow(par, S, c) == \E s \in S : IsDescendant(par, s, c)
NearestIn(par, U, c) == LET path == Tail(PathUp(par, c)) hit == {i \in 1..Len(path) : path[i] \in U} IN IF hit = {} THEN NULL ELSE path[Min(hit)]
LinkTriples(ts, S, A) ==
  LET U == S \cup A IN
  UNION {LET par == ParentAt(ts, x) IN {<<x, NearestIn(par, U, c), c>> : c \in {v \in U : HasSampleBelow(par, S, v) /\ NearestIn(par, U, v) # NULL}} : x \in Cells(ts)}
LinkFails(ts, S, A, rows) ==
  {cl \in {"link_relation", "link_rows_maximal"} :
     ~ CASE cl = "link_relation" -> Triples(rows) = LinkTriples(ts, S, A)
         [] cl = "link_rows_maximal" -> Maximal(rows)}
PCLess(a, b) == a.parent < b.parent \/ (a.parent = b.parent /\ (a.child < b.child \/ (a.child = b.child /\ a.left < b.left)))
SquashFails(before, after) ==
  {cl \in {"squash_same_cells", "squash_maximal", "squash_order"} :
     ~ CASE cl = "squash_same_cells" -> Triples(after) = Triples(before)
         [] cl = "squash_maximal" -> Maximal(after)
         [] cl = "squash_order" -> \A i \in 1..(Len(after) - 1) : PCLess(after[i], after[i + 1])}
\* derived per-individual arrays: nodes[i] the node ids of individual i
IndNodes(ts, i) == {u \in NodesOf(ts) : ts.ind[u + 1] = i}
IndTimeDefined(ts) == \A i \in 0..(ts.nind - 1) : Cardinality({TimeOf(ts, u) : u \in IndNodes(ts, i)}) <= 1
IndPopDefined(ts) == \A i \in 0..(ts.nind - 1) : Cardinality({ts.pop[u + 1] : u \in IndNodes(ts, i)}) <= 1
\* the oldest root of any marginal tree (roots: parentless nodes with a sample below; isolated samples are roots)
MaxRootTime(ts) == Max(UNION {{TimeOf(ts, r) : r \in RootsIn(ts, ParentAt(ts, x), 1)} : x \in Cells(ts)})
MinTime(ts) == Min({TimeOf(ts, u) : u \in NodesOf(ts)})
MaxTime(ts) == Max({TimeOf(ts, u) : u \in NodesOf(ts)})
SamplesFiltered(ts, pop, hasTime, t) ==
  SetToSortSeq({u \in SamplesOf(ts) : (pop = -2 \/ ts.pop[u + 1] = pop) /\ (~hasTime \/ TimeOf(ts, u) = t)}, <)
=============================================================================
