------------------------------ MODULE MC_Stream ------------------------------
EXTENDS Stream
Objs == {[id |-> 1, size |-> 3], [id |-> 2, size |-> 5], [id |-> 3, size |-> 5]}
Flags == [metadata : BOOLEAN, ts_metadata : BOOLEAN, tables : BOOLEAN, provenance : BOOLEAN, timestamps : BOOLEAN,
          reference_sequence : BOOLEAN]
\* algebraic laws of the equality definition, checked over all component vectors in {0,1}^8
Vecs == [Comps -> {0, 1}]
Zero == [c \in Comps |-> 0]
EqLaws ==
  /\ \A ig \in Flags : Equals(Zero, Zero, ig)                                                        \* reflexive
  /\ \A v \in Vecs, ig \in Flags : Equals(Zero, v, ig) = Equals(v, Zero, ig)                            \* symmetric
  /\ \A v \in Vecs, ig1, ig2 \in Flags :                                                             \* monotone in the ignore set
        ((\A f \in DOMAIN ig1 : ig1[f] => ig2[f]) /\ Equals(Zero, v, ig1)) => Equals(Zero, v, ig2)
ASSUME EqLaws
=============================================================================
