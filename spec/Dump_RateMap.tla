---------------------------- MODULE Dump_RateMap ----------------------------
(***************************************************************************)
(* X06, spec -> code.  Every well-formed map on the grid with what the     *)
(* specification says of it (integral at every tick, containing interval,  *)
(* known span) and every slice call (valid or not) with its outcome.       *)
(***************************************************************************)
EXTENDS RateMapOps, Json, IOUtils, TLC, SequencesExt
CONSTANTS L, Rates
VARIABLE done
Obs(x) == [pos |-> x.pos, rate |-> x.rate, cum |-> [t \in 1..(SL(x) + 1) |-> Cum(x, t - 1)],
           idx |-> [t \in 1..SL(x) |-> Idx(x, t - 1) - 1], kspan |-> KnownSpan(x)]
Call(x, l, r, trim) == LET o == SliceOutcome(x, l, r, trim) IN
  [l |-> l, r |-> r, trim |-> IF trim THEN 1 ELSE 0, out |-> o,
   res |-> IF o = "ok" THEN Obs(SliceMap(x, l, r, trim)) ELSE Obs(x)]
All == {[map |-> Obs(x), calls |-> SetToSeq({Call(x, l, r, t) : l \in 0..L, r \in 0..(L + 1), t \in BOOLEAN})] :
          x \in {y \in Maps(L, Rates) : WF(y)}}
Init == done = FALSE
Next == ~done /\ done' = TRUE /\ ndJsonSerialize(IOEnv.OUT, SetToSeq(All))
Spec == Init /\ [][Next]_done
=============================================================================
