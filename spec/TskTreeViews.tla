---------------------------- MODULE TskTreeViews ----------------------------
(***************************************************************************)
(* Every derived view of a marginal tree, defined from the parent map       *)
(* (C01): traversal orders (relative to the child order the tree reports),  *)
(* MRCA / depth / branch-length / descendant queries, lineage counts,       *)
(* leaves, per-tree sites and mutations, edge differences, edgesets.        *)
(***************************************************************************)
EXTENDS TreeCursor

\* kids: function node -> sequence of children (as reported); roots: sequence
RECURSIVE InFrom(_, _, _), InMap(_, _, _), Bfs(_, _, _)
InMap(kids, q, fuel) == IF q = <<>> THEN <<>> ELSE InFrom(kids, Head(q), fuel) \o InMap(kids, Tail(q), fuel)
InFrom(kids, u, fuel) ==
  IF fuel = 0 THEN <<u>> ELSE
  LET cs == kids[u]
      mid == Len(cs) \div 2
  IN InMap(kids, SubSeq(cs, 1, mid), fuel - 1) \o <<u>> \o InMap(kids, SubSeq(cs, mid + 1, Len(cs)), fuel - 1)
Bfs(kids, queue, fuel) == IF queue = <<>> \/ fuel = 0 THEN <<>>
                          ELSE <<Head(queue)>> \o Bfs(kids, Tail(queue) \o kids[Head(queue)], fuel - 1)
\* nodes reachable from a sequence of start nodes
ReachFrom(par, starts) == UNION {Desc(par, starts[i]) : i \in 1..Len(starts)}
TimeIdLess(ts, a, b) == TimeOf(ts, a) < TimeOf(ts, b) \/ (TimeOf(ts, a) = TimeOf(ts, b) /\ a < b)
TimeAsc(ts, S) == SetToSortSeq(S, LAMBDA a, b : TimeIdLess(ts, a, b))
\* minlex: children ordered by the smallest leaf id below them
RECURSIVE MinLeaf(_, _, _)
MinLeaf(par, u, fuel) == LET cs == ChildrenIn(par, u) IN
   IF cs = {} \/ fuel = 0 THEN u ELSE Min({MinLeaf(par, c, fuel - 1) : c \in cs})
RECURSIVE MinlexFrom(_, _, _), MinlexMap(_, _, _)
MinlexKids(par, S) == SetToSortSeq(S, LAMBDA a, b : MinLeaf(par, a, Cardinality(DOMAIN par)) < MinLeaf(par, b, Cardinality(DOMAIN par)))
MinlexMap(par, q, fuel) == IF q = <<>> THEN <<>> ELSE MinlexFrom(par, Head(q), fuel) \o MinlexMap(par, Tail(q), fuel)
MinlexFrom(par, u, fuel) == IF fuel = 0 THEN <<u>>
                            ELSE MinlexMap(par, MinlexKids(par, ChildrenIn(par, u)), fuel - 1) \o <<u>>

BranchLen(ts, par, u) == IF par[u] = NULL THEN 0 ELSE TimeOf(ts, par[u]) - TimeOf(ts, u)
SumOver(S, f(_)) == FoldSet(LAMBDA x, acc : acc + f(x), 0, S)
\* total branch length below the roots: every node reachable from a root contributes its branch
TotalBranchLen(ts, par, roots) == SumOver(UNION {Desc(par, r) : r \in roots}, LAMBDA u : BranchLen(ts, par, u))
NumLineages(ts, par, roots, t) ==
  Cardinality({v \in UNION {Desc(par, r) : r \in roots} :
                 par[v] # NULL /\ TimeOf(ts, v) <= t /\ t < TimeOf(ts, par[v])})
LeavesBelow(par, u) == {v \in Desc(par, u) : ChildrenIn(par, v) = {}}

MutsAtSites(ts, S) == {m \in 1..Len(ts.muts) : ts.muts[m].site + 1 \in S}

\* ---- balance indices (derived views of one tree; nodes of the tree = nodes reachable from its roots) -------------
TreeNodeSet(par, roots) == UNION {Desc(par, r) : r \in roots}
LeafSet(par, roots) == {u \in TreeNodeSet(par, roots) : ChildrenIn(par, u) = {}}
\* Sackin: sum of the depths of all leaves
Sackin(par, roots) == SumOver(LeafSet(par, roots), LAMBDA u : DepthOf(par, u))
\* Colless: defined for a single root and a strictly binary tree: sum over internal nodes of |leaves left - leaves right|
CollessDefined(par, roots) == Cardinality(roots) = 1 /\ \A u \in TreeNodeSet(par, roots) : Cardinality(ChildrenIn(par, u)) \in {0, 2}
NumLeavesBelow(par, u) == Cardinality({v \in Desc(par, u) : ChildrenIn(par, v) = {}})
Colless(par, roots) ==
  SumOver({u \in TreeNodeSet(par, roots) : ChildrenIn(par, u) # {}}, LAMBDA u :
     LET cs == SetToSortSeq(ChildrenIn(par, u), <) d == NumLeavesBelow(par, cs[1]) - NumLeavesBelow(par, cs[2]) IN IF d < 0 THEN -d ELSE d)
\* B1: sum over internal non-root nodes of 1 / (longest downward path to a leaf); as a fraction over a common denominator
RECURSIVE HeightIn(_, _, _)
HeightIn(par, u, fuel) == IF fuel = 0 \/ ChildrenIn(par, u) = {} THEN 0 ELSE 1 + Max({HeightIn(par, v, fuel - 1) : v \in ChildrenIn(par, u)})
HeightOf(par, u) == HeightIn(par, u, Cardinality(DOMAIN par))
B1Nodes(par, roots) == {u \in TreeNodeSet(par, roots) : par[u] # NULL /\ ChildrenIn(par, u) # {}}
FactV(m) == FoldSet(LAMBDA i, acc : acc * i, 1, 1..m)
RECURSIVE GcdV(_, _)
GcdV(a, b) == IF b = 0 THEN a ELSE GcdV(b, a % b)
B1OK(par, roots, obs) ==
  LET cden == FactV(Cardinality(DOMAIN par))      \* every height divides it
      cnum == SumOver(B1Nodes(par, roots), LAMBDA u : cden \div HeightOf(par, u))
      gg == GcdV(cnum, cden)
  IN obs[1] = cnum \div gg /\ obs[2] = cden \div gg
\* number of edges / total branch length on the path between two nodes (through their MRCA)
PathLen(par, u, v) == LET m == MRCAIn(par, u, v) IN DepthOf(par, u) + DepthOf(par, v) - 2 * DepthOf(par, m)
=============================================================================
