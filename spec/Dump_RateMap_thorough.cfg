CONSTANTS
  L = 5
  Rates = {0, 1, 3}
SPECIFICATION Spec
CHECK_DEADLOCK FALSE
