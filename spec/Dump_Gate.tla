------------------------------ MODULE Dump_Gate ------------------------------
(***************************************************************************)
(* C02, spec -> code.  For every seed table collection (valid ones, read    *)
(* from IOEnv.SEEDS) TLC enumerates every single-field departure: each      *)
(* field of each row of each table set to each boundary value, adjacent row *)
(* swaps and duplications, and user-supplied index corruptions; for each    *)
(* it evaluates Valid(tc) and names the broken requirement group.  The      *)
(* harness replays every element on the real gate.                          *)
(***************************************************************************)
EXTENDS TskTables, Json, IOUtils, TLC
VARIABLE done
Seeds == ndJsonDeserialize(IOEnv.SEEDS)

IdVals(n) == {-2, -1, 0, n - 1, n, n + 1}
CoordVals(tc) == (-1..(tc.L + 1)) \cup {NAN, UNK, PINF, NINF}
MaxTime(tc) == Max({0} \cup {tc.nodes[j].time : j \in Rows(tc.nodes)})
TimeVals(tc) == (-1..(MaxTime(tc) + 1)) \cup {NAN, UNK, PINF, NINF}
C(tc2, t, j, f, v) == [tc |-> tc2, what |-> <<t, j - 1, f, v>>]
SwapRows(q, j) == [q EXCEPT ![j] = q[j + 1], ![j + 1] = q[j]]
DupRow(q, j) == SubSeq(q, 1, j) \o <<q[j]>> \o SubSeq(q, j + 1, Len(q))
NoIdx(tc) == [tc EXCEPT !.hasidx = 0, !.ins = <<>>, !.rem = <<>>]

Corruptions(tc0) ==
  LET tc == NoIdx(tc0) IN
  {C(tc, "none", 1, "none", 0)}
  \cup {C([tc EXCEPT !.L = v], "L", 1, "L", v) : v \in {0, -1, tc.L - 1, NAN, PINF, NINF}}
  \cup UNION {{C([tc EXCEPT !.nodes[j].time = v], "nodes", j, "time", v) : v \in TimeVals(tc)} : j \in Rows(tc.nodes)}
  \cup UNION {{C([tc EXCEPT !.nodes[j].pop = v], "nodes", j, "population", v) : v \in IdVals(tc.npop)} : j \in Rows(tc.nodes)}
  \cup UNION {{C([tc EXCEPT !.nodes[j].ind = v], "nodes", j, "individual", v) : v \in IdVals(Len(tc.inds))} : j \in Rows(tc.nodes)}
  \cup UNION {{C([tc EXCEPT !.edges[j].left = v], "edges", j, "left", v) : v \in CoordVals(tc)} : j \in Rows(tc.edges)}
  \cup UNION {{C([tc EXCEPT !.edges[j].right = v], "edges", j, "right", v) : v \in CoordVals(tc)} : j \in Rows(tc.edges)}
  \cup UNION {{C([tc EXCEPT !.edges[j].parent = v], "edges", j, "parent", v) : v \in IdVals(Len(tc.nodes)) \cup (0..(Len(tc.nodes) - 1))} : j \in Rows(tc.edges)}
  \cup UNION {{C([tc EXCEPT !.edges[j].child = v], "edges", j, "child", v) : v \in IdVals(Len(tc.nodes)) \cup (0..(Len(tc.nodes) - 1))} : j \in Rows(tc.edges)}
  \cup UNION {{C([tc EXCEPT !.sites[j].pos = v], "sites", j, "position", v) : v \in CoordVals(tc)} : j \in Rows(tc.sites)}
  \cup UNION {{C([tc EXCEPT !.muts[j].site = v], "mutations", j, "site", v) : v \in IdVals(Len(tc.sites))} : j \in Rows(tc.muts)}
  \cup UNION {{C([tc EXCEPT !.muts[j].node = v], "mutations", j, "node", v) : v \in IdVals(Len(tc.nodes)) \cup (0..(Len(tc.nodes) - 1))} : j \in Rows(tc.muts)}
  \cup UNION {{C([tc EXCEPT !.muts[j].parent = v], "mutations", j, "parent", v) : v \in IdVals(Len(tc.muts)) \cup {j - 1, j - 2, j}} : j \in Rows(tc.muts)}
  \cup UNION {{C([tc EXCEPT !.muts[j].time = v], "mutations", j, "time", v) : v \in TimeVals(tc)} : j \in Rows(tc.muts)}
  \cup UNION {{C([tc EXCEPT !.migs[j].left = v], "migrations", j, "left", v) : v \in CoordVals(tc)} : j \in Rows(tc.migs)}
  \cup UNION {{C([tc EXCEPT !.migs[j].right = v], "migrations", j, "right", v) : v \in CoordVals(tc)} : j \in Rows(tc.migs)}
  \cup UNION {{C([tc EXCEPT !.migs[j].node = v], "migrations", j, "node", v) : v \in IdVals(Len(tc.nodes))} : j \in Rows(tc.migs)}
  \cup UNION {{C([tc EXCEPT !.migs[j].source = v], "migrations", j, "source", v) : v \in IdVals(tc.npop)} : j \in Rows(tc.migs)}
  \cup UNION {{C([tc EXCEPT !.migs[j].dest = v], "migrations", j, "dest", v) : v \in IdVals(tc.npop)} : j \in Rows(tc.migs)}
  \cup UNION {{C([tc EXCEPT !.migs[j].time = v], "migrations", j, "time", v) : v \in TimeVals(tc)} : j \in Rows(tc.migs)}
  \cup UNION {{C([tc EXCEPT !.inds[j].parents = <<v>>], "individuals", j, "parents", v) : v \in IdVals(Len(tc.inds)) \cup {j - 1}} : j \in Rows(tc.inds)}
  \* row swaps and duplications
  \cup {C([tc EXCEPT !.edges = SwapRows(tc.edges, j)], "edges", j, "swap", 0) : j \in 1..(Len(tc.edges) - 1)}
  \cup {C([tc EXCEPT !.edges = DupRow(tc.edges, j)], "edges", j, "dup", 0) : j \in Rows(tc.edges)}
  \cup {C([tc EXCEPT !.sites = SwapRows(tc.sites, j)], "sites", j, "swap", 0) : j \in 1..(Len(tc.sites) - 1)}
  \cup {C([tc EXCEPT !.muts = SwapRows(tc.muts, j)], "mutations", j, "swap", 0) : j \in 1..(Len(tc.muts) - 1)}
  \cup {C([tc EXCEPT !.migs = SwapRows(tc.migs, j)], "migrations", j, "swap", 0) : j \in 1..(Len(tc.migs) - 1)}
  \* user-supplied indexes: the built one, with adjacent entries swapped, an entry duplicated,
  \* an entry out of range
  \cup {C(tc0, "index", 1, "asbuilt", 0)}
  \cup {C([tc0 EXCEPT !.ins = SwapRows(tc0.ins, j)], "index", j, "ins_swap", 0) : j \in 1..(Len(tc0.ins) - 1)}
  \cup {C([tc0 EXCEPT !.rem = SwapRows(tc0.rem, j)], "index", j, "rem_swap", 0) : j \in 1..(Len(tc0.rem) - 1)}
  \cup {C([tc0 EXCEPT !.ins[j] = tc0.ins[1]], "index", j, "ins_dup", 0) : j \in 2..Len(tc0.ins)}
  \* a removal order that names one edge twice and another never - also among the edges that end at the sequence length, which are
  \* never "removed" by a left-to-right sweep
  \cup {C([tc0 EXCEPT !.rem[j] = tc0.rem[1]], "index", j, "rem_dup", 0) : j \in 2..Len(tc0.rem)}
  \cup {C([tc0 EXCEPT !.rem[j] = tc0.rem[j - 1]], "index", j, "rem_dup_prev", 0) : j \in 2..Len(tc0.rem)}
  \cup UNION {{C([tc0 EXCEPT !.rem[j] = v], "index", j, "rem_oob", v) : v \in {-1, Len(tc0.edges)}} : j \in Rows(tc0.rem)}
  \cup UNION {{C([tc0 EXCEPT !.ins[j] = v], "index", j, "ins_oob", v) : v \in {-1, Len(tc0.edges)}} : j \in Rows(tc0.ins)}

All == UNION {{[seed |-> s, tc |-> c.tc, what |-> c.what, valid |-> IF Valid(c.tc) THEN 1 ELSE 0, broken |-> Broken(c.tc)] :
                 c \in Corruptions(Seeds[s])} : s \in 1..Len(Seeds)}
Init == done = FALSE
Next == ~done /\ done' = TRUE /\ ndJsonSerialize(IOEnv.OUT, SetToSeq(All))
Spec == Init /\ [][Next]_done
=============================================================================
