CONSTANTS
  NumItems = 3
  NumThreads = 5
SPECIFICATION Spec
INVARIANT CombinedIsSequential
INVARIANT ChunkingOK
PROPERTY Termination
