-------------------------------- MODULE Fanout --------------------------------
(***************************************************************************)
(* C08 (schedules): the thread fan-out / combine protocol used by            *)
(* divergence_matrix (by window / by tree) and genealogical_nearest_          *)
(* neighbours: the work is cut into chunks by the numpy.array_split rule,     *)
(* each worker thread takes a chunk, computes its part and stores it at the   *)
(* chunk's index; the main thread waits for all of them and combines the      *)
(* parts *in chunk order* (vstack or sum).  Whatever the interleaving, the    *)
(* combined result equals the sequential one.                                 *)
(***************************************************************************)
EXTENDS Integers, Sequences, FiniteSets, TLC
CONSTANTS NumItems, NumThreads
\* numpy.array_split(range(n), k): the first n mod k parts have ceil(n/k) items, the others floor(n/k)
PartSize(n, k, j) == (n \div k) + (IF j <= n % k THEN 1 ELSE 0)
RECURSIVE PartStart(_, _, _)
PartStart(n, k, j) == IF j = 1 THEN 1 ELSE PartStart(n, k, j - 1) + PartSize(n, k, j - 1)
ArraySplit(n, k) == [j \in 1..k |-> [i \in 1..PartSize(n, k, j) |-> PartStart(n, k, j) + i - 1]]
\* _chunk_windows(windows, num_chunks): windows = breakpoints b_0..b_n (n windows)
NumChunks(n, t) == IF t < n THEN t ELSE n
ChunkItems(n, t) == ArraySplit(n, NumChunks(n, t))
\* each chunk j covers the windows ChunkItems[j]; as breakpoints: first item's left .. last item's right
ChunksOK(n, t) == LET c == ChunkItems(n, t) IN
   /\ Len(c) = NumChunks(n, t)
   /\ \A j \in 1..Len(c) : Len(c[j]) >= 1
   /\ c[1][1] = 1 /\ c[Len(c)][Len(c[Len(c)])] = n
   /\ \A j \in 1..(Len(c) - 1) : c[j][Len(c[j])] + 1 = c[j + 1][1]
   /\ \A j \in 1..Len(c) : \A i \in 1..(Len(c[j]) - 1) : c[j][i] + 1 = c[j][i + 1]

(*--algorithm fanout
variables chunks = ChunkItems(NumItems, NumThreads),
          next_chunk = 1,                      \* work queue of the thread pool
          results = [j \in 1..Len(chunks) |-> <<>>],
          finished = 0,
          combined = <<>>;
define
  Work(item) == item * item + 1                 \* any deterministic per-item computation
  Sequential == [i \in 1..NumItems |-> Work(i)]
end define;
fair process worker \in 1..NumThreads
variable mine = 0;
begin
Take:
  while next_chunk <= Len(chunks) do
    mine := next_chunk;
    next_chunk := next_chunk + 1;
Compute:
    results[mine] := [i \in 1..Len(chunks[mine]) |-> Work(chunks[mine][i])];
Fin:
    finished := finished + 1;
  end while;
end process;
fair process main = 0
variable cj = 1;
begin
Wait:
  await finished = Len(chunks);
Combine:
  while cj <= Len(chunks) do
    combined := combined \o results[cj];
    cj := cj + 1;
  end while;
end process;
end algorithm; *)
\* BEGIN TRANSLATION
VARIABLES pc, chunks, next_chunk, results, finished, combined

(* define statement *)
Work(item) == item * item + 1
Sequential == [i \in 1..NumItems |-> Work(i)]

VARIABLES mine, cj

vars == << pc, chunks, next_chunk, results, finished, combined, mine, cj >>

ProcSet == (1..NumThreads) \cup {0}

Init == (* Global variables *)
        /\ chunks = ChunkItems(NumItems, NumThreads)
        /\ next_chunk = 1
        /\ results = [j \in 1..Len(chunks) |-> <<>>]
        /\ finished = 0
        /\ combined = <<>>
        (* Process worker *)
        /\ mine = [self \in 1..NumThreads |-> 0]
        (* Process main *)
        /\ cj = 1
        /\ pc = [self \in ProcSet |-> CASE self \in 1..NumThreads -> "Take"
                                        [] self = 0 -> "Wait"]

Take(self) == /\ pc[self] = "Take"
              /\ IF next_chunk <= Len(chunks)
                    THEN /\ mine' = [mine EXCEPT ![self] = next_chunk]
                         /\ next_chunk' = next_chunk + 1
                         /\ pc' = [pc EXCEPT ![self] = "Compute"]
                    ELSE /\ pc' = [pc EXCEPT ![self] = "Done"]
                         /\ UNCHANGED << next_chunk, mine >>
              /\ UNCHANGED << chunks, results, finished, combined, cj >>

Compute(self) == /\ pc[self] = "Compute"
                 /\ results' = [results EXCEPT ![mine[self]] = [i \in 1..Len(chunks[mine[self]]) |-> Work(chunks[mine[self]][i])]]
                 /\ pc' = [pc EXCEPT ![self] = "Fin"]
                 /\ UNCHANGED << chunks, next_chunk, finished, combined, mine, 
                                 cj >>

Fin(self) == /\ pc[self] = "Fin"
             /\ finished' = finished + 1
             /\ pc' = [pc EXCEPT ![self] = "Take"]
             /\ UNCHANGED << chunks, next_chunk, results, combined, mine, cj >>

worker(self) == Take(self) \/ Compute(self) \/ Fin(self)

Wait == /\ pc[0] = "Wait"
        /\ finished = Len(chunks)
        /\ pc' = [pc EXCEPT ![0] = "Combine"]
        /\ UNCHANGED << chunks, next_chunk, results, finished, combined, mine, 
                        cj >>

Combine == /\ pc[0] = "Combine"
           /\ IF cj <= Len(chunks)
                 THEN /\ combined' = combined \o results[cj]
                      /\ cj' = cj + 1
                      /\ pc' = [pc EXCEPT ![0] = "Combine"]
                 ELSE /\ pc' = [pc EXCEPT ![0] = "Done"]
                      /\ UNCHANGED << combined, cj >>
           /\ UNCHANGED << chunks, next_chunk, results, finished, mine >>

main == Wait \/ Combine

(* Allow infinite stuttering to prevent deadlock on termination. *)
Terminating == /\ \A self \in ProcSet: pc[self] = "Done"
               /\ UNCHANGED vars

Next == main
           \/ (\E self \in 1..NumThreads: worker(self))
           \/ Terminating

Spec == /\ Init /\ [][Next]_vars
        /\ \A self \in 1..NumThreads : WF_vars(worker(self))
        /\ WF_vars(main)

Termination == <>(\A self \in ProcSet: pc[self] = "Done")

\* END TRANSLATION
CombinedIsSequential == (pc[0] = "Done") => combined = Sequential
ChunkingOK == ChunksOK(NumItems, NumThreads)
=============================================================================
