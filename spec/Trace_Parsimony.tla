---------------------------- MODULE Trace_Parsimony ----------------------------
(* C20, code -> spec: recorded Tree.map_mutations calls validated against the      *)
(* brute-force definition.                                                         *)
EXTENDS Parsimony, Json, IOUtils, TLC
Cases == ndJsonDeserialize(IOEnv.CASES)
VARIABLE k
Fails(c) ==
  LET N == Len(c.parent)
      nodes == ToSet(c.nodes)
      par == [u \in 0..(N - 1) |-> c.parent[u + 1]]
      obs == [u \in ToSet(c.samples) |-> c.genotypes[CHOOSE i \in 1..Len(c.samples) : c.samples[i] = u]]
      fixed == c.fixed
      muts == c.muts
      state(u) == StateFrom(par, c.anc, muts, u, N)
      best == MinCost(nodes, par, obs, c.A, fixed)
  IN {cl \in {"reproduces", "minimal", "fixed_ancestral", "parent_before_child", "parents", "oldest_of_unary_chain", "in_tree"} :
      ~ CASE cl = "reproduces" -> \A u \in nodes \cap DOMAIN obs : obs[u] = MISSING \/ state(u) = obs[u]
          [] cl = "minimal" -> Len(muts) = best
          [] cl = "fixed_ancestral" -> fixed = NULL \/ c.anc = fixed
          [] cl = "in_tree" -> \A i \in 1..Len(muts) : muts[i].node \in nodes /\ muts[i].der \in 0..(c.A - 1)
          [] cl = "parent_before_child" -> \A i \in 1..Len(muts) : muts[i].parent < i - 1
          [] cl = "parents" -> \A i \in 1..Len(muts) : muts[i].parent = MutParent(par, muts, i, N)
          [] cl = "oldest_of_unary_chain" ->
                \* a mutation never sits below a unary node that could carry it: its node's parent is not a
                \* node with exactly one child whose own state is unconstrained by an observation
                \A i \in 1..Len(muts) : LET u == muts[i].node p == par[u] IN
                    p = NULL \/ Cardinality(ChildrenOf(nodes, par, p)) # 1 \/ (p \in DOMAIN obs /\ obs[p] # MISSING)
                    \/ \E q \in 1..Len(muts) : muts[q].node = p
     }
\* wide trees: the minimum is known in closed form; that the returned placement reproduces the data is evaluated by the harness
WideFails(c) ==
  {cl \in {"wide_minimal", "wide_reproduces", "wide_fixed_ancestral"} :
     ~ CASE cl = "wide_minimal" -> c.nmuts = (IF c.shape = "star" THEN StarMin(c.counts, c.fixed) ELSE ForestMin(c.counts, c.fixed))
         [] cl = "wide_reproduces" -> c.reproduces = 1
         [] cl = "wide_fixed_ancestral" -> c.fixed = -1 \/ c.anc = c.fixed}
AllFails(c) == IF "shape" \in DOMAIN c THEN WideFails(c) ELSE Fails(c)
Init == k = 0
Next == k < Len(Cases) /\ k' = k + 1
Spec == Init /\ [][Next]_k
Report == k = 0 \/ PrintT(<<"V", Cases[k].id, AllFails(Cases[k])>>)
=============================================================================
