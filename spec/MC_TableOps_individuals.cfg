CONSTANTS
  Cls = "individuals"
  MaxRows = 3
  Depth = 4
  Emit = FALSE
SPECIFICATION Spec
CHECK_DEADLOCK FALSE
