---------------------------- MODULE Dump_Universe ----------------------------
(* spec -> code: TLC enumerates the small-scope universe of node/edge tables   *)
(* and writes it as ndjson; the harness replays every element into the real    *)
(* library (and the resulting observations are validated by the Trace_* specs).*)
EXTENDS Universe, Json, IOUtils
VARIABLE done
TimeVecsQ == {<<0,0,1,2>>}
FlagVecsQ == {<<1,1,0,0>>, <<0,1,1,0>>}
TimeVecsT == {<<0,0,1,2>>, <<0,1,1,2>>, <<0,0,1,1>>}
FlagVecsT == {<<1,1,0,0>>, <<1,1,1,0>>, <<0,1,0,1>>}
TimeVecsS == {<<0,0,1,2>>, <<0,1,2,3>>}
FlagVecsS == {<<1,1,0,0>>, <<1,1,1,0>>, <<1,1,1,1>>, <<1,0,1,1>>}
TimeVecs5 == {<<0,0,0,1,2>>, <<0,0,1,1,2>>}
FlagVecs5 == {<<1,1,1,0,0>>, <<1,1,0,1,0>>}
Init == done = FALSE
Next == ~done /\ done' = TRUE /\ ndJsonSerialize(IOEnv.OUT, SetToSeq(AllTs))
Spec == Init /\ [][Next]_done
=============================================================================
