------------------------------- MODULE Dump_Api -------------------------------
EXTENDS ApiBounds, Json, IOUtils
VARIABLE done
Dims == JsonDeserialize(IOEnv.DIMS)
Auto == JsonDeserialize(IOEnv.AUTO)      \* <<name, kind>> pairs discovered from the implementation's signatures
All == Programs(Dims) \cup AutoPrograms(Dims, Auto) \cup ColumnPrograms
Init == done = FALSE
Next == ~done /\ done' = TRUE /\ ndJsonSerialize(IOEnv.OUT, SetToSeq(All))
Spec == Init /\ [][Next]_done
=============================================================================
