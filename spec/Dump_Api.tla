------------------------------- MODULE Dump_Api -------------------------------
EXTENDS ApiBounds, Json, IOUtils
VARIABLE done
Dims == JsonDeserialize(IOEnv.DIMS)
Init == done = FALSE
Next == ~done /\ done' = TRUE /\ ndJsonSerialize(IOEnv.OUT, SetToSeq(Programs(Dims)))
Spec == Init /\ [][Next]_done
=============================================================================
