CONSTANT Deep = TRUE
SPECIFICATION Spec
CHECK_DEADLOCK FALSE
