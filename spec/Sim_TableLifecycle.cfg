CONSTANTS
  MaxSteps = 10
  Emit = TRUE
SPECIFICATION Spec
INVARIANT EmitHist
CHECK_DEADLOCK FALSE
