CONSTANTS
  NumNodesC = 5
  LC = 2
  MaxEdges = 4
  TimeVecs <- TimeVecs5
  FlagVecs <- FlagVecs5
SPECIFICATION Spec
CHECK_DEADLOCK FALSE
