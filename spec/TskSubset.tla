------------------------------ MODULE TskSubset ------------------------------
(***************************************************************************)
(* C14: subset(nodes) and union(other, node_mapping) as relations on tagged  *)
(* tables.                                                                    *)
(***************************************************************************)
EXTENDS TskEdits
IndexIn(q, v) == CHOOSE i \in 1..Len(q) : q[i] = v            \* position of v in a duplicate-free sequence
InSeq(q, v) == \E i \in 1..Len(q) : q[i] = v
\* distinct non-NULL values of f over the listed nodes, in order of first appearance
RECURSIVE FirstSeen(_, _)
FirstSeen(q, seen) == IF q = <<>> THEN <<>>
                      ELSE IF Head(q) = NULL \/ Head(q) \in seen THEN FirstSeen(Tail(q), seen)
                      ELSE <<Head(q)>> \o FirstSeen(Tail(q), seen \cup {Head(q)})
SubsetRel(a, nodes, ro, ru, b) ==
  LET n == Len(nodes)
      nm(u) == IndexIn(nodes, u) - 1
      keptE == {e \in ToSet(a.edges) : InSeq(nodes, e.parent) /\ InSeq(nodes, e.child)}
      keptM == SelectSeq([q \in 1..Len(a.muts) |-> q], LAMBDA q : InSeq(nodes, a.muts[q].node))
      keptSites == IF ru THEN {a.muts[keptM[i]].site + 1 : i \in 1..Len(keptM)} ELSE 1..Len(a.sites)
      indSeen == FirstSeen([i \in 1..n |-> a.ind_tag[nodes[i] + 1]], {})
      popSeen == FirstSeen([i \in 1..n |-> a.pop_tag[nodes[i] + 1]], {})
      rest(all, seen) == SelectSeq(all, LAMBDA tg : ~InSeq(seen, tg))
      parentTag(m) == IF m.parent = NULL THEN NULL
                      ELSE IF InSeq(nodes, a.muts[m.parent + 1].node) THEN a.muts[m.parent + 1].tag ELSE NULL
  IN
  {cl \in {"L", "nodes", "edges", "mutations", "sites", "individuals", "populations", "individual_parents"} :
    ~ CASE cl = "L" -> a.L = b.L
        \* a retained individual keeps its parents (expressed through the rows' tags), in order; references
        \* to individuals that are not retained are dropped from the list (NULL entries stay)
        [] cl = "individual_parents" -> \A i \in 1..Len(b.ind_rows) :
              LET j == CHOOSE q \in 1..Len(a.ind_rows) : a.ind_rows[q] = b.ind_rows[i] IN
              b.ind_parent_tags[i] = SelectSeq(a.ind_parent_tags[j], LAMBDA tg : tg = NULL \/ InSeq(b.ind_rows, tg))
        [] cl = "nodes" -> /\ NumNodes(b) = n
                           /\ \A i \in 1..n : LET u == nodes[i] IN
                                 /\ b.node_tag[i] = a.node_tag[u + 1] /\ b.time[i] = a.time[u + 1] /\ b.rawflags[i] = a.rawflags[u + 1]
                                 /\ b.ind_tag[i] = a.ind_tag[u + 1] /\ b.pop_tag[i] = a.pop_tag[u + 1]
        [] cl = "edges" -> /\ Len(b.edges) = Cardinality(keptE)
                           /\ Bag(b.edges, EdgeRow) = {<<e.left, e.right, nm(e.parent), nm(e.child), e.tag>> : e \in keptE}
        [] cl = "mutations" -> /\ Len(b.muts) = Len(keptM)
                               /\ {MutRow(b, b.muts[i]) : i \in 1..Len(b.muts)}
                                  = {LET m == a.muts[keptM[i]] IN <<a.sites[m.site + 1].tag, nm(m.node), m.der, parentTag(m), m.time, m.tag>> : i \in 1..Len(keptM)}
        [] cl = "sites" -> AllSiteRows(b) = SiteRowsKept(a, keptSites)
        \* (the order of individual rows is not part of the property: exactly the referenced rows, any order)
        [] cl = "individuals" -> IF ru THEN ToSet(b.ind_rows) = ToSet(indSeen) /\ Len(b.ind_rows) = Len(indSeen)
                                 ELSE ToSet(b.ind_rows) = ToSet(a.ind_rows) /\ Len(b.ind_rows) = Len(a.ind_rows)
        [] cl = "populations" -> IF ~ro THEN b.pop_rows = a.pop_rows
                                 ELSE IF ru THEN b.pop_rows = popSeen
                                 ELSE ToSet(b.pop_rows) = ToSet(a.pop_rows) /\ Len(b.pop_rows) = Len(a.pop_rows)
  }
\* union: o is the other collection, mp its node mapping (NULL = new to a)
UnionRel(a, o, mp, addpop, b) ==
  LET newq == SelectSeq([j \in 1..NumNodes(o) |-> j - 1], LAMBDA j : mp[j + 1] = NULL)
      nm(j) == IF mp[j + 1] # NULL THEN mp[j + 1] ELSE NumNodes(a) + IndexIn(newq, j) - 1
      isNew(j) == mp[j + 1] = NULL
      addE == {e \in ToSet(o.edges) : isNew(e.parent) \/ isNew(e.child)}
      addM == {q \in 1..Len(o.muts) : isNew(o.muts[q].node)}
      oldPos == {a.sites[i].pos : i \in 1..Len(a.sites)}
      addSitePos == {o.sites[o.muts[q].site + 1].pos : q \in addM} \ oldPos
      \* an individual of `other` referenced by a shared node is the same individual as in `self`
      sharedVia(I) == {kk \in 0..(NumNodes(o) - 1) : mp[kk + 1] # NULL /\ o.ind[kk + 1] = I}
      newIndTag(j) == LET I == o.ind[j + 1] IN
                      IF I = NULL THEN NULL
                      ELSE IF sharedVia(I) # {} THEN a.ind_tag[mp[(CHOOSE kk \in sharedVia(I) : TRUE) + 1] + 1]
                      ELSE o.ind_tag[j + 1]
      addedInds == {o.ind_tag[newq[i] + 1] : i \in {q \in 1..Len(newq) : o.ind[newq[q] + 1] # NULL /\ sharedVia(o.ind[newq[q] + 1]) = {}}}
  IN
  {cl \in {"L", "nodes", "edges", "mutation_rows", "site_positions", "individuals", "populations", "individual_parents"} :
    ~ CASE cl = "L" -> a.L = b.L
        \* individuals already in self keep their parents; an added individual brings the parents it has in
        \* other, where a parent that is shared (referenced by a mapped node) is the corresponding individual of self
        [] cl = "individual_parents" ->
              /\ \A i \in 1..Len(a.ind_rows) : b.ind_parent_tags[i] = a.ind_parent_tags[i]
              /\ \A i \in (Len(a.ind_rows) + 1)..Len(b.ind_rows) :
                    LET j == CHOOSE q \in 1..Len(o.ind_rows) : o.ind_rows[q] = b.ind_rows[i] IN
                    Len(b.ind_parent_tags[i]) = Len(o.ind_parents[j]) /\
                    \A q \in 1..Len(o.ind_parents[j]) : LET P == o.ind_parents[j][q] IN
                        b.ind_parent_tags[i][q] = (IF P = NULL THEN NULL
                                                  ELSE IF sharedVia(P) # {} THEN a.ind_tag[mp[(CHOOSE kk \in sharedVia(P) : TRUE) + 1] + 1]
                                                  ELSE o.ind_rows[P + 1])
        [] cl = "nodes" -> /\ NumNodes(b) = NumNodes(a) + Len(newq)
                           /\ \A u \in NodesOf(a) : b.node_tag[u + 1] = a.node_tag[u + 1] /\ b.time[u + 1] = a.time[u + 1]
                                                    /\ b.rawflags[u + 1] = a.rawflags[u + 1] /\ b.ind_tag[u + 1] = a.ind_tag[u + 1]
                                                    /\ b.pop_tag[u + 1] = a.pop_tag[u + 1]
                           /\ \A i \in 1..Len(newq) : LET j == newq[i] q == NumNodes(a) + i IN
                                 /\ b.node_tag[q] = o.node_tag[j + 1] /\ b.time[q] = o.time[j + 1] /\ b.rawflags[q] = o.rawflags[j + 1]
                                 /\ b.ind_tag[q] = newIndTag(j)
                                 /\ (addpop => b.pop_tag[q] = o.pop_tag[j + 1])
        [] cl = "edges" -> /\ Len(b.edges) = Len(a.edges) + Cardinality(addE)
                           /\ Bag(b.edges, EdgeRow) = Bag(a.edges, EdgeRow) \cup {<<e.left, e.right, nm(e.parent), nm(e.child), e.tag>> : e \in addE}
        [] cl = "mutation_rows" -> /\ Len(b.muts) = Len(a.muts) + Cardinality(addM)
                                   /\ {<<b.sites[m.site + 1].pos, m.node, m.der, m.tag>> : m \in ToSet(b.muts)}
                                      = {<<a.sites[m.site + 1].pos, m.node, m.der, m.tag>> : m \in ToSet(a.muts)}
                                        \cup {<<o.sites[o.muts[q].site + 1].pos, nm(o.muts[q].node), o.muts[q].der, o.muts[q].tag>> : q \in addM}
        [] cl = "site_positions" -> {b.sites[i].pos : i \in 1..Len(b.sites)} = oldPos \cup addSitePos /\ Len(b.sites) = Cardinality(oldPos \cup addSitePos)
        [] cl = "individuals" -> /\ SubSeq(b.ind_rows, 1, Len(a.ind_rows)) = a.ind_rows
                                 /\ ToSet(SubSeq(b.ind_rows, Len(a.ind_rows) + 1, Len(b.ind_rows))) = addedInds
                                 /\ Len(b.ind_rows) = Len(a.ind_rows) + Cardinality(addedInds)
        [] cl = "populations" -> /\ SubSeq(b.pop_rows, 1, Len(a.pop_rows)) = a.pop_rows
                                 /\ (addpop => ToSet(SubSeq(b.pop_rows, Len(a.pop_rows) + 1, Len(b.pop_rows))) = {o.pop_tag[newq[i] + 1] : i \in 1..Len(newq)} \ {NULL})
                                 /\ (~addpop => Len(b.pop_rows) = Len(a.pop_rows))
  }
=============================================================================
