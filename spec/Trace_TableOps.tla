---------------------------- MODULE Trace_TableOps ----------------------------
(* C13, code -> spec: recorded histories of row / column operations on real     *)
(* tskit tables of all eight classes; after every call the full table content,   *)
(* the success flag and the return value must equal the model's.                 *)
EXTENDS TableOps, Json, IOUtils
Cases == ndJsonDeserialize(IOEnv.CASES)
VARIABLES k, j, rows, bad
vars == <<k, j, rows, bad>>
C == Cases[k]
StepFails(cls, r, ev) ==
    (IF (ev.ok = 1) # r.ok THEN {IF r.ok THEN "rejected_legal_op_" \o ev.op ELSE "accepted_illegal_op_" \o ev.op} ELSE {})
    \cup (IF ev.ok = -1 THEN {"unexpected_exception_type_in_" \o ev.op} ELSE {})
    \cup (IF ev.after # r.rows THEN {"content_after_" \o ev.op} ELSE {})
    \cup (IF r.ok /\ ev.ok = 1 /\ ev.op \in {"add_row", "append", "keep_rows", "slice", "mask", "ids", "getitem"} /\ ev.ret # r.ret
          THEN {"return_of_" \o ev.op} ELSE {})
Init == k = 1 /\ j = 0 /\ rows = <<>> /\ bad = {}
Step == /\ j < Len(C.ops)
        /\ LET ev == C.ops[j + 1]
               r == Apply(C.cls, rows, ev)
           IN rows' = r.rows /\ bad' = bad \cup StepFails(C.cls, r, ev)
        /\ j' = j + 1 /\ k' = k
NextCase == j = Len(C.ops) /\ k < Len(Cases) /\ k' = k + 1 /\ j' = 0 /\ rows' = <<>> /\ bad' = {}
Next == Step \/ NextCase
Spec == Init /\ [][Next]_vars
Report == j < Len(C.ops) \/ PrintT(<<"V", C.id, bad>>)
=============================================================================
