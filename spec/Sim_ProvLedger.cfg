CONSTANTS
  MaxSteps = 8
  Emit = TRUE
SPECIFICATION Spec
INVARIANT EmitHist
CHECK_DEADLOCK FALSE
