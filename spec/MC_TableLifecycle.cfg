CONSTANTS
  MaxSteps = 6
  Emit = FALSE
SPECIFICATION Spec
INVARIANT TypeOK
INVARIANT IndexOverSorted
PROPERTY WholesaleDropsIndex
PROPERTY BuildIsFresh
CHECK_DEADLOCK FALSE
