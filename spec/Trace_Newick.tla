------------------------------ MODULE Trace_Newick ------------------------------
(* C18, code -> spec: tokenised Newick strings (fast C path and general Python path, *)
(* any root, any precision, default / custom / no labels, with / without branch      *)
(* lengths), the TREES / TAXA / DATA blocks of Nexus output and FASTA output.        *)
EXTENDS Exports, Json, IOUtils
Cases == ndJsonDeserialize(IOEnv.CASES)
VARIABLE k
\* the tree at cell x as the real Tree reported its child order
KidsFn(tr, n) == [u \in 0..(n - 1) |-> tr.kids[u + 1]]
NewickFails(c, tr, nw) ==
  LET ts == c.ts
      par == ParentAt(ts, tr.x)
      kids == KidsFn(tr, NumNodes(ts))
      lab == IF nw.labels = "default" THEN [u \in SamplesOf(ts) |-> u]
             ELSE IF nw.labels = "custom" THEN [u \in ToSet(nw.labelled) |-> 1000 + u]
             ELSE [u \in {} |-> 0]
      exp == NewickExpected(ts, par, kids, nw.root, lab, nw.withlen = 1)
      got == nw.pre
  IN {cl \in {"kids_are_children", "raised", "shape", "labels", "lengths", "decimals", "length_values_close"} :
      ~ CASE cl = "kids_are_children" -> \A u \in NodesOf(ts) : ToSet(kids[u]) = ChildrenIn(par, u) /\ Len(kids[u]) = Cardinality(ChildrenIn(par, u))
          [] cl = "raised" -> nw.raised = 0
          [] cl = "shape" -> nw.raised = 1 \/ (Len(got) = Len(exp) /\ \A i \in 1..Len(exp) : got[i][4] = exp[i][3])
          [] cl = "labels" -> nw.raised = 1 \/ Len(got) # Len(exp) \/ \A i \in 1..Len(exp) : got[i][1] = exp[i][1]
          [] cl = "lengths" -> nw.raised = 1 \/ Len(got) # Len(exp) \/ \A i \in 1..Len(exp) :
                                 IF exp[i][2] = NOLEN THEN got[i][2] = NOLEN
                                 ELSE got[i][2] = -888888 \/ got[i][2] = exp[i][2]      \* -888888: not exactly recoverable at this precision
          [] cl = "decimals" -> nw.raised = 1 \/ Len(got) # Len(exp) \/ \A i \in 1..Len(exp) : exp[i][2] = NOLEN \/ got[i][3] = nw.prec_effective
          [] cl = "length_values_close" -> nw.raised = 1 \/ nw.close = 1
     }
Fails(c) ==
  UNION {UNION {NewickFails(c, c.trees[i], c.trees[i].newicks[j]) : j \in 1..Len(c.trees[i].newicks)} : i \in 1..Len(c.trees)}
  \cup {cl \in {"nexus_trees", "nexus_taxa", "nexus_same_newick", "nexus_data", "fasta"} :
      ~ CASE cl = "nexus_trees" -> c.nexus.skip = 1 \/
                (/\ Len(c.nexus.intervals) = NumTrees(c.ts)
                 /\ \A i \in 1..NumTrees(c.ts) : c.nexus.intervals[i] = <<BPSeq(c.ts)[i], BPSeq(c.ts)[i + 1]>>)
          [] cl = "nexus_taxa" -> c.nexus.skip = 1 \/ c.nexus.taxa = SampleSeq(c.ts)
          [] cl = "nexus_same_newick" -> c.nexus.skip = 1 \/ c.nexus.same_newick = 1
          [] cl = "nexus_data" -> c.nexus.skip = 1 \/ c.nexus.data_ok = 1
          [] cl = "fasta" -> c.fasta.skip = 1 \/ (c.fasta.names = SampleSeq(c.ts) /\ c.fasta.seqs_ok = 1 /\ c.fasta.wrap_ok = 1)
     }
Init == k = 0
Next == k < Len(Cases) /\ k' = k + 1
Spec == Init /\ [][Next]_k
Report == k = 0 \/ PrintT(<<"V", Cases[k].id, Fails(Cases[k])>>)
=============================================================================
