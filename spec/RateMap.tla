------------------------------ MODULE RateMap ------------------------------
(***************************************************************************)
(* X06.  A chain of RateMap.slice calls as a state machine: m is the map   *)
(* in hand, last the call that produced it.  TLC enumerates every          *)
(* well-formed map on the grid and every chain of <= Depth slices.         *)
(***************************************************************************)
EXTENDS RateMapOps
CONSTANTS L, Rates, Depth
VARIABLES m, last, d
vars == <<m, last, d>>
None == [src |-> <<>>, l |-> 0, r |-> 0, trim |-> FALSE, out |-> "none"]
Init == m \in {x \in Maps(L, Rates) : WF(x)} /\ last = None /\ d = 0
Slice(l, r, trim) ==
  /\ d < Depth
  /\ d' = d + 1
  /\ LET o == SliceOutcome(m, l, r, trim) IN
     /\ last' = [src |-> m, l |-> l, r |-> r, trim |-> trim, out |-> o]
     /\ m' = IF o = "ok" THEN SliceMap(m, l, r, trim) ELSE m
Next == \E l \in 0..L, r \in 0..(L + 1), trim \in BOOLEAN : Slice(l, r, trim)
Spec == Init /\ [][Next]_vars

WellFormed == WF(m)
Meaning == last.out = "ok" => SliceMeaning(last.src, m, last.l, last.r, last.trim)
Boundaries == last.out = "ok" => SliceBoundaries(last.src, m, last.l, last.r, last.trim)
\* a slice is refused for want of known data exactly when the source knows nothing inside [l, r)
ValueIff == last.out # "none" /\ SliceArgsOK(last.src, last.l, last.r)
              => ((last.out = "value") <=> \A x \in last.l..(last.r - 1) : RateAt(last.src, x) = NAN)
\* monotone, zero at zero, total = Cum at the end
CumShape == Cum(m, 0) = 0 /\ \A x \in 0..(SL(m) - 1) : Cum(m, x + 1) - Cum(m, x) = Known(RateAt(m, x))
\* whole-map slice is the identity
WholeIsIdentity == SliceMap(m, 0, SL(m), FALSE) = m /\ SliceMap(m, 0, SL(m), TRUE) = m
\* slicing a slice is slicing the source (as functions of position; the interval layout may differ), trimmed or not
SameFn(a, b) == SL(a) = SL(b) /\ \A x \in 0..(SL(a) - 1) : RateAt(a, x) = RateAt(b, x)
Composition ==
  \A l \in 0..SL(m), r \in 0..SL(m), l2 \in 0..SL(m), r2 \in 0..SL(m) :
    (l <= l2 /\ l2 < r2 /\ r2 <= r /\ SliceOutcome(m, l, r, FALSE) = "ok" /\ SliceOutcome(m, l2, r2, FALSE) = "ok") =>
      /\ SliceOutcome(SliceMap(m, l, r, FALSE), l2, r2, FALSE) = "ok"
      /\ SameFn(SliceMap(SliceMap(m, l, r, FALSE), l2, r2, FALSE), SliceMap(m, l2, r2, FALSE))
      /\ SliceOutcome(SliceMap(m, l, r, TRUE), l2 - l, r2 - l, TRUE) = "ok"
      /\ SameFn(SliceMap(SliceMap(m, l, r, TRUE), l2 - l, r2 - l, TRUE), SliceMap(m, l2, r2, TRUE))
\* no slice ever adds mass
NoNewMass == [][Cum(m', SL(m')) <= Cum(m, SL(m))]_vars
=============================================================================
