----------------------------- MODULE MC_TableOps -----------------------------
(* Model check / simulate the row-list machine for the two table classes with   *)
(* self-references over a small row alphabet.  Design invariants: keep_rows      *)
(* never leaves a dangling or unmapped self-reference behind when it started     *)
(* from a closed table; the id map is a monotone injection onto 0..m-1.          *)
(* With hist enabled (Sim config) behaviours are emitted as JSON for replay.     *)
EXTENDS TableOps, Json
CONSTANTS Cls, MaxRows, Depth, Emit
VARIABLES rows, hist, closed
vars == <<rows, hist, closed>>
Meta == {<<>>, <<7>>, <<0, 255, 10>>}
MutRow(p, m) == [site |-> 0, node |-> 1, derived_state |-> <<65>>, parent |-> p, metadata |-> m, time |-> 2]
IndRow(ps, m) == [flags |-> 1, location |-> <<>>, parents |-> ps, metadata |-> m]
\* the six classes without self references: rows whose ragged columns have lengths 0 / 1 / 3 and whose scalars differ
Strs == {<<>>, <<65>>, <<67, 71, 84>>}
OtherRows ==
    CASE Cls = "nodes" -> {[flags |-> f, time |-> t, population |-> p, individual |-> p, metadata |-> m] : f \in {0, 1}, t \in {0, 2}, p \in {-1, 1}, m \in Meta}
      [] Cls = "edges" -> {[left |-> l, right |-> 4, parent |-> 3, child |-> c, metadata |-> m] : l \in {0, 1}, c \in {0, 2}, m \in Meta}
      [] Cls = "migrations" -> {[left |-> 0, right |-> 4, node |-> u, source |-> 0, dest |-> 1, time |-> t, metadata |-> m] : u \in {0, 1}, t \in {1, 3}, m \in Meta}
      [] Cls = "sites" -> {[position |-> x, ancestral_state |-> a, metadata |-> m] : x \in {0, 5}, a \in Strs, m \in Meta}
      [] Cls = "populations" -> {[metadata |-> m] : m \in Meta}
      [] Cls = "provenances" -> {[timestamp |-> a, record |-> b] : a \in Strs, b \in Strs}
      [] OTHER -> {}
RowChoices(n) == IF Cls = "mutations" THEN {MutRow(p, m) : p \in (-1)..(n - 1), m \in {<<>>, <<7>>}}
                 ELSE IF Cls = "individuals" THEN
                      {IndRow(ps, m) : ps \in {<<>>} \cup {<<p>> : p \in (-1)..(n - 1)} \cup {<<p, -1>> : p \in 0..(n - 1)} \cup {<<-1, p>> : p \in 0..(n - 1)}, m \in {<<>>, <<7>>}}
                 ELSE OtherRows
\* rows offered to the bulk operations (a few per class, so that pairs stay enumerable)
M2 == {<<>>, <<0, 255, 10>>}
BulkRows ==
    CASE Cls = "nodes" -> {[flags |-> 1, time |-> 2, population |-> p, individual |-> -1, metadata |-> m] : p \in {-1, 1}, m \in M2}
      [] Cls = "edges" -> {[left |-> 0, right |-> 4, parent |-> 3, child |-> c, metadata |-> m] : c \in {0, 2}, m \in M2}
      [] Cls = "migrations" -> {[left |-> 0, right |-> 4, node |-> u, source |-> 0, dest |-> 1, time |-> 1, metadata |-> m] : u \in {0, 1}, m \in M2}
      [] Cls = "sites" -> {[position |-> 5, ancestral_state |-> a, metadata |-> m] : a \in {<<>>, <<67, 71, 84>>}, m \in {<<>>, <<7>>}}
      [] Cls = "populations" -> {[metadata |-> m] : m \in Meta}
      [] Cls = "provenances" -> {[timestamp |-> a, record |-> b] : a \in {<<>>, <<65>>}, b \in {<<>>, <<67, 71, 84>>}}
      [] OTHER -> {}
SelfRef == Cls \in {"mutations", "individuals"}
HasMeta == Cls # "provenances"
Masks(n) == [1..n -> {0, 1}]
Closed(rs) == \A i \in 1..Len(rs) : RowRefsOK(Cls, [q \in 1..Len(rs) |-> 1], rs[i])
Events ==
    {[op |-> "add_row", row |-> r] : r \in RowChoices(Len(rows))}
    \cup {[op |-> "setitem", j |-> jj, row |-> r] : jj \in (-Len(rows))..Len(rows), r \in RowChoices(Len(rows))}
    \cup {[op |-> "truncate", n |-> n] : n \in 0..(Len(rows) + 1)}
    \cup {[op |-> "keep_rows", keep |-> m] : m \in Masks(Len(rows))}
    \cup {[op |-> "clear"], [op |-> "copy"]} \cup (IF HasMeta THEN {[op |-> "drop_metadata"]} ELSE {})
    \* reads and bulk operations are part of the behaviours of the classes added later (the first two keep their state space)
    \cup (IF SelfRef THEN {} ELSE
           {[op |-> "getitem", j |-> jj] : jj \in (-Len(rows) - 1)..Len(rows)}
           \cup {[op |-> "mask", mask |-> m] : m \in Masks(Len(rows))}
           \cup {[op |-> "ids", ids |-> q] : q \in {<<>>} \cup {<<a>> : a \in (-1)..Len(rows)} \cup {<<a, b>> : a \in 0..(Len(rows) - 1), b \in 0..(Len(rows) - 1)}}
           \cup {[op |-> o, rows |-> q] : o \in {"set_columns", "append_columns"},
                                          q \in {<<>>} \cup {<<r>> : r \in BulkRows} \cup {<<r, r2>> : r \in BulkRows, r2 \in BulkRows}})
    \cup {[op |-> "slice", a |-> a, b |-> b] : a \in 0..Len(rows), b \in 0..Len(rows)}
Init == rows = <<>> /\ hist = <<>> /\ closed = TRUE
Next == /\ Len(hist) < Depth
        /\ \E ev \in Events :
             LET r == Apply(Cls, rows, ev) IN
             /\ (ev.op = "slice" => ev.a <= ev.b)
             /\ Len(r.rows) <= MaxRows
             /\ rows' = r.rows
             /\ closed' = IF ev.op = "keep_rows" /\ r.ok THEN Closed(r.rows) ELSE Closed(r.rows)
             /\ hist' = IF Emit THEN Append(hist, [ev |-> ev, ok |-> IF r.ok THEN 1 ELSE 0, after |-> r.rows, ret |-> r.ret])
                        ELSE Append(hist, 0)
             \* keep_rows on a closed table yields a closed table (all self references mapped)
             /\ Assert(~(ev.op = "keep_rows" /\ r.ok /\ ~Closed(r.rows)), "keep_rows left a dangling reference")
             /\ Assert(~(ev.op = "keep_rows" /\ r.ok) \/
                       (LET m == r.ret IN \A a, b \in 1..Len(m) : (a < b /\ m[a] # NULL /\ m[b] # NULL) => m[a] < m[b]), "id map not monotone")
Spec == Init /\ [][Next]_vars
EmitHist == ~Emit \/ Len(hist) < Depth \/ PrintT(<<"H", ToJson([cls |-> Cls, hist |-> hist])>>)
=============================================================================
