----------------------------- MODULE MC_TableOps -----------------------------
(* Model check / simulate the row-list machine for the two table classes with   *)
(* self-references over a small row alphabet.  Design invariants: keep_rows      *)
(* never leaves a dangling or unmapped self-reference behind when it started     *)
(* from a closed table; the id map is a monotone injection onto 0..m-1.          *)
(* With hist enabled (Sim config) behaviours are emitted as JSON for replay.     *)
EXTENDS TableOps, Json
CONSTANTS Cls, MaxRows, Depth, Emit
VARIABLES rows, hist, closed
vars == <<rows, hist, closed>>
Meta == {<<>>, <<7>>, <<0, 255, 10>>}
MutRow(p, m) == [site |-> 0, node |-> 1, derived_state |-> <<65>>, parent |-> p, metadata |-> m, time |-> 2]
IndRow(ps, m) == [flags |-> 1, location |-> <<>>, parents |-> ps, metadata |-> m]
RowChoices(n) == IF Cls = "mutations" THEN {MutRow(p, m) : p \in (-1)..(n - 1), m \in {<<>>, <<7>>}}
                 ELSE {IndRow(ps, m) : ps \in {<<>>} \cup {<<p>> : p \in (-1)..(n - 1)} \cup {<<p, -1>> : p \in 0..(n - 1)} \cup {<<-1, p>> : p \in 0..(n - 1)}, m \in {<<>>, <<7>>}}
Masks(n) == [1..n -> {0, 1}]
Closed(rs) == \A i \in 1..Len(rs) : RowRefsOK(Cls, [q \in 1..Len(rs) |-> 1], rs[i])
Events ==
    {[op |-> "add_row", row |-> r] : r \in RowChoices(Len(rows))}
    \cup {[op |-> "setitem", j |-> jj, row |-> r] : jj \in (-Len(rows))..Len(rows), r \in RowChoices(Len(rows))}
    \cup {[op |-> "truncate", n |-> n] : n \in 0..(Len(rows) + 1)}
    \cup {[op |-> "keep_rows", keep |-> m] : m \in Masks(Len(rows))}
    \cup {[op |-> "clear"], [op |-> "drop_metadata"], [op |-> "copy"]}
    \cup {[op |-> "slice", a |-> a, b |-> b] : a \in 0..Len(rows), b \in 0..Len(rows)}
Init == rows = <<>> /\ hist = <<>> /\ closed = TRUE
Next == /\ Len(hist) < Depth
        /\ \E ev \in Events :
             LET r == Apply(Cls, rows, ev) IN
             /\ (ev.op = "slice" => ev.a <= ev.b)
             /\ Len(r.rows) <= MaxRows
             /\ rows' = r.rows
             /\ closed' = IF ev.op = "keep_rows" /\ r.ok THEN Closed(r.rows) ELSE Closed(r.rows)
             /\ hist' = IF Emit THEN Append(hist, [ev |-> ev, ok |-> IF r.ok THEN 1 ELSE 0, after |-> r.rows, ret |-> r.ret])
                        ELSE Append(hist, 0)
             \* keep_rows on a closed table yields a closed table (all self references mapped)
             /\ Assert(~(ev.op = "keep_rows" /\ r.ok /\ ~Closed(r.rows)), "keep_rows left a dangling reference")
             /\ Assert(~(ev.op = "keep_rows" /\ r.ok) \/
                       (LET m == r.ret IN \A a, b \in 1..Len(m) : (a < b /\ m[a] # NULL /\ m[b] # NULL) => m[a] < m[b]), "id map not monotone")
Spec == Init /\ [][Next]_vars
EmitHist == ~Emit \/ Len(hist) < Depth \/ PrintT(<<"H", ToJson([cls |-> Cls, hist |-> hist])>>)
=============================================================================
