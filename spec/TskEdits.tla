------------------------------- MODULE TskEdits -------------------------------
(***************************************************************************)
(* C11: what each editing operation may change and what it must preserve,    *)
(* as relations between the tables before (a) and after (b).  Rows carry     *)
(* identity tags (metadata), so "metadata of retained rows survives" is part *)
(* of every relation.  Coordinates are integer cells; node/mutation times    *)
(* and cutoffs are on a doubled grid so that a cutoff can lie strictly       *)
(* between two node times.                                                   *)
(***************************************************************************)
EXTENDS TskSort
Cells(t) == 0..(t.L - 1)
InIvs(ivs, x) == \E i \in 1..Len(ivs) : ivs[i][1] <= x /\ x < ivs[i][2]
\* what the edge table says at cell x: (child, parent, tag of the edge row)
EdgeFactsAt(t, x) == {<<t.edges[i].child, t.edges[i].parent, t.edges[i].tag>> : i \in {j \in 1..Len(t.edges) : Covers(t.edges[j], x)}}
MigFactsAt(t, x) == {<<g.node, g.source, g.dest, g.time, g.tag>> : g \in {t.migs[i] : i \in {j \in 1..Len(t.migs) : Covers(t.migs[j], x)}}}
NodesSame(a, b) == a.time = b.time /\ a.rawflags = b.rawflags /\ a.node_tag = b.node_tag /\ a.ind_tag = b.ind_tag /\ a.pop_tag = b.pop_tag
OthersSame(a, b) == a.ind_rows = b.ind_rows /\ a.pop_rows = b.pop_rows
\* sites / mutations restricted to a set of kept site rows (1-based positions in a.sites), as tag-expressed rows
SiteRowsKept(a, keep) == [i \in 1..Len(SelectSeq([q \in 1..Len(a.sites) |-> q], LAMBDA q : q \in keep)) |->
                            SiteRow(a.sites[SelectSeq([q \in 1..Len(a.sites) |-> q], LAMBDA q : q \in keep)[i]])]
MutRowsKept(a, keep) == LET idx == SelectSeq([q \in 1..Len(a.muts) |-> q], LAMBDA q : (a.muts[q].site + 1) \in keep) IN
                        [i \in 1..Len(idx) |-> MutRow(a, a.muts[idx[i]])]
AllSiteRows(b) == [i \in 1..Len(b.sites) |-> SiteRow(b.sites[i])]
AllMutRows(b) == [i \in 1..Len(b.muts) |-> MutRow(b, b.muts[i])]

\* keep_intervals / delete_intervals (simplify=False): K = set of retained cells
KeepRel(a, b, K) ==
  {cl \in {"L", "nodes", "others", "edges_inside", "edges_outside", "sites", "mutations", "migrations"} :
    ~ CASE cl = "L" -> a.L = b.L
        [] cl = "nodes" -> NodesSame(a, b)
        [] cl = "others" -> OthersSame(a, b)
        [] cl = "edges_inside" -> \A x \in K : EdgeFactsAt(b, x) = EdgeFactsAt(a, x)
        [] cl = "edges_outside" -> \A x \in Cells(a) \ K : EdgeFactsAt(b, x) = {}
        [] cl = "sites" -> AllSiteRows(b) = SiteRowsKept(a, {i \in 1..Len(a.sites) : a.sites[i].pos \in K})
        [] cl = "mutations" -> AllMutRows(b) = MutRowsKept(a, {i \in 1..Len(a.sites) : a.sites[i].pos \in K})
        [] cl = "migrations" -> \A x \in Cells(a) : MigFactsAt(b, x) = (IF x \in K THEN MigFactsAt(a, x) ELSE {})
  }
\* ltrim / rtrim / trim: a pure shift of coordinates by `shift`, new length newL; sites to the left of
\* the leftmost edge / right of the rightmost edge are dropped (documented), everything else identical
ShiftEdge(e, d) == [e EXCEPT !.left = e.left - d, !.right = e.right - d]
TrimRel(a, b, shift, newL) ==
  LET keepSites == {i \in 1..Len(a.sites) : a.sites[i].pos >= shift /\ a.sites[i].pos < shift + newL} IN
  {cl \in {"L", "nodes", "others", "edges", "sites", "mutations", "migrations"} :
    ~ CASE cl = "L" -> b.L = newL
        [] cl = "nodes" -> NodesSame(a, b)
        [] cl = "others" -> OthersSame(a, b)
        [] cl = "edges" -> b.edges = [i \in 1..Len(a.edges) |-> ShiftEdge(a.edges[i], shift)]
        [] cl = "sites" -> AllSiteRows(b) = [i \in 1..Len(SiteRowsKept(a, keepSites)) |->
                                [SiteRowsKept(a, keepSites)[i] EXCEPT ![1] = @ - shift]]
        [] cl = "mutations" -> AllMutRows(b) = MutRowsKept(a, keepSites)
        [] cl = "migrations" -> b.migs = [i \in 1..Len(a.migs) |-> ShiftEdge(a.migs[i], shift)]
  }
\* delete_sites(ids): exactly those sites and their mutations go, the rest is identical (ids remapped)
DeleteSitesRel(a, b, ids) ==
  LET keep == {i \in 1..Len(a.sites) : (i - 1) \notin ids} IN
  {cl \in {"L", "nodes", "others", "edges", "sites", "mutations", "migrations"} :
    ~ CASE cl = "L" -> a.L = b.L
        [] cl = "nodes" -> NodesSame(a, b)
        [] cl = "others" -> OthersSame(a, b)
        [] cl = "edges" -> a.edges = b.edges
        [] cl = "migrations" -> a.migs = b.migs
        [] cl = "sites" -> AllSiteRows(b) = SiteRowsKept(a, keep)
        [] cl = "mutations" -> AllMutRows(b) = MutRowsKept(a, keep)
  }
\* ---- time based edits; times are on the doubled grid, cutoff t2 likewise
MutTime(t, m) == IF m.time = UNKT THEN TimeOf(t, m.node) ELSE m.time
Splits(a, e, t2) == TimeOf(a, e.child) < t2 /\ t2 < TimeOf(a, e.parent)
NewId(e) == 1000 + e.tag                                  \* symbolic id of the node inserted on edge e
N0(a) == NumNodes(a)
\* the (unique) upper edge piece of an inserted node tells which original edge it belongs to
NormNode(a, b, n) == IF n < N0(a) THEN n
                     ELSE LET S == {i \in 1..Len(b.edges) : b.edges[i].child = n} IN
                          IF Cardinality(S) = 1 THEN 1000 + b.edges[CHOOSE i \in S : TRUE].tag ELSE -7
ExpectedSplitEdges(a, t2) ==
  UNION {IF Splits(a, e, t2)
         THEN {<<e.left, e.right, e.parent, NewId(e), e.tag>>, <<e.left, e.right, NewId(e), e.child, e.tag>>}
         ELSE {<<e.left, e.right, e.parent, e.child, e.tag>>} : e \in ToSet(a.edges)}
SplitMutNode(a, m, t2) ==
  LET x == SitePos(a, m.site)
      S == {e \in ToSet(a.edges) : e.child = m.node /\ Covers(e, x) /\ Splits(a, e, t2)}
  IN IF S # {} /\ MutTime(a, m) >= t2 THEN NewId(CHOOSE e \in S : TRUE) ELSE m.node
SplitRel(a, b, t2, nf, np) ==
  LET nsplit == Cardinality({i \in 1..Len(a.edges) : Splits(a, a.edges[i], t2)}) IN
  {cl \in {"L", "old_nodes", "new_nodes", "edges", "sites", "mutations", "others"} :
    ~ CASE cl = "L" -> a.L = b.L
        [] cl = "old_nodes" -> /\ NumNodes(b) = N0(a) + nsplit
                               /\ \A u \in NodesOf(a) : TimeOf(b, u) = TimeOf(a, u) /\ b.rawflags[u + 1] = a.rawflags[u + 1]
                                                        /\ b.node_tag[u + 1] = a.node_tag[u + 1] /\ b.ind_tag[u + 1] = a.ind_tag[u + 1]
                                                        /\ b.pop_tag[u + 1] = a.pop_tag[u + 1]
        [] cl = "new_nodes" -> \A u \in N0(a)..(NumNodes(b) - 1) : TimeOf(b, u) = t2 /\ b.rawflags[u + 1] = nf /\ b.pop[u + 1] = np
                                                                  /\ b.ind[u + 1] = NULL /\ NormNode(a, b, u) # -7
        [] cl = "edges" -> /\ {<<e.left, e.right, NormNode(a, b, e.parent), NormNode(a, b, e.child), e.tag>> : e \in ToSet(b.edges)} = ExpectedSplitEdges(a, t2)
                           /\ Len(b.edges) = Len(a.edges) + nsplit
        [] cl = "sites" -> AllSiteRows(b) = AllSiteRows(a)
        [] cl = "mutations" -> /\ Len(b.muts) = Len(a.muts)
                               /\ \A i \in 1..Len(a.muts) : LET m == a.muts[i] n == b.muts[i] IN
                                    /\ NormNode(a, b, n.node) = SplitMutNode(a, m, t2)
                                    /\ n.site = m.site /\ n.der = m.der /\ n.parent = m.parent /\ n.time = m.time /\ n.tag = m.tag
        [] cl = "others" -> OthersSame(a, b)
  }
\* delete_older(t): edges whose parent is older than t, mutations and migrations at least as old as t go
DeleteOlderRel(a, b, t2) ==
  LET keepE == SelectSeq([q \in 1..Len(a.edges) |-> q], LAMBDA q : TimeOf(a, a.edges[q].parent) <= t2)
      keepM == SelectSeq([q \in 1..Len(a.muts) |-> q], LAMBDA q : MutTime(a, a.muts[q]) < t2)
      keepG == SelectSeq([q \in 1..Len(a.migs) |-> q], LAMBDA q : a.migs[q].time < t2)
      tagOfKeptParent(m) == IF m.parent = NULL THEN NULL
                            ELSE IF MutTime(a, a.muts[m.parent + 1]) < t2 THEN a.muts[m.parent + 1].tag ELSE NULL
  IN
  {cl \in {"L", "nodes", "others", "edges", "sites", "mutations", "migrations"} :
    ~ CASE cl = "L" -> a.L = b.L
        [] cl = "nodes" -> NodesSame(a, b)
        [] cl = "others" -> OthersSame(a, b)
        [] cl = "edges" -> b.edges = [i \in 1..Len(keepE) |-> a.edges[keepE[i]]]
        [] cl = "sites" -> AllSiteRows(b) = AllSiteRows(a)
        [] cl = "migrations" -> b.migs = [i \in 1..Len(keepG) |-> a.migs[keepG[i]]]
        [] cl = "mutations" -> /\ Len(b.muts) = Len(keepM)
                               /\ \A i \in 1..Len(keepM) : LET m == a.muts[keepM[i]] n == b.muts[i] IN
                                     /\ n.tag = m.tag /\ n.node = m.node /\ n.der = m.der /\ n.time = m.time /\ n.site = m.site
                                     /\ (IF n.parent = NULL THEN NULL ELSE b.muts[n.parent + 1].tag) = tagOfKeptParent(m)
  }
\* extend_haplotypes: only edges and mutation nodes may change; every sample's state at every site is kept
ExtendRel(a, b) ==
  {cl \in {"L", "nodes", "others", "sites", "mutations_but_node", "genotypes"} :
    ~ CASE cl = "L" -> a.L = b.L
        [] cl = "nodes" -> NodesSame(a, b)
        [] cl = "others" -> OthersSame(a, b)
        [] cl = "sites" -> AllSiteRows(b) = AllSiteRows(a)
        [] cl = "mutations_but_node" -> /\ Len(a.muts) = Len(b.muts)
                                        /\ \A i \in 1..Len(a.muts) : a.muts[i].site = b.muts[i].site /\ a.muts[i].der = b.muts[i].der
                                                                     /\ a.muts[i].tag = b.muts[i].tag /\ a.muts[i].time = b.muts[i].time
        \* every sample's genotype is kept, including "missing" for samples isolated at the site
        [] cl = "genotypes" -> \A s \in 0..(Len(a.sites) - 1) : \A u \in SamplesOf(a) : AlleleOf(b, s, u, TRUE) = AlleleOf(a, s, u, TRUE)
  }
=============================================================================
