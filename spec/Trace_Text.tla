------------------------------- MODULE Trace_Text -------------------------------
(* C17, code -> spec: (a) dump_text -> load_text round trips: every field the      *)
(* property lists must be equal table by table; (b) parse_* results for enumerated *)
(* column layouts against ParsedTable.                                             *)
EXTENDS TextFormats, Json, IOUtils
Cases == ndJsonDeserialize(IOEnv.CASES)
VARIABLE k
RoundTripFails(c) ==
  {t \in {"nodes", "edges", "sites", "mutations", "individuals", "populations", "migrations", "sequence_length"} :
     ~ CASE t = "sequence_length" -> c.b.L = c.a.L
         \* load_text sorts: migrations with equal times may come back in another order (any order of ties is a valid table), so
         \* they are compared as multisets of whole rows, and must come back ordered by time
         [] t = "migrations" -> /\ Len(c.a[t]) = Len(c.b[t])
                                /\ \A i \in 1..Len(c.a[t]) : Cardinality({j \in 1..Len(c.a[t]) : c.a[t][j] = c.a[t][i]})
                                                                  = Cardinality({j \in 1..Len(c.b[t]) : c.b[t][j] = c.a[t][i]})
                                /\ \A i \in 1..(Len(c.b[t]) - 1) : c.b[t][i].time <= c.b[t][i + 1].time
         [] OTHER -> c.a[t] = c.b[t]}
LayoutFails(c) ==
  IF c.raised = 1 THEN {"parser_raised:" \o c.error}
  ELSE (IF c.got = c.expected THEN {} ELSE
          {"parsed_" \o c.kind \o "_differs_at_" \o col : col \in {cc \in AllCols(c.kind) :
              Len(c.got) # Len(c.expected) \/ \E i \in 1..Len(c.expected) : c.got[i][cc] # c.expected[i][cc]}})
Fails(c) == IF c.mode = "roundtrip" THEN (IF c.raised = 1 THEN {"load_text_raised:" \o c.error} ELSE RoundTripFails(c)) ELSE LayoutFails(c)
Init == k = 0
Next == k < Len(Cases) /\ k' = k + 1
Spec == Init /\ [][Next]_k
Report == k = 0 \/ PrintT(<<"V", Cases[k].id, Fails(Cases[k])>>)
=============================================================================
