CONSTANTS
  NumNodesC = 4
  LC = 3
  MaxEdges = 3
  TimeVecs <- TimeVecsT
  FlagVecs <- FlagVecsT
SPECIFICATION Spec
CHECK_DEADLOCK FALSE
