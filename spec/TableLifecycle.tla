--------------------------- MODULE TableLifecycle ---------------------------
(***************************************************************************)
(* Spec growth beyond the listed properties: the life cycle of a            *)
(* TableCollection's edge index.                                            *)
(*                                                                          *)
(* Abstract state                                                           *)
(*   es   the edge table as a sequence of edge tokens.  The tokens are three *)
(*        fixed edges over four fixed nodes (samples 0,1 at time 0, node 2   *)
(*        at time 1, node 3 at time 2):  1 = 2->0, 2 = 2->1, 3 = 3->2, all   *)
(*        over the whole sequence; a token occurs at most once.              *)
(*   idx  NoIdx, or the value of `es` at the moment the index was built      *)
(*        (the index arrays are a function of that value).                   *)
(*                                                                          *)
(* One action per public call (the linearization point of a sequential      *)
(* library is the return of the call).  What the code does, not what one     *)
(* might wish: `has_index` only compares lengths, so an index goes stale     *)
(* silently when rows are replaced without changing their number; add_row    *)
(* keeps the (now too short) index arrays, and truncating back to the old    *)
(* length makes them "present" again.                                        *)
(***************************************************************************)
EXTENDS Naturals, Sequences, FiniteSets, TLC, Json
CONSTANTS MaxSteps, Emit
VARIABLES es, idx, hist
vars == <<es, idx, hist>>
Tokens == {1, 2, 3}
NoIdx == <<0>>                       \* not a sequence of distinct tokens
\* sort key of the documented edge order: (time of parent, parent, child, left) - tokens are numbered in that order
Sorted(s) == \A i \in 1..(Len(s) - 1) : s[i] < s[i + 1]
SortedSeqOf(s) == LET S == {s[i] : i \in 1..Len(s)} IN
  [i \in 1..Cardinality(S) |-> CHOOSE t \in S : Cardinality({u \in S : u < t}) = i - 1]
HasIndex(e, ix) == ix # NoIdx /\ Len(ix) = Len(e)
Fresh(e, ix) == ix = e
\* samples 0 and 1 coalesce in node 2 only when both of its edges are present; node 3 above is then unary and removed
Simplified(e) == IF {1, 2} \subseteq {e[i] : i \in 1..Len(e)} THEN <<1, 2>> ELSE <<>>

\* result of one call: new state plus what the caller observes
R(e, ix, ok) == [es |-> e, idx |-> ix, ok |-> ok]
Apply(ev) ==
  CASE ev.op = "add_edge"    -> R(Append(es, ev.t), idx, "ok")
    [] ev.op = "truncate"    -> R(SubSeq(es, 1, ev.n), idx, "ok")
    [] ev.op = "clear_edges" -> R(<<>>, idx, "ok")
    [] ev.op = "replace_last" -> R(Append(SubSeq(es, 1, Len(es) - 1), ev.t), idx, "ok")    \* edges[-1] = row: same length
    [] ev.op = "drop_index"  -> R(es, NoIdx, "ok")
    [] ev.op = "build_index" -> IF Sorted(es) THEN R(es, es, "ok") ELSE R(es, idx, "error")
    [] ev.op = "sort"        -> R(SortedSeqOf(es), NoIdx, "ok")
    [] ev.op = "clear"       -> R(<<>>, NoIdx, "ok")
    [] ev.op = "simplify"    -> IF Sorted(es) THEN R(Simplified(es), NoIdx, "ok") ELSE R(es, idx, "error")
    \* tree_sequence(): builds the index in place when has_index is false; with a stale index of the right length the outcome is
    \* not defined by the model ("any"): the trees are checked against whatever the arrays say
    [] ev.op = "tree_sequence" ->
         IF HasIndex(es, idx) THEN (IF Fresh(es, idx) THEN R(es, idx, "ok") ELSE R(es, idx, "any"))
         ELSE IF Sorted(es) THEN R(es, es, "ok") ELSE R(es, idx, "error")
    \* copy() / dump+load: a new collection, which has an index exactly when this one "has" one; the source is unchanged
    \* subset over all nodes in id order: rows re-added and sorted, no index; delete_older(t) with t between the times of nodes 2 and 3
    \* drops the edge below node 3, keeps the row order and - unlike the other wholesale rewrites - leaves the index arrays alone (found by
    \* replay: the first version of this action dropped the index; the code rewrites the edge table row by row and never touches it); union with a copy of itself under the identity node map adds
    \* nothing, then sorts and *builds* the index; set_columns with the table's own columns keeps whatever index arrays there are
    [] ev.op = "subset_all"  -> R(SortedSeqOf(es), NoIdx, "ok")
    [] ev.op = "delete_older" -> R(SelectSeq(es, LAMBDA t : t # 3), idx, "ok")
    [] ev.op = "union_self"  -> R(SortedSeqOf(es), SortedSeqOf(es), "ok")
    [] ev.op = "set_columns_same" -> R(es, idx, "ok")
    [] ev.op = "deduplicate_sites" -> R(es, idx, "ok")
    \* compute_mutation_parents insists on an index and on sorted edges (a stale index of the right length: not modelled)
    [] ev.op = "compute_mutation_parents" ->
         IF ~HasIndex(es, idx) THEN R(es, idx, "error") ELSE IF Fresh(es, idx) THEN R(es, idx, "ok") ELSE R(es, idx, "any")
    [] ev.op = "copy"        -> R(es, idx, IF HasIndex(es, idx) THEN "with_index" ELSE "without_index")
    [] ev.op = "dump_load"   -> R(es, idx, IF HasIndex(es, idx) THEN "with_index" ELSE "without_index")
Events ==
    {[op |-> "add_edge", t |-> t] : t \in Tokens \ {es[i] : i \in 1..Len(es)}}
    \cup {[op |-> "truncate", n |-> n] : n \in 0..Len(es)}
    \cup {[op |-> "replace_last", t |-> t] : t \in IF es = <<>> THEN {} ELSE Tokens \ {es[i] : i \in 1..(Len(es) - 1)}}
    \cup {[op |-> o] : o \in {"clear_edges", "drop_index", "build_index", "sort", "clear", "simplify", "tree_sequence", "copy", "dump_load",
                                "subset_all", "delete_older", "union_self", "set_columns_same", "deduplicate_sites", "compute_mutation_parents"}}
Init == es = <<>> /\ idx = NoIdx /\ hist = <<>>
Step(ev) == LET r == Apply(ev) IN
  /\ es' = r.es /\ idx' = r.idx
  /\ hist' = IF Emit THEN Append(hist, [ev |-> ev, ok |-> r.ok, es |-> r.es, has_index |-> IF HasIndex(r.es, r.idx) THEN 1 ELSE 0])
             ELSE Append(hist, 0)
Next == Len(hist) < MaxSteps /\ \E ev \in Events : Step(ev)
Spec == Init /\ [][Next]_vars

\* ---- design properties checked by TLC
TypeOK == /\ \A i, j \in 1..Len(es) : i # j => es[i] # es[j]
          /\ idx = NoIdx \/ \A i, j \in 1..Len(idx) : i # j => idx[i] # idx[j]
\* an index is only ever built over sorted edges
IndexOverSorted == idx = NoIdx \/ Sorted(idx)
\* the operations that rewrite the edge table wholesale leave no index behind; the ones that build one leave a fresh one
WholesaleDropsIndex == [][\A ev \in Events : (Step(ev) /\ ev.op \in {"sort", "clear", "simplify", "subset_all"} /\ Apply(ev).ok = "ok") => idx' = NoIdx]_vars
BuildIsFresh == [][\A ev \in Events : (Step(ev) /\ ev.op \in {"build_index", "union_self"} /\ Apply(ev).ok = "ok") => (HasIndex(es', idx') /\ Fresh(es', idx'))]_vars
\* the blind spot, stated so that TLC shows it is reachable: has_index can hold with a stale index
NeverStale == ~(HasIndex(es, idx) /\ ~Fresh(es, idx))
EmitHist == ~Emit \/ Len(hist) < MaxSteps \/ PrintT(<<"H", ToJson(hist)>>)
=============================================================================
