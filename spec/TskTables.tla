------------------------------ MODULE TskTables ------------------------------
(***************************************************************************)
(* The tskit table collection as a value, and Valid(tc): the structural     *)
(* requirements of the data model (docs/data-model.md) that gate            *)
(* TableCollection.tree_sequence() and tskit.load (property C02), written    *)
(* declaratively - as a conjunction of quantified requirements, not as the   *)
(* C library's sequential scan.                                              *)
(*                                                                          *)
(* tc = [L, npop, nodes: Seq([time, flags, pop, ind]),                       *)
(*       edges: Seq([left, right, parent, child]), sites: Seq([pos]),        *)
(*       muts: Seq([site, node, parent, time]),                              *)
(*       migs: Seq([left, right, node, source, dest, time]),                 *)
(*       inds: Seq([parents: Seq(Int)]), hasidx, ins, rem]                   *)
(* Row ids are 0-based (row j is seq[j+1]); NULL = -1.                       *)
(* Numbers are integers (order embedding of the reals used) plus the tokens  *)
(* below for the IEEE special values; UNK is tskit.UNKNOWN_TIME (a NaN).     *)
(***************************************************************************)
EXTENDS Integers, Sequences, FiniteSets, SequencesExt, FiniteSetsExt
NULL == -1
NAN == 900001
UNK == 900002
PINF == 900003
NINF == -900003
Fin(x) == x \notin {NAN, UNK, PINF, NINF}
IsUnk(x) == x = UNK
Rows(q) == 1..Len(q)
InRange(id, q) == 0 <= id /\ id < Len(q)
NullOrInRange(id, n) == -1 <= id /\ id < n
NodeTime(tc, u) == tc.nodes[u + 1].time

NodesOK(tc) == \A j \in Rows(tc.nodes) : LET n == tc.nodes[j] IN
    /\ Fin(n.time)
    /\ NullOrInRange(n.pop, tc.npop)
    /\ NullOrInRange(n.ind, Len(tc.inds))
EdgeRowOK(tc, e) ==
    /\ InRange(e.parent, tc.nodes) /\ InRange(e.child, tc.nodes)
    /\ Fin(e.left) /\ Fin(e.right)
    /\ 0 <= e.left /\ e.left < e.right /\ e.right <= tc.L
    /\ NodeTime(tc, e.parent) > NodeTime(tc, e.child)
EdgesOK(tc) == \A j \in Rows(tc.edges) : EdgeRowOK(tc, tc.edges[j])
\* required order: non-decreasing parent time; all edges of a parent adjacent;
\* within a parent strictly increasing (child, left)
EdgeOrderOK(tc) ==
    /\ \A j \in 1..(Len(tc.edges) - 1) : LET a == tc.edges[j] b == tc.edges[j + 1] IN
         /\ NodeTime(tc, b.parent) >= NodeTime(tc, a.parent)
         /\ a.parent = b.parent => (b.child > a.child \/ (b.child = a.child /\ b.left > a.left))
    /\ \A i, j \in Rows(tc.edges) : (i < j /\ tc.edges[i].parent = tc.edges[j].parent) =>
                                     \A m \in i..j : tc.edges[m].parent = tc.edges[i].parent
SitesOK(tc) ==
    /\ \A j \in Rows(tc.sites) : LET p == tc.sites[j].pos IN Fin(p) /\ 0 <= p /\ p < tc.L
    /\ \A j \in 1..(Len(tc.sites) - 1) : tc.sites[j].pos < tc.sites[j + 1].pos   \* sorted and unique
MutRowOK(tc, j) == LET m == tc.muts[j] IN
    /\ InRange(m.site, tc.sites) /\ InRange(m.node, tc.nodes)
    /\ NullOrInRange(m.parent, Len(tc.muts)) /\ m.parent # j - 1
    /\ IsUnk(m.time) \/ (Fin(m.time) /\ m.time >= NodeTime(tc, m.node))
    /\ m.parent # NULL => LET pm == tc.muts[m.parent + 1] IN
          /\ pm.site = m.site
          /\ m.parent < j - 1                      \* parent listed before child
          /\ IsUnk(m.time) \/ m.time <= pm.time
MutsOK(tc) ==
    /\ \A j \in Rows(tc.muts) : MutRowOK(tc, j)
    /\ \A j \in 1..(Len(tc.muts) - 1) : tc.muts[j].site <= tc.muts[j + 1].site
    /\ \A i, j \in Rows(tc.muts) : (i < j /\ tc.muts[i].site = tc.muts[j].site) =>
          /\ IsUnk(tc.muts[i].time) = IsUnk(tc.muts[j].time)       \* known and unknown not mixed at a site
          /\ IsUnk(tc.muts[i].time) \/ tc.muts[i].time >= tc.muts[j].time
MigsOK(tc) ==
    /\ \A j \in Rows(tc.migs) : LET g == tc.migs[j] IN
         /\ InRange(g.node, tc.nodes)
         /\ 0 <= g.source /\ g.source < tc.npop /\ 0 <= g.dest /\ g.dest < tc.npop
         /\ Fin(g.time) /\ Fin(g.left) /\ Fin(g.right)
         /\ 0 <= g.left /\ g.left < g.right /\ g.right <= tc.L
    /\ \A j \in 1..(Len(tc.migs) - 1) : tc.migs[j].time <= tc.migs[j + 1].time
IndsOK(tc) == \A j \in Rows(tc.inds) : \A k \in Rows(tc.inds[j].parents) :
    LET p == tc.inds[j].parents[k] IN (p = NULL \/ InRange(p, tc.inds)) /\ p # j - 1
\* tree-wise requirements (need the row-wise ones to make sense)
Overlaps(a, b) == a.left < b.right /\ b.left < a.right
DisjointChildren(tc) == \A i, j \in Rows(tc.edges) :
    (i < j /\ tc.edges[i].child = tc.edges[j].child) => ~Overlaps(tc.edges[i], tc.edges[j])
MutBelowParentNode(tc) == \A j \in Rows(tc.muts) : LET m == tc.muts[j] IN
    IsUnk(m.time) \/ \A i \in Rows(tc.edges) : LET e == tc.edges[i] x == tc.sites[m.site + 1].pos IN
        (e.child = m.node /\ e.left <= x /\ x < e.right) => m.time < NodeTime(tc, e.parent)
\* a user-supplied index must be two permutations of the edge ids sorted by left resp. right
IndexConsistent(tc) ==
    tc.hasidx = 1 =>
      /\ Len(tc.ins) = Len(tc.edges) /\ Len(tc.rem) = Len(tc.edges)
      /\ {tc.ins[k] : k \in Rows(tc.ins)} = {j - 1 : j \in Rows(tc.edges)}
      /\ {tc.rem[k] : k \in Rows(tc.rem)} = {j - 1 : j \in Rows(tc.edges)}
      /\ \A k \in 1..(Len(tc.ins) - 1) : tc.edges[tc.ins[k] + 1].left <= tc.edges[tc.ins[k + 1] + 1].left
      /\ \A k \in 1..(Len(tc.rem) - 1) : tc.edges[tc.rem[k] + 1].right <= tc.edges[tc.rem[k + 1] + 1].right

RowwiseValid(tc) == Fin(tc.L) /\ tc.L > 0 /\ NodesOK(tc) /\ EdgesOK(tc) /\ SitesOK(tc) /\ MutsOK(tc) /\ MigsOK(tc) /\ IndsOK(tc)
Valid(tc) == /\ RowwiseValid(tc)
             /\ EdgeOrderOK(tc)
             /\ DisjointChildren(tc)
             /\ MutBelowParentNode(tc)
             /\ IndexConsistent(tc)
\* names of the requirement groups that fail (diagnostics; row-wise first because the
\* others presuppose in-range references)
Broken(tc) ==
   LET rw == {g \in {"L", "nodes", "edges", "sites", "mutations", "migrations", "individuals"} :
               ~ CASE g = "L" -> Fin(tc.L) /\ tc.L > 0
                   [] g = "nodes" -> NodesOK(tc)
                   [] g = "edges" -> EdgesOK(tc)
                   [] g = "sites" -> SitesOK(tc)
                   [] g = "mutations" -> MutsOK(tc)
                   [] g = "migrations" -> MigsOK(tc)
                   [] g = "individuals" -> IndsOK(tc)}
   IN IF rw # {} THEN rw
      ELSE {g \in {"edge_order", "disjoint_children", "mutation_below_parent_node", "index"} :
               ~ CASE g = "edge_order" -> EdgeOrderOK(tc)
                   [] g = "disjoint_children" -> DisjointChildren(tc)
                   [] g = "mutation_below_parent_node" -> MutBelowParentNode(tc)
                   [] g = "index" -> IndexConsistent(tc)}
=============================================================================
