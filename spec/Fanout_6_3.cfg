CONSTANTS
  NumItems = 6
  NumThreads = 3
SPECIFICATION Spec
INVARIANT CombinedIsSequential
INVARIANT ChunkingOK
PROPERTY Termination
