------------------------------ MODULE TableOps ------------------------------
(***************************************************************************)
(* C13: a tskit table behaves like a plain list of rows.  The model state    *)
(* is the sequence `rows` of row records (a record is a function from column *)
(* name to value; ragged columns are sequences of small integers).  Every    *)
(* public row / column operation of the table classes is an operator         *)
(* rows -> [ok, rows, ret].  Failed operations leave the table unchanged.    *)
(* cls is the table class name; only "mutations" (parent) and "individuals"  *)
(* (parents) have self-references that keep_rows must remap.                 *)
(***************************************************************************)
EXTENDS Integers, Sequences, FiniteSets, SequencesExt, TLC
NULL == -1
Res(ok, rows, ret) == [ok |-> ok, rows |-> rows, ret |-> ret]
Fail(rows) == Res(FALSE, rows, <<>>)

AddRow(rows, r) == Res(TRUE, Append(rows, r), <<Len(rows)>>)
\* t[j] = r with Python index normalisation
NormIdx(n, j) == IF j < 0 THEN j + n ELSE j
SetRow(rows, j, r) == LET i == NormIdx(Len(rows), j) IN
    IF i < 0 \/ i >= Len(rows) THEN Fail(rows) ELSE Res(TRUE, [rows EXCEPT ![i + 1] = r], <<>>)
GetRow(rows, j) == LET i == NormIdx(Len(rows), j) IN
    IF i < 0 \/ i >= Len(rows) THEN Fail(rows) ELSE Res(TRUE, rows, <<rows[i + 1]>>)
Truncate(rows, n) == IF n < 0 \/ n > Len(rows) THEN Fail(rows) ELSE Res(TRUE, SubSeq(rows, 1, n), <<>>)
Clear(rows) == Res(TRUE, <<>>, <<>>)
SetColumns(rows, rs) == Res(TRUE, rs, <<>>)
AppendColumns(rows, rs) == Res(TRUE, rows \o rs, <<>>)
SetCol(rows, col, vals) == IF Len(vals) # Len(rows) THEN Fail(rows)
                           ELSE Res(TRUE, [i \in 1..Len(rows) |-> [rows[i] EXCEPT ![col] = vals[i]]], <<>>)
DropMetadata(rows) == Res(TRUE, [i \in 1..Len(rows) |-> [rows[i] EXCEPT !["metadata"] = <<>>]], <<>>)
\* Python slice a:b with 0 <= a <= b <= n, boolean mask, id array
GetSlice(rows, a, b) == Res(TRUE, rows, SubSeq(rows, a + 1, b))
GetMask(rows, mask) == IF Len(mask) # Len(rows) THEN Fail(rows)
                       ELSE Res(TRUE, rows, LET sel == SelectSeq([i \in 1..Len(rows) |-> i], LAMBDA i : mask[i] = 1)
                                            IN [q \in 1..Len(sel) |-> rows[sel[q]]])
\* an id array holds row ids: 0 <= id < n (no Python-style negative indexing for id arrays)
GetIds(rows, ids) == IF \E k \in 1..Len(ids) : ids[k] < 0 \/ ids[k] >= Len(rows) THEN Fail(rows)
                     ELSE Res(TRUE, rows, [k \in 1..Len(ids) |-> rows[ids[k] + 1]])

\* keep_rows(keep): id map old -> new (NULL for dropped rows); self references are remapped;
\* a kept row referring to a dropped or out-of-range row makes the whole call fail
IdMap(keep) == [j \in 1..Len(keep) |-> IF keep[j] = 1 THEN Cardinality({i \in 1..j : keep[i] = 1}) - 1 ELSE NULL]
RefOK(keep, p) == p = NULL \/ (0 <= p /\ p < Len(keep) /\ keep[p + 1] = 1)
RowRefsOK(cls, keep, r) ==
    CASE cls = "mutations" -> RefOK(keep, r["parent"])
      [] cls = "individuals" -> \A k \in 1..Len(r["parents"]) : RefOK(keep, r["parents"][k])
      [] OTHER -> TRUE
Remap(cls, keep, r) == LET m == IdMap(keep) mp(p) == IF p = NULL THEN NULL ELSE m[p + 1] IN
    CASE cls = "mutations" -> [r EXCEPT !["parent"] = mp(r["parent"])]
      [] cls = "individuals" -> [r EXCEPT !["parents"] = [k \in 1..Len(r["parents"]) |-> mp(r["parents"][k])]]
      [] OTHER -> r
KeepRows(cls, rows, keep) ==
    IF Len(keep) # Len(rows) THEN Fail(rows)
    ELSE IF \E j \in 1..Len(rows) : keep[j] = 1 /\ ~RowRefsOK(cls, keep, rows[j]) THEN Fail(rows)
    ELSE Res(TRUE,
             LET kept == SelectSeq([j \in 1..Len(rows) |-> j], LAMBDA j : keep[j] = 1)
             IN [i \in 1..Len(kept) |-> Remap(cls, keep, rows[kept[i]])],
             IdMap(keep))

\* generic dispatcher used by the simulation and trace specs; ev is an event record
Apply(cls, rows, ev) ==
    CASE ev.op \in {"add_row", "append"} -> AddRow(rows, ev.row)
      [] ev.op = "setitem" -> SetRow(rows, ev.j, ev.row)
      [] ev.op = "getitem" -> GetRow(rows, ev.j)
      [] ev.op = "truncate" -> Truncate(rows, ev.n)
      [] ev.op = "clear" -> Clear(rows)
      [] ev.op = "set_columns" -> SetColumns(rows, ev.rows)
      [] ev.op = "append_columns" -> AppendColumns(rows, ev.rows)
      [] ev.op \in {"setattr", "packset"} -> SetCol(rows, ev.col, ev.vals)
      [] ev.op = "drop_metadata" -> DropMetadata(rows)
      [] ev.op = "slice" -> GetSlice(rows, ev.a, ev.b)
      [] ev.op = "mask" -> GetMask(rows, ev.mask)
      [] ev.op = "ids" -> GetIds(rows, ev.ids)
      [] ev.op = "keep_rows" -> KeepRows(cls, rows, ev.keep)
      [] ev.op = "copy" -> Res(TRUE, rows, <<>>)
      \* append_columns with zero rows but a ragged column that carries data (its single offset is not 0): malformed, refused
      [] ev.op = "append_stray" -> Fail(rows)
=============================================================================
