------------------------------ MODULE Universe ------------------------------
(***************************************************************************)
(* The small-scope universe U(N, K, E) of node/edge tables used by every     *)
(* exhaustive check: all sets of at most MaxEdges edges (l, r, p, c) over    *)
(* 0 <= l < r <= L with time[p] > time[c] and pairwise disjoint child        *)
(* intervals, for each node-time vector in TimeVecs and sample-flag vector   *)
(* in FlagVecs.  Unary nodes, internal samples, non-sample leaves, gaps,     *)
(* dead branches, multiple roots, adjacent edges with equal parent/child     *)
(* and polytomies all occur.  Edges are put in a valid table order           *)
(* (time[parent], parent, child, left) and the two indexes are built by the  *)
(* documented keys.                                                          *)
(***************************************************************************)
EXTENDS TreeCursor
CONSTANTS NumNodesC, LC, MaxEdges, TimeVecs, FlagVecs

UNodes == 0..(NumNodesC - 1)
Cand(tv) == {[left |-> l, right |-> r, parent |-> p, child |-> c] :
               l \in 0..(LC - 1), r \in 1..LC, p \in UNodes, c \in UNodes}
CandOK(tv) == {e \in Cand(tv) : e.left < e.right /\ tv[e.parent + 1] > tv[e.child + 1]}
Overlap(a, b) == a.child = b.child /\ a.left < b.right /\ b.left < a.right
ValidSet(S) == \A a \in S, b \in S : a # b => ~Overlap(a, b)
EdgeSets(tv) == UNION {{S \in kSubset(k, CandOK(tv)) : ValidSet(S)} : k \in 0..MaxEdges}
EdgeLess(tv, a, b) ==
  \/ tv[a.parent + 1] < tv[b.parent + 1]
  \/ tv[a.parent + 1] = tv[b.parent + 1] /\ a.parent < b.parent
  \/ a.parent = b.parent /\ a.child < b.child
  \/ a.parent = b.parent /\ a.child = b.child /\ a.left < b.left

WithIndex(t) ==
  LET ids == 1..Len(t.edges)
      insq == SetToSortSeq(ids, LAMBDA i, j : InsLess(t, i, j))
      remq == SetToSortSeq(ids, LAMBDA i, j : RemLess(t, i, j))
  IN [L |-> t.L, time |-> t.time, flags |-> t.flags, edges |-> t.edges,
      ins |-> [k \in ids |-> insq[k] - 1], rem |-> [k \in ids |-> remq[k] - 1]]
MkTs(tv, fv, S) == WithIndex([L |-> LC, time |-> tv, flags |-> fv,
                              edges |-> SetToSortSeq(S, LAMBDA a, b : EdgeLess(tv, a, b))])
AllTs == UNION {{MkTs(tv, fv, S) : S \in EdgeSets(tv)} : tv \in TimeVecs, fv \in FlagVecs}
=============================================================================
