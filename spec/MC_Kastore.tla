------------------------------ MODULE MC_Kastore ------------------------------
(***************************************************************************)
(* Fault enumeration on the abstract container: for every small well-formed  *)
(* file (<= MaxItems items over key lengths, array lengths and element types) *)
(* every proper prefix and every substitution of one interpreted field by a   *)
(* boundary value (incl. values that make the C sums wrap around 2^64) is     *)
(* given to the Reader model.  One TLC state per (file, fault).               *)
(*  - a proper prefix must never be accepted            (invariant PrefixOK)  *)
(*  - an accepted field substitution must belong to one of the two classes    *)
(*    the container by design cannot see: an element type giving the same byte extent,   *)
(*    or an array_len change absorbed by the 8-byte alignment slack           *)
(*    (invariant OnlyKnownBlindSpots).  These two classes are exactly what    *)
(*    the tskit layer above must catch (replayed on real files by the C10     *)
(*    harness).                                                               *)
(***************************************************************************)
EXTENDS Kastore, FiniteSetsExt
CONSTANTS MaxItems
VARIABLES spec, fault
vars == <<spec, fault>>
ItemSpecs == {[type |-> t, kl |-> kl, al |-> al] : t \in {1, 4, 5, 9}, kl \in {1, 3}, al \in {0, 1, 3}}
Specs == UNION {[1..n -> ItemSpecs] : n \in 1..MaxItems}
M64 == <<65535, 65535, 65535, 65535>>
Vals(orig, f) ==
  {Zero, U(1), U(8), AddU(orig, U(1)), AddU(orig, U(7)), AddU(orig, U(8)), AddU(orig, M64), AddU(orig, AddU(M64, U(2))),
   M64, AddU(M64, U(9)), <<0, 0, 0, 8192>>, <<0, 0, 0, 32768>>, <<0, 0, 1, 0>>, f.fsize,
   AddU(orig, <<0, 0, 0, 256>>), AddU(orig, <<0, 0, 0, 8192>>), AddU(orig, <<0, 0, 0, 16384>>), AddU(orig, <<0, 0, 0, 32768>>)}
   \cup {f.items[j].ks : j \in 1..Len(f.items)} \cup {f.items[j].as : j \in 1..Len(f.items)}
Faults(f) ==
  {[kind |-> "prefix", len |-> n] : n \in 0..(f.len - 1)}
  \cup {[kind |-> "magic"]} \cup {[kind |-> "vmaj", v |-> v] : v \in {0, 2}}
  \cup {[kind |-> "nitems", v |-> v] : v \in {0, f.nitems - 1, f.nitems + 1}}
  \cup {[kind |-> "fsize", v |-> v] : v \in Vals(f.fsize, f) \ {f.fsize}}
  \cup UNION {{[kind |-> "type", j |-> j, v |-> v] : v \in (0..10 \cup {255}) \ {f.items[j].type}} : j \in 1..Len(f.items)}
  \cup UNION {{[kind |-> "ks", j |-> j, v |-> v] : v \in Vals(f.items[j].ks, f) \ {f.items[j].ks}} : j \in 1..Len(f.items)}
  \cup UNION {{[kind |-> "kl", j |-> j, v |-> v] : v \in Vals(f.items[j].kl, f) \ {f.items[j].kl}} : j \in 1..Len(f.items)}
  \cup UNION {{[kind |-> "as", j |-> j, v |-> v] : v \in Vals(f.items[j].as, f) \ {f.items[j].as}} : j \in 1..Len(f.items)}
  \cup UNION {{[kind |-> "al", j |-> j, v |-> v] : v \in Vals(f.items[j].al, f) \ {f.items[j].al}} : j \in 1..Len(f.items)}
  \* a changed key byte: the key's content moves to any other place in the order (or collides with another key)
  \cup UNION {{[kind |-> "keybyte", j |-> j, v |-> v] : v \in (1..(2 * Len(f.items) + 1)) \ {2 * j}} : j \in 1..Len(f.items)}
ApplyFault(f, c) ==
  CASE c.kind = "prefix" -> [f EXCEPT !.len = c.len]
    [] c.kind = "magic" -> [f EXCEPT !.magic = 0]
    [] c.kind = "vmaj" -> [f EXCEPT !.vmaj = c.v]
    [] c.kind = "nitems" -> [f EXCEPT !.nitems = c.v]
    [] c.kind = "fsize" -> [f EXCEPT !.fsize = c.v]
    [] c.kind = "type" -> [f EXCEPT !.items[c.j].type = c.v]
    [] c.kind = "ks" -> [f EXCEPT !.items[c.j].ks = c.v]
    [] c.kind = "kl" -> [f EXCEPT !.items[c.j].kl = c.v]
    [] c.kind = "as" -> [f EXCEPT !.items[c.j].as = c.v]
    [] c.kind = "al" -> [f EXCEPT !.items[c.j].al = c.v]
    [] c.kind = "keybyte" -> [f EXCEPT !.items[c.j].kord = c.v]
    [] c.kind = "none" -> f
Init == spec \in Specs /\ fault = [kind |-> "none"]
Next == fault.kind = "none" /\ fault' \in Faults(Write(spec)) /\ UNCHANGED spec
Spec == Init /\ [][Next]_vars

F0 == Write(spec)
F1 == ApplyFault(F0, fault)
Verdict == Reader(F1)
WellFormedAccepted == fault.kind = "none" => Verdict = "OK"
PrefixOK == fault.kind = "prefix" => Verdict \in {"ERR", "EOF"} /\ (Verdict = "EOF" <=> fault.len = 0)
\* the blind spots of the container: a substitution that leaves every position the packing check
\* looks at unchanged - the (aligned) end of the item's array, or of the last key - without any
\* 64-bit overflow (lengths differing by a multiple of 2^64 / type_size are rejected by the
\* overflow-safe bounds checks).
EndOf(it) == AddU(it.as, MulSize(it.al, it.type))
NoOverflow(it) == ~GtU(it.as, F0.fsize) /\ ~GtU(it.al, DivSize(SubU(F0.fsize, it.as), it.type))
SameExtent(j, new) == LET old == F0.items[j] IN NoOverflow(new) /\
    IF j = Len(F0.items) THEN EndOf(new) = EndOf(old) ELSE AlignU(EndOf(new)) = AlignU(EndOf(old))
SameSizeType == fault.kind = "type" /\ fault.v < NumTypes /\ SameExtent(fault.j, [F0.items[fault.j] EXCEPT !.type = fault.v])
SlackAbsorbed == fault.kind = "al" /\ SameExtent(fault.j, [F0.items[fault.j] EXCEPT !.al = fault.v])
\* the last key may grow into / shrink within the alignment padding between the keys and the first array
KeySlack == fault.kind = "kl" /\ fault.j = Len(F0.items) /\
    LET it == F0.items[fault.j] IN ~GtU(fault.v, SubU(F0.fsize, it.ks)) /\ AlignU(AddU(it.ks, fault.v)) = AlignU(AddU(it.ks, it.kl))
\* a key whose changed content still sorts between its neighbours is a different key the container cannot tell from the original
KeyOrderKept == fault.kind = "keybyte" /\ fault.v \in {2 * fault.j - 1, 2 * fault.j + 1}
BlindSpot == SameSizeType \/ SlackAbsorbed \/ KeySlack \/ KeyOrderKept
OnlyKnownBlindSpots == (fault.kind \notin {"none", "prefix"} /\ Verdict = "OK") => BlindSpot
\* ... and conversely those are indeed accepted by the container (so the layer above must catch them)
BlindSpotsAreReal == BlindSpot => Verdict = "OK"
NeverUnknown == fault.kind # "nitems" => Verdict # "UNKNOWN"
=============================================================================
