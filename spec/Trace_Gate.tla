------------------------------ MODULE Trace_Gate ------------------------------
(* C02, code -> spec: recorded (table collection, accepted?) pairs from the real *)
(* gate (tree_sequence() and dump -> tskit.load) validated against Valid(tc).    *)
EXTENDS TskTables, Json, IOUtils, TLC
Cases == ndJsonDeserialize(IOEnv.CASES)
VARIABLE k
Fails(c) ==
  LET v == Valid(c.tc) IN
  (IF (c.accepted = 1) # v THEN {IF v THEN "rejected_valid" ELSE "accepted_invalid"} ELSE {})
  \cup (IF (c.loaded = 1) # v /\ c.loaded # 2 THEN {IF v THEN "load_rejected_valid" ELSE "load_accepted_invalid"} ELSE {})
  \cup (IF c.rows_unchanged = 1 THEN {} ELSE {"rows_changed"})
  \cup (IF c.exc_ok = 1 THEN {} ELSE {"wrong_exception_type"})
Init == k = 0
Next == k < Len(Cases) /\ k' = k + 1
Spec == Init /\ [][Next]_k
Report == k = 0 \/ PrintT(<<"V", Cases[k].id, Fails(Cases[k])>>)
=============================================================================
