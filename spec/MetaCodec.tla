------------------------------ MODULE MetaCodec ------------------------------
(***************************************************************************)
(* C12: the struct metadata codec as a *layout function*.  A schema is a     *)
(* tree of records; Layout(schema, value) is the sequence of cells           *)
(* <<format, value>> the encoding must consist of, in order; Decoded(schema, *)
(* value) is what decoding those bytes must give back (defaults filled in,   *)
(* fixed-width strings truncated / padded, null-termination, pascal strings, *)
(* padding decoded as null).  Turning one cell into bytes is struct.pack in  *)
(* the harness.  Strings are sequences of character codes; non-integral      *)
(* numbers are [num, den] records with a power-of-two denominator.           *)
(*                                                                           *)
(* schema ::= [t |-> "integer" | "number" | "boolean", f |-> fmt]            *)
(*          | [t |-> "string", f |-> fmt, kind |-> "c"|"s"|"p", n, nullterm] *)
(*          | [t |-> "null", f |-> fmt]                      (padding)       *)
(*          | [t |-> "array", items, mode |-> "len"|"fixed"|"exhaust", lf, length] *)
(*          | [t |-> "object", props |-> Seq([name, s, index, hasdef, def]), nullable] *)
(* index = -1 means "no index given" (treated as 0).                         *)
(***************************************************************************)
EXTENDS Integers, Sequences, FiniteSets, SequencesExt, FiniteSetsExt, TLC
NULLV == [null |-> TRUE]
Idx(p) == IF p.index = -1 THEN 0 ELSE p.index
\* encoded order of an object's properties: by index, then by name
PropLess(p, q) == Idx(p) < Idx(q) \/ (Idx(p) = Idx(q) /\ p.ord < q.ord)     \* ord = rank of the name
OrderedProps(s) == SetToSortSeq(ToSet(s.props), PropLess)
ValueOf(p, v) == IF p.name \in DOMAIN v THEN v[p.name] ELSE p.def
RECURSIVE Layout(_, _), ConcatLayouts(_, _), ObjLayout(_, _)
ConcatLayouts(s, vs) == IF vs = <<>> THEN <<>> ELSE Layout(s, Head(vs)) \o ConcatLayouts(s, Tail(vs))
ObjLayout(ps, v) == IF ps = <<>> THEN <<>> ELSE Layout(Head(ps).s, ValueOf(Head(ps), v)) \o ObjLayout(Tail(ps), v)
Layout(s, v) ==
  CASE s.t \in {"integer", "number", "boolean", "string"} -> <<[f |-> s.f, v |-> v]>>
    [] s.t = "null" -> <<[f |-> s.f, v |-> 0]>>
    [] s.t = "array" -> (IF s.mode = "len" THEN <<[f |-> s.lf, v |-> Len(v)]>> ELSE <<>>) \o ConcatLayouts(s.items, v)
    [] s.t = "object" -> IF v = NULLV THEN <<>> ELSE ObjLayout(OrderedProps(s), v)
\* ---- what decoding gives back
PadTo(q, n) == IF Len(q) >= n THEN SubSeq(q, 1, n) ELSE q \o [i \in 1..(n - Len(q)) |-> 0]
CutAtNul(q) == LET z == {i \in 1..Len(q) : q[i] = 0} IN IF z = {} THEN q ELSE SubSeq(q, 1, Min(z) - 1)
RECURSIVE Decoded(_, _)
Decoded(s, v) ==
  CASE s.t \in {"integer", "number", "boolean"} -> v
    [] s.t = "string" -> (IF s.kind = "c" THEN v
                          ELSE IF s.kind = "s" THEN (IF s.nullterm THEN CutAtNul(PadTo(v, s.n)) ELSE PadTo(v, s.n))
                          ELSE SubSeq(v, 1, Min({Len(v), s.n - 1, 255})))
    [] s.t = "null" -> NULLV
    [] s.t = "array" -> [i \in 1..Len(v) |-> Decoded(s.items, v[i])]
    [] s.t = "object" -> IF v = NULLV THEN NULLV
                         ELSE [nm \in {s.props[i].name : i \in 1..Len(s.props)} |->
                                 LET p == s.props[CHOOSE i \in 1..Len(s.props) : s.props[i].name = nm] IN Decoded(p.s, ValueOf(p, v))]
\* an object conforms when exactly the non-default properties may not be missing and no extra key is present
RECURSIVE Conforms(_, _)
Conforms(s, v) ==
  CASE s.t = "object" -> IF v = NULLV THEN s.nullable
                         ELSE /\ DOMAIN v \subseteq {s.props[i].name : i \in 1..Len(s.props)}
                              /\ \A i \in 1..Len(s.props) : (s.props[i].name \in DOMAIN v \/ s.props[i].hasdef)
                              /\ \A i \in 1..Len(s.props) : s.props[i].name \in DOMAIN v => Conforms(s.props[i].s, v[s.props[i].name])
    [] s.t = "array" -> (s.mode # "fixed" \/ Len(v) = s.length) /\ \A i \in 1..Len(v) : Conforms(s.items, v[i])
    [] OTHER -> TRUE
=============================================================================
