-------------------------- MODULE Trace_TreeCursor --------------------------
(***************************************************************************)
(* Trace validation (code -> spec) for the tree cursor: every recorded call  *)
(* on a real tskit.Tree (two handles: an original and a copy) is matched     *)
(* with the TreeCursor action of the same name; after every step the logged  *)
(* observable state must equal the projection of the model state, which in   *)
(* turn must equal the definitional state of its index.  One TLC state per   *)
(* recorded call; verdict per case = set of failing clause names.            *)
(***************************************************************************)
EXTENDS TreeCursor, Json, IOUtils
Cases == ndJsonDeserialize(IOEnv.CASES)
VARIABLES k, j, trees, bad
vars == <<k, j, trees, bad>>

C == Cases[k]
T == C.ts
O == [th |-> C.th, tracked |-> ToSet(C.tracked)]
N == NumNodes(T)

Apply(s, ev) ==
  CASE ev.op = "next" -> NextS(T, O, s)
    [] ev.op = "prev" -> PrevS(T, O, s)
    [] ev.op = "first" -> FirstS(T, O, s)
    [] ev.op = "last" -> LastS(T, O, s)
    [] ev.op = "clear" -> ClearS(T, O, s)
    [] ev.op = "seek" -> IF 0 <= ev.arg /\ ev.arg < T.L THEN SeekS(T, O, s, ev.arg) ELSE s
    [] ev.op = "seek_index" -> IF 0 <= ev.arg /\ ev.arg < NumTrees(T) THEN SeekIndexS(T, O, s, ev.arg) ELSE s
    [] OTHER -> s

\* clauses comparing one logged observation with a model state
Clause(c, ob, s) ==
  LET par == s.parent IN
    CASE c = "index" -> ob.index = s.index
      [] c = "interval" -> ob.left = s.left /\ ob.right = s.right
      [] c = "parent" -> Len(ob.parent) = N + 1 /\ ob.parent[N + 1] = NULL /\ \A u \in NodesOf(T) : ob.parent[u + 1] = par[u]
      [] c = "edge" -> Len(ob.edge) = N + 1 /\ ob.edge[N + 1] = NULL /\ \A u \in NodesOf(T) : ob.edge[u + 1] = s.edge[u]
      [] c = "ns" -> \A u \in 0..N : ob.ns[u + 1] = s.ns[u]
      [] c = "nt" -> \A u \in 0..N : ob.nt[u + 1] = s.nt[u]
      [] c = "num_edges" -> ob.num_edges = s.numEdges
      [] c = "roots" -> ToSet(ob.roots) = s.roots /\ Len(ob.roots) = Cardinality(s.roots)
      [] c = "linked" -> LinkedOK(ob, par, s.roots, N) /\ SibNullOK(ob, par, s.roots, N)
      [] c = "sites" -> ToSet(ob.sites) = (IF s.index = NULL THEN {} ELSE {i - 1 : i \in SitesIn(T, s.left, s.right)})
                        /\ IsStrictlySorted(ob.sites)
      [] c = "samples" -> \A u \in NodesOf(T) : /\ ToSet(ob.samples[u + 1]) = Desc(par, u) \cap SamplesOf(T)
                                                /\ Len(ob.samples[u + 1]) = Cardinality(Desc(par, u) \cap SamplesOf(T))
      [] c = "def" -> StateMatchesDef(T, O, s) /\ CursorWF(T, s)
AllClauses == {"index", "interval", "parent", "edge", "ns", "nt", "num_edges", "roots", "linked", "sites", "samples", "def"}
ObsFails(ob, s) == {c \in AllClauses : ~Clause(c, ob, s)}
MinFails(ob, s) == {c \in {"index", "parent", "ns", "roots"} : ~Clause(c, ob, s)}

StepFails(ev, old, new, other) ==
  ObsFails(ev.obs, new)
  \cup (IF ev.op \in {"next", "prev"} /\ ev.ret # (IF new.index # NULL THEN 1 ELSE 0) THEN {"ret"} ELSE {})
  \cup (IF ev.op = "seek" /\ ((0 <= ev.arg /\ ev.arg < T.L) # (ev.ret = 1)) THEN {"seek_accept"} ELSE {})
  \cup (IF ev.op = "seek" /\ ev.ret = 1 /\ ~InIv(new, ev.arg) THEN {"seek_lands"} ELSE {})
  \cup (IF ev.op = "seek_index" /\ ((0 <= ev.arg /\ ev.arg < NumTrees(T)) # (ev.ret = 1)) THEN {"seek_index_accept"} ELSE {})
  \cup (IF ev.op = "seek_index" /\ ev.ret = 1 /\ new.index # ev.arg THEN {"seek_index_lands"} ELSE {})
  \cup {"other_" \o c : c \in MinFails(ev.other, other)}

Init == k = 1 /\ j = 0 /\ trees = <<NullTree(T, O), NullTree(T, O)>> /\ bad = (IF IndexOK(T) THEN {} ELSE {"index_order"})
Step ==
  /\ j < Len(C.ops)
  /\ LET ev == C.ops[j + 1]
         h == ev.h + 1
         g == 3 - h
     IN IF ev.op = "copy"
        THEN \* handle g becomes a copy of handle h; both are observed
             /\ trees' = [trees EXCEPT ![g] = trees[h]]
             /\ bad' = bad \cup ObsFails(ev.obs, trees[h]) \cup {"copy_" \o c : c \in ObsFails(ev.other, trees[h])}
        ELSE LET n == Apply(trees[h], ev) IN
             /\ trees' = [trees EXCEPT ![h] = n]
             /\ bad' = bad \cup StepFails(ev, trees[h], n, trees[g])
  /\ j' = j + 1 /\ k' = k
NextCase ==
  /\ j = Len(C.ops) /\ k < Len(Cases)
  /\ k' = k + 1 /\ j' = 0
  /\ LET c2 == Cases[k + 1]
         o2 == [th |-> c2.th, tracked |-> ToSet(c2.tracked)]
     IN trees' = <<NullTree(c2.ts, o2), NullTree(c2.ts, o2)>> /\ bad' = (IF IndexOK(c2.ts) THEN {} ELSE {"index_order"})
Next == Step \/ NextCase
Spec == Init /\ [][Next]_vars
Report == j < Len(C.ops) \/ PrintT(<<"V", C.id, bad>>)
=============================================================================
