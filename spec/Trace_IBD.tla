------------------------------- MODULE Trace_IBD -------------------------------
(* C19, code -> spec: recorded ibd_segments calls (within / between, filters,      *)
(* store options) validated against the positional definition.                     *)
EXTENDS TskIBD, Json, IOUtils, TLC
Cases == ndJsonDeserialize(IOEnv.CASES)
VARIABLE k
\* requested pairs (a < b)
PairsOf(c) ==
  IF c.mode = "within" THEN {<<a, b>> \in ToSet(c.within) \X ToSet(c.within) : a < b}
  ELSE {<<a, b>> \in (0..(NumNodes(c.ts) - 1)) \X (0..(NumNodes(c.ts) - 1)) :
          a < b /\ \E i, j \in 1..Len(c.between) : i # j /\ a \in ToSet(c.between[i]) /\ b \in ToSet(c.between[j])}
Fails(c) ==
  LET ts == c.ts
      mt == c.max_time2
      want(p) == Filtered(ts, p[1], p[2], c.min_span, mt)
      pairs == PairsOf(c)
      nonempty == {p \in pairs : want(p) # {}}
      got == c.pairs                 \* sequence of [a, b, segs: seq of <<l, r, node>>, num, span2]
      gotOf(p) == {i \in 1..Len(got) : got[i].a = p[1] /\ got[i].b = p[2]}
  IN {cl \in {"pairs", "segments", "pair_summaries", "totals", "disjoint_cover"} :
      ~ CASE cl = "pairs" -> c.store_pairs = 0 \/ ({<<got[i].a, got[i].b>> : i \in 1..Len(got)} = nonempty /\ Len(got) = Cardinality(nonempty))
          [] cl = "segments" -> c.store_segments = 0 \/ \A i \in 1..Len(got) :
                                   ToSet(got[i].segs) = want(<<got[i].a, got[i].b>>) /\ Len(got[i].segs) = Cardinality(want(<<got[i].a, got[i].b>>))
          [] cl = "pair_summaries" -> c.store_pairs = 0 \/ \A i \in 1..Len(got) :
                                   got[i].num = Cardinality(want(<<got[i].a, got[i].b>>)) /\ got[i].span = SpanSum(want(<<got[i].a, got[i].b>>))
          [] cl = "totals" -> /\ c.num_segments = FoldSet(LAMBDA p, acc : acc + Cardinality(want(p)), 0, pairs)
                              /\ c.total_span = FoldSet(LAMBDA p, acc : acc + SpanSum(want(p)), 0, pairs)
                              /\ (c.store_pairs = 0 \/ c.num_pairs = Cardinality(nonempty))
          [] cl = "disjoint_cover" -> \* unfiltered: the segments of a pair are disjoint and cover exactly the cells with a common ancestor
                 \A p \in pairs : LET S == Segments(ts, p[1], p[2]) IN
                     /\ \A s, t \in S : s = t \/ s[2] <= t[1] \/ t[2] <= s[1]
                     /\ UNION {s[1]..(s[2] - 1) : s \in S} = {x \in 0..(ts.L - 1) : KeyAt(ts, x, p[1], p[2]) # <<>>}
     }
Init == k = 0
Next == k < Len(Cases) /\ k' = k + 1
Spec == Init /\ [][Next]_k
Report == k = 0 \/ PrintT(<<"V", Cases[k].id, Fails(Cases[k])>>)
=============================================================================
