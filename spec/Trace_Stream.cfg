CONSTANTS
  Objects = {}
  MaxLen = 100
SPECIFICATION TSpec
INVARIANT Report
INVARIANT PosIsSumOfSizes
INVARIANT EofOnlyAtEnd
CHECK_DEADLOCK FALSE
