CONSTANTS
  MaxSites = 2
  MaxMuts = 2
  NumAlleles = 3
  Depth = 0
  EnumLayers = TRUE
  MaxCopies = 1
  OptLevel = 2
  Record = FALSE
SPECIFICATION Spec
INVARIANT VarOK
INVARIANT ErrIff
INVARIANT AlleleOrder
INVARIANT UserKept
PROPERTY CopiesFrozen
PROPERTY HistoryFree
CHECK_DEADLOCK FALSE
