CONSTANTS
  MaxSteps = 4
  Emit = FALSE
SPECIFICATION Spec
PROPERTY AppendOnly
CHECK_DEADLOCK FALSE
