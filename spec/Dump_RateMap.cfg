CONSTANTS
  L = 4
  Rates = {0, 1, 3}
SPECIFICATION Spec
CHECK_DEADLOCK FALSE
