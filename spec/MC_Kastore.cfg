CONSTANTS
  MaxItems = 2
SPECIFICATION Spec
INVARIANT WellFormedAccepted
INVARIANT PrefixOK
INVARIANT OnlyKnownBlindSpots
INVARIANT BlindSpotsAreReal
INVARIANT NeverUnknown
CHECK_DEADLOCK FALSE
