-------------------------------- MODULE Stream --------------------------------
(***************************************************************************)
(* C05: several objects dumped back to back on one stream.  Dump appends one *)
(* stored object (its identity and its file_size in bytes); Load returns the *)
(* object at the read position and advances the byte position by exactly     *)
(* that object's size; Load at the end signals end-of-stream (EOF), which is *)
(* distinct from a format error.  Also: the algebra of equals()/             *)
(* assert_equals() under the ignore_* options over the components of a table *)
(* collection.                                                               *)
(***************************************************************************)
EXTENDS Integers, Sequences, FiniteSets, TLC
CONSTANTS Objects, MaxLen          \* Objects: set of [id, size] records available to dump
VARIABLES stream, rpos, bpos, last
vars == <<stream, rpos, bpos, last>>

Init == stream = <<>> /\ rpos = 0 /\ bpos = 0 /\ last = [kind |-> "none"]
Dump(o) == /\ Len(stream) < MaxLen
           /\ stream' = Append(stream, o)
           /\ last' = [kind |-> "dump", obj |-> o.id]
           /\ UNCHANGED <<rpos, bpos>>
LoadOk == /\ rpos < Len(stream)
          /\ rpos' = rpos + 1
          /\ bpos' = bpos + stream[rpos + 1].size
          /\ last' = [kind |-> "load", obj |-> stream[rpos + 1].id]
          /\ UNCHANGED stream
LoadEof == /\ rpos = Len(stream)
           /\ last' = [kind |-> "eof"]
           /\ UNCHANGED <<stream, rpos, bpos>>
Next == (\E o \in Objects : Dump(o)) \/ LoadOk \/ LoadEof
Spec == Init /\ [][Next]_vars

\* FIFO, exactly once: the objects loaded so far are the prefix of the stream of that length
Consumed == SubSeq(stream, 1, rpos)
RECURSIVE SumSize(_)
SumSize(q) == IF q = <<>> THEN 0 ELSE Head(q).size + SumSize(Tail(q))
PosIsSumOfSizes == bpos = SumSize(Consumed)
EofOnlyAtEnd == last.kind = "eof" => rpos = Len(stream)
LoadReturnsHead == last.kind = "load" => (rpos >= 1 /\ last.obj = stream[rpos].id)
\* loading never skips or repeats: rpos only grows by one per load
StepLaw == [][rpos' \in {rpos, rpos + 1} /\ (rpos' = rpos + 1 => bpos' = bpos + stream[rpos'].size)]_vars

\* ---------------- equality algebra ----------------
\* a table collection's components as digests; ig: record of ignore_* flags
Comps == {"top", "ts_meta", "table_data", "table_meta", "prov_rec", "prov_ts", "ref_data", "ref_meta"}
Same(a, b, c) == a[c] = b[c]
Equals(a, b, ig) ==
  /\ Same(a, b, "top")                                        \* sequence_length, time_units
  /\ (ig.metadata \/ ig.ts_metadata \/ Same(a, b, "ts_meta"))
  /\ (ig.tables \/ (Same(a, b, "table_data") /\ (ig.metadata \/ Same(a, b, "table_meta"))))
  /\ (ig.tables \/ ig.provenance \/ (Same(a, b, "prov_rec") /\ (ig.timestamps \/ Same(a, b, "prov_ts"))))
  /\ (ig.reference_sequence \/ (Same(a, b, "ref_data") /\ (ig.metadata \/ Same(a, b, "ref_meta"))))
=============================================================================
