---------------------------- MODULE Trace_MetaCodec ----------------------------
(* C12, code -> spec: recorded MetadataSchema.validate_and_encode_row / decode_row  *)
(* calls on harness-generated (deeper, random) struct schemas: acceptance must      *)
(* equal Conforms, the encoded bytes must be the concatenation of the packed cells  *)
(* of Layout (per-cell packing is a trusted table supplied by the harness), the     *)
(* decoded value must equal Decoded.                                                *)
EXTENDS MetaCodec, Json, IOUtils
Cases == ndJsonDeserialize(IOEnv.CASES)
VARIABLE k
PackOf(c, cell) == LET S == {i \in 1..Len(c.pack) : c.pack[i].f = cell.f /\ c.pack[i].v = cell.v} IN
                   IF S = {} THEN <<-1>> ELSE c.pack[CHOOSE i \in S : TRUE].bytes
RECURSIVE CatBytes(_, _)
CatBytes(c, cells) == IF cells = <<>> THEN <<>> ELSE PackOf(c, Head(cells)) \o CatBytes(c, Tail(cells))
\* every route by which an object becomes the metadata of a row (add_row / append / row assignment on each table, the top-level and
\* reference-sequence setters, the node rows of split_edges / decapitate) takes the decision judged below and stores the same bytes
RouteFails(c) == IF c.routes = <<>> THEN {} ELSE {"insertion_route_disagrees"}
Fails(c) == RouteFails(c) \cup
  LET ok == Conforms(c.schema, c.value) IN
  IF c.accepted = 0 THEN (IF ok /\ c.expect_reject = 0 THEN {"rejected_conforming_object"} ELSE {})
  ELSE IF ~ok THEN {"accepted_nonconforming_object"}
  ELSE {cl \in {"layout", "decoded", "repr_roundtrip", "table_unchanged_on_reject"} :
         ~ CASE cl = "layout" -> c.enc = CatBytes(c, Layout(c.schema, c.value))
             [] cl = "decoded" -> c.decoded = Decoded(c.schema, c.value)
             [] cl = "repr_roundtrip" -> c.repr_same = 1
             [] cl = "table_unchanged_on_reject" -> TRUE}
Init == k = 0
Next == k < Len(Cases) /\ k' = k + 1
Spec == Init /\ [][Next]_k
Report == k = 0 \/ PrintT(<<"V", Cases[k].id, Fails(Cases[k])>>)
=============================================================================
