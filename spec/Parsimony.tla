------------------------------ MODULE Parsimony ------------------------------
(***************************************************************************)
(* C20: what map_mutations must return, by definition (brute force over all  *)
(* assignments of states to the nodes of the tree - no Hartigan/Fitch here). *)
(*  t   : [par (function node -> parent or NULL over the nodes of the tree),  *)
(*         nodes (set of nodes reachable from the roots)]                     *)
(*  obs : function sample node -> allele index or MISSING (-1)                *)
(*  A   : number of alleles                                                   *)
(***************************************************************************)
EXTENDS Integers, Sequences, FiniteSets, FiniteSetsExt, SequencesExt
NULL == -1
MISSING == -1
ParentState(par, assign, anc, u) == IF par[u] = NULL THEN anc ELSE assign[par[u]]
Cost(nodes, par, assign, anc) == Cardinality({u \in nodes : ParentState(par, assign, anc, u) # assign[u]})
Consistent(nodes, obs, assign) == \A u \in nodes \cap DOMAIN obs : obs[u] = MISSING \/ assign[u] = obs[u]
\* the minimum number of state changes over all reconstructions (ancestral state free, or fixed)
MinCost(nodes, par, obs, A, fixed) ==
  LET ancs == IF fixed = NULL THEN 0..(A - 1) ELSE {fixed}
      assigns == {f \in [nodes -> 0..(A - 1)] : Consistent(nodes, obs, f)}
  IN Min({Cost(nodes, par, f, anc) : f \in assigns, anc \in ancs})
\* the states implied by a returned (ancestral state, mutation list): a node takes the derived state of
\* the last mutation listed on it, otherwise its parent's state (the ancestral state at a root)
RECURSIVE StateFrom(_, _, _, _, _)
StateFrom(par, anc, muts, u, fuel) ==
  LET on == {i \in 1..Len(muts) : muts[i].node = u} IN
  IF on # {} THEN muts[Max(on)].der
  ELSE IF par[u] = NULL \/ fuel = 0 THEN anc ELSE StateFrom(par, anc, muts, par[u], fuel - 1)
ChildrenOf(nodes, par, u) == {v \in nodes : par[v] = u}
RECURSIVE AncestorsOf(_, _, _)
AncestorsOf(par, u, fuel) == IF par[u] = NULL \/ fuel = 0 THEN <<>> ELSE <<par[u]>> \o AncestorsOf(par, par[u], fuel - 1)
\* parent link of mutation i: the last mutation listed before i on the nearest ancestor-or-self carrying one
MutParent(par, muts, i, n) ==
  LET u == muts[i].node
      same == {q \in 1..(i - 1) : muts[q].node = u}
      path == AncestorsOf(par, u, n)
      hit == {q \in 1..Len(path) : \E r \in 1..Len(muts) : muts[r].node = path[q]}
  IN IF same # {} THEN Max(same) - 1
     ELSE IF hit = {} THEN NULL ELSE Max({r \in 1..Len(muts) : muts[r].node = path[Min(hit)]}) - 1

\* ---- wide trees (hundreds of children under one node): the minimum in closed form ----------------------------------
\* counts[a + 1] = number of (non-missing) tips observed in state a.  Star: one internal root above all tips; the root takes
\* some state s (one change above the root if s differs from a fixed ancestral state) and every tip not in s changes.
SumC(q) == FoldSet(LAMBDA i, acc : acc + q[i], 0, DOMAIN q)
StarMin(counts, fixed) ==
  LET n == SumC(counts) A == DOMAIN counts IN
  IF fixed = -1 THEN n - Max({counts[a] : a \in A})
  ELSE Min({(IF a = fixed + 1 THEN 0 ELSE 1) + n - counts[a] : a \in A})
\* forest of isolated samples (every tip is its own root): the ancestral state is shared, each tip in another state changes once
ForestMin(counts, fixed) ==
  LET n == SumC(counts) A == DOMAIN counts IN
  IF fixed = -1 THEN n - Max({counts[a] : a \in A}) ELSE n - counts[fixed + 1]
=============================================================================
