------------------------------ MODULE TskTrees ------------------------------
(***************************************************************************)
(* Definitional semantics of marginal trees of a tskit table collection.   *)
(* Nothing here is an algorithm of the library: every operator is the       *)
(* data-model definition ("parent(u)=p at x iff some edge (l,r,p,u) has     *)
(* l<=x<r") written with sets and quantifiers.                              *)
(*                                                                          *)
(* A tree sequence value `ts` is a record                                   *)
(*   L      : sequence length (integer; coordinates enter only through      *)
(*            their order, see DESIGN 2.3)                                  *)
(*   time   : Seq(Int)   node u has time ts.time[u+1]                       *)
(*   flags  : Seq({0,1}) sample flag of node u is ts.flags[u+1]             *)
(*   edges  : Seq([left, right, parent, child])   edge id e is edges[e+1]   *)
(*   sites  : Seq([pos, anc])                                               *)
(*   muts   : Seq([site, node, der, parent, time])                          *)
(* Node / edge / site ids are 0-based as in tskit, NULL = -1.               *)
(***************************************************************************)
EXTENDS Integers, Sequences, FiniteSets, SequencesExt, FiniteSetsExt

NULL == -1
NumNodes(ts) == Len(ts.time)
NodesOf(ts) == 0..(Len(ts.time) - 1)
EIx(ts) == 1..Len(ts.edges)            \* 1-based positions in ts.edges; id = position-1
TimeOf(ts, u) == ts.time[u + 1]
IsSample(ts, u) == ts.flags[u + 1] = 1
SamplesOf(ts) == {u \in NodesOf(ts) : IsSample(ts, u)}
\* sample list in id order = tskit's ts.samples()
SampleSeq(ts) == SetToSortSeq(SamplesOf(ts), <)

IsStrictlySorted(q) == \A i \in 1..(Len(q) - 1) : q[i] < q[i + 1]

BPSet(ts) == {0, ts.L} \cup {ts.edges[i].left : i \in EIx(ts)} \cup {ts.edges[i].right : i \in EIx(ts)}
BPSeq(ts) == SetToSortSeq(BPSet(ts), <)
NumTrees(ts) == Cardinality(BPSet(ts)) - 1

Covers(e, x) == e.left <= x /\ x < e.right
CoveringChild(ts, u, x) == {i \in EIx(ts) : ts.edges[i].child = u /\ Covers(ts.edges[i], x)}

\* parent map and edge map (edge *ids*, 0-based) at position x
ParentAt(ts, x) == [u \in NodesOf(ts) |->
    LET S == CoveringChild(ts, u, x) IN IF S = {} THEN NULL ELSE ts.edges[CHOOSE i \in S : TRUE].parent]
EdgeAt(ts, x) == [u \in NodesOf(ts) |->
    LET S == CoveringChild(ts, u, x) IN IF S = {} THEN NULL ELSE (CHOOSE i \in S : TRUE) - 1]
\* a table collection is tree-like at x when every child has at most one covering edge
UniqueParents(ts, x) == \A u \in NodesOf(ts) : Cardinality(CoveringChild(ts, u, x)) <= 1

ChildrenIn(par, u) == {v \in DOMAIN par : par[v] = u}
RECURSIVE DescIn(_, _, _)
DescIn(par, u, fuel) == IF fuel = 0 THEN {u}
                        ELSE {u} \cup UNION {DescIn(par, v, fuel - 1) : v \in ChildrenIn(par, u)}
Desc(par, u) == DescIn(par, u, Cardinality(DOMAIN par))
RECURSIVE AncIn(_, _, _)
AncIn(par, u, fuel) == IF u = NULL \/ fuel = 0 THEN <<>> ELSE <<u>> \o AncIn(par, par[u], fuel - 1)
\* path u, parent(u), ... up to the top
PathUp(par, u) == AncIn(par, u, Cardinality(DOMAIN par) + 1)
RootOf(par, u) == LET p == PathUp(par, u) IN p[Len(p)]
DepthOf(par, u) == Len(PathUp(par, u)) - 1
IsDescendant(par, u, v) == \E i \in 1..Len(PathUp(par, u)) : PathUp(par, u)[i] = v

NumSamplesIn(ts, par, u) == Cardinality(Desc(par, u) \cap SamplesOf(ts))
NumTrackedIn(par, tracked, u) == Cardinality(Desc(par, u) \cap tracked)
\* roots under a threshold: parentless nodes with at least th samples below
RootsIn(ts, par, th) == {u \in DOMAIN par : par[u] = NULL /\ NumSamplesIn(ts, par, u) >= th}
NumEdgesIn(par) == Cardinality({u \in DOMAIN par : par[u] # NULL})

MRCAIn(par, u, v) ==
    LET pu == PathUp(par, u)
        C == {i \in 1..Len(pu) : IsDescendant(par, v, pu[i])}
    IN IF C = {} THEN NULL ELSE pu[Min(C)]

\* most recent common ancestor of a set of nodes: the common ancestor (a node counts as its own ancestor) below all others
MRCASet(par, U) ==
    LET common == {a \in DOMAIN par : \A u \in U : IsDescendant(par, u, a)}
    IN IF common = {} THEN NULL ELSE CHOOSE a \in common : \A b \in common : IsDescendant(par, a, b)

\* The five linked-list arrays of the quintuply linked tree (each a sequence of length
\* N+1, slot N+1 = virtual root) are consistent with a parent map and a root set:
\* the chain left_child[u], right_sib, ... ends at right_child[u], lists exactly the
\* children (roots for the virtual root), left_sib is the inverse of right_sib.
RECURSIVE Chain(_, _, _)
Chain(rsib, v, fuel) == IF v = NULL \/ fuel = 0 THEN <<>> ELSE <<v>> \o Chain(rsib, rsib[v + 1], fuel - 1)
ChildSeq(o, u) == Chain(o.right_sib, o.left_child[u + 1], Len(o.left_child) + 1)
LinkedOK(o, par, roots, N) ==
    \A u \in 0..N :
        LET cs == ChildSeq(o, u)
            want == IF u = N THEN roots ELSE ChildrenIn(par, u)
        IN /\ ToSet(cs) = want
           /\ Len(cs) = Cardinality(want)
           /\ o.num_children[u + 1] = Len(cs)
           /\ o.right_child[u + 1] = (IF cs = <<>> THEN NULL ELSE cs[Len(cs)])
           /\ \A i \in 1..Len(cs) : o.left_sib[cs[i] + 1] = (IF i = 1 THEN NULL ELSE cs[i - 1])
\* nodes that are neither a child nor a root have NULL sibs
SibNullOK(o, par, roots, N) ==
    \A u \in 0..N : (u = N \/ (par[u] = NULL /\ u \notin roots)) =>
                        o.left_sib[u + 1] = NULL /\ o.right_sib[u + 1] = NULL

\* sites and mutations of the tree covering [left, right)
SitesIn(ts, left, right) == {s \in 1..Len(ts.sites) : left <= ts.sites[s].pos /\ ts.sites[s].pos < right}

\* edge differences between consecutive trees: edges_out at breakpoint b are the edges
\* with right = b, edges_in those with left = b
EdgesOutAt(ts, b) == {i - 1 : i \in {j \in EIx(ts) : ts.edges[j].right = b}}
EdgesInAt(ts, b) == {i - 1 : i \in {j \in EIx(ts) : ts.edges[j].left = b}}

\* ---- traversal-order predicates, relative to the child order `kids` (a function from
\* node to sequence of children) that the tree itself reports
RECURSIVE PreFrom(_, _, _), PostFrom(_, _, _), FlatMap(_, _, _, _)
FlatMap(kids, q, fuel, pre) ==
    IF q = <<>> THEN <<>>
    ELSE (IF pre THEN PreFrom(kids, Head(q), fuel) ELSE PostFrom(kids, Head(q), fuel))
         \o FlatMap(kids, Tail(q), fuel, pre)
PreFrom(kids, u, fuel) == IF fuel = 0 THEN <<u>> ELSE <<u>> \o FlatMap(kids, kids[u], fuel - 1, TRUE)
PostFrom(kids, u, fuel) == IF fuel = 0 THEN <<u>> ELSE FlatMap(kids, kids[u], fuel - 1, FALSE) \o <<u>>
=============================================================================
