------------------------------- MODULE TskStats -------------------------------
(***************************************************************************)
(* C08: statistics by their documented definition, evaluated naively in      *)
(* exact integer arithmetic.  A statistic is a summary function f of the     *)
(* vector x of numbers of samples (from each sample set of an index tuple)   *)
(* below a node / carrying an allele, with n the sample set sizes:           *)
(*   site   : sum over sites in the window, over alleles (all alleles, or    *)
(*            only non-ancestral ones when polarised), of f(x_allele)        *)
(*   branch : sum over unit cells in the window, over nodes u with a parent, *)
(*            of branch_length(u) * (f(x_u) [+ f(n - x_u) if not polarised]) *)
(*   node   : for each node u, sum over unit cells of f(x_u) [+ f(n - x_u)]  *)
(* divided by the window span when span_normalise.  f = Num / Den with the   *)
(* documented formulas (docs/stats.md "Summary functions"); results are      *)
(* compared as integers: value * Den * (span if span_normalise).             *)
(***************************************************************************)
EXTENDS TskGenotypes
Num(stat, x, n) ==
  CASE stat = "diversity" -> x[1] * (n[1] - x[1])
    [] stat = "segregating_sites" -> IF x[1] > 0 THEN n[1] - x[1] ELSE 0
    [] stat = "Y1" -> x[1] * (n[1] - x[1]) * (n[1] - x[1] - 1)
    [] stat = "divergence" -> x[1] * (n[2] - x[2])
    [] stat = "Y2" -> x[1] * (n[2] - x[2]) * (n[2] - x[2] - 1)
    [] stat = "f2" -> x[1] * (x[1] - 1) * (n[2] - x[2]) * (n[2] - x[2] - 1) - x[1] * (n[1] - x[1]) * (n[2] - x[2]) * x[2]
    [] stat = "Y3" -> x[1] * (n[2] - x[2]) * (n[3] - x[3])
    [] stat = "f3" -> x[1] * (x[1] - 1) * (n[2] - x[2]) * (n[3] - x[3]) - x[1] * (n[1] - x[1]) * (n[2] - x[2]) * x[3]
    [] stat = "f4" -> x[1] * x[3] * (n[2] - x[2]) * (n[4] - x[4]) - x[1] * x[4] * (n[2] - x[2]) * (n[3] - x[3])
Den(stat, n) ==
  CASE stat = "diversity" -> n[1] * (n[1] - 1)
    [] stat = "segregating_sites" -> n[1]
    [] stat = "Y1" -> n[1] * (n[1] - 1) * (n[1] - 2)
    [] stat = "divergence" -> n[1] * n[2]
    [] stat = "Y2" -> n[1] * n[2] * (n[2] - 1)
    [] stat = "f2" -> n[1] * (n[1] - 1) * n[2] * (n[2] - 1)
    [] stat = "Y3" -> n[1] * n[2] * n[3]
    [] stat = "f3" -> n[1] * (n[1] - 1) * n[2] * n[3]
    [] stat = "f4" -> n[1] * n[2] * n[3] * n[4]
Arity(stat) == CASE stat \in {"diversity", "segregating_sites", "Y1"} -> 1 [] stat \in {"divergence", "Y2", "f2"} -> 2
                 [] stat \in {"Y3", "f3"} -> 3 [] stat = "f4" -> 4
\* sets: sequence of sample sets (sequences of node ids); idx: index tuple (0-based set numbers)
SetsOf(sets, idx) == [t \in 1..Len(idx) |-> ToSet(sets[idx[t] + 1])]
SizesOf(sets, idx) == [t \in 1..Len(idx) |-> Cardinality(ToSet(sets[idx[t] + 1]))]
Compl(x, n) == [t \in 1..Len(x) |-> n[t] - x[t]]
BelowCounts(par, S, u) == [t \in 1..Len(S) |-> Cardinality(Desc(par, u) \cap S[t])]
CarrierCounts(ts, s, a, S) == [t \in 1..Len(S) |-> Cardinality({v \in S[t] : StateOf(ts, s, v) = a})]
Sum(S, f(_)) == FoldSet(LAMBDA e, acc : acc + f(e), 0, S)
NodeTerm(stat, par, S, n, u, pol) ==
  LET x == BelowCounts(par, S, u) IN Num(stat, x, n) + (IF pol THEN 0 ELSE Num(stat, Compl(x, n), n))
BranchStat(ts, stat, sets, idx, pol, a, b) ==
  LET S == SetsOf(sets, idx) n == SizesOf(sets, idx) IN
  Sum(a..(b - 1), LAMBDA c : LET par == ParentAt(ts, c) IN
        Sum({u \in NodesOf(ts) : par[u] # NULL}, LAMBDA u : (TimeOf(ts, par[u]) - TimeOf(ts, u)) * NodeTerm(stat, par, S, n, u, pol)))
NodeStat(ts, stat, sets, idx, pol, a, b, u) ==
  LET S == SetsOf(sets, idx) n == SizesOf(sets, idx) IN
  Sum(a..(b - 1), LAMBDA c : NodeTerm(stat, ParentAt(ts, c), S, n, u, pol))
SiteStat(ts, stat, sets, idx, pol, a, b) ==
  LET S == SetsOf(sets, idx) n == SizesOf(sets, idx) IN
  Sum({s \in 0..(Len(ts.sites) - 1) : a <= SitePos(ts, s) /\ SitePos(ts, s) < b}, LAMBDA s :
        Sum({al \in SiteAlleles(ts, s) : ~pol \/ al # ts.sites[s + 1].anc}, LAMBDA al : Num(stat, CarrierCounts(ts, s, al, S), n)))
=============================================================================
