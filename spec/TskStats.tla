------------------------------- MODULE TskStats -------------------------------
(***************************************************************************)
(* C08: statistics by their documented definition, evaluated naively in      *)
(* exact integer arithmetic.  A statistic is a summary function f of the     *)
(* vector x of numbers of samples (from each sample set of an index tuple)   *)
(* below a node / carrying an allele, with n the sample set sizes:           *)
(*   site   : sum over sites in the window, over alleles (all alleles, or    *)
(*            only non-ancestral ones when polarised), of f(x_allele)        *)
(*   branch : sum over unit cells in the window, over nodes u with a parent, *)
(*            of branch_length(u) * (f(x_u) [+ f(n - x_u) if not polarised]) *)
(*   node   : for each node u, sum over unit cells of f(x_u) [+ f(n - x_u)]  *)
(* divided by the window span when span_normalise.  f = Num / Den with the   *)
(* documented formulas (docs/stats.md "Summary functions"); results are      *)
(* compared as integers: value * Den * (span if span_normalise).             *)
(***************************************************************************)
EXTENDS TskGenotypes
Num(stat, x, n) ==
  CASE stat = "diversity" -> x[1] * (n[1] - x[1])
    [] stat = "segregating_sites" -> IF x[1] > 0 THEN n[1] - x[1] ELSE 0
    [] stat = "Y1" -> x[1] * (n[1] - x[1]) * (n[1] - x[1] - 1)
    [] stat = "divergence" -> x[1] * (n[2] - x[2])
    [] stat = "Y2" -> x[1] * (n[2] - x[2]) * (n[2] - x[2] - 1)
    [] stat = "f2" -> x[1] * (x[1] - 1) * (n[2] - x[2]) * (n[2] - x[2] - 1) - x[1] * (n[1] - x[1]) * (n[2] - x[2]) * x[2]
    [] stat = "Y3" -> x[1] * (n[2] - x[2]) * (n[3] - x[3])
    [] stat = "f3" -> x[1] * (x[1] - 1) * (n[2] - x[2]) * (n[3] - x[3]) - x[1] * (n[1] - x[1]) * (n[2] - x[2]) * x[3]
    [] stat = "f4" -> x[1] * x[3] * (n[2] - x[2]) * (n[4] - x[4]) - x[1] * x[4] * (n[2] - x[2]) * (n[3] - x[3])
Den(stat, n) ==
  CASE stat = "diversity" -> n[1] * (n[1] - 1)
    [] stat = "segregating_sites" -> n[1]
    [] stat = "Y1" -> n[1] * (n[1] - 1) * (n[1] - 2)
    [] stat = "divergence" -> n[1] * n[2]
    [] stat = "Y2" -> n[1] * n[2] * (n[2] - 1)
    [] stat = "f2" -> n[1] * (n[1] - 1) * n[2] * (n[2] - 1)
    [] stat = "Y3" -> n[1] * n[2] * n[3]
    [] stat = "f3" -> n[1] * (n[1] - 1) * n[2] * n[3]
    [] stat = "f4" -> n[1] * n[2] * n[3] * n[4]
Arity(stat) == CASE stat \in {"diversity", "segregating_sites", "Y1"} -> 1 [] stat \in {"divergence", "Y2", "f2"} -> 2
                 [] stat \in {"Y3", "f3"} -> 3 [] stat = "f4" -> 4
\* sets: sequence of sample sets (sequences of node ids); idx: index tuple (0-based set numbers)
SetsOf(sets, idx) == [t \in 1..Len(idx) |-> ToSet(sets[idx[t] + 1])]
SizesOf(sets, idx) == [t \in 1..Len(idx) |-> Cardinality(ToSet(sets[idx[t] + 1]))]
Compl(x, n) == [t \in 1..Len(x) |-> n[t] - x[t]]
BelowCounts(par, S, u) == [t \in 1..Len(S) |-> Cardinality(Desc(par, u) \cap S[t])]
CarrierCounts(ts, s, a, S) == [t \in 1..Len(S) |-> Cardinality({v \in S[t] : StateOf(ts, s, v) = a})]
Sum(S, f(_)) == FoldSet(LAMBDA e, acc : acc + f(e), 0, S)
NodeTerm(stat, par, S, n, u, pol) ==
  LET x == BelowCounts(par, S, u) IN Num(stat, x, n) + (IF pol THEN 0 ELSE Num(stat, Compl(x, n), n))
BranchStat(ts, stat, sets, idx, pol, a, b) ==
  LET S == SetsOf(sets, idx) n == SizesOf(sets, idx) IN
  Sum(a..(b - 1), LAMBDA c : LET par == ParentAt(ts, c) IN
        Sum({u \in NodesOf(ts) : par[u] # NULL}, LAMBDA u : (TimeOf(ts, par[u]) - TimeOf(ts, u)) * NodeTerm(stat, par, S, n, u, pol)))
NodeStat(ts, stat, sets, idx, pol, a, b, u) ==
  LET S == SetsOf(sets, idx) n == SizesOf(sets, idx) IN
  Sum(a..(b - 1), LAMBDA c : NodeTerm(stat, ParentAt(ts, c), S, n, u, pol))
SiteStat(ts, stat, sets, idx, pol, a, b) ==
  LET S == SetsOf(sets, idx) n == SizesOf(sets, idx) IN
  Sum({s \in 0..(Len(ts.sites) - 1) : a <= SitePos(ts, s) /\ SitePos(ts, s) < b}, LAMBDA s :
        Sum({al \in SiteAlleles(ts, s) : ~pol \/ al # ts.sites[s + 1].anc}, LAMBDA al : Num(stat, CarrierCounts(ts, s, al, S), n)))

(***************************************************************************)
(* Further statistics named by C08, each by its documented definition.     *)
(* Rational results are pairs <<num, den>> compared in lowest terms.        *)
(***************************************************************************)
RECURSIVE Gcd(_, _)
Gcd(a, b) == IF b = 0 THEN a ELSE Gcd(b, a % b)
Abs(x) == IF x < 0 THEN -x ELSE x
\* observed <<p, q>> (lowest terms, q > 0; q = 0 encodes nan) equals N / D (D >= 0; D = 0 means undefined)
RatEq(obs, N, D) == IF D = 0 THEN obs[2] = 0
                    ELSE LET g == Gcd(Abs(N), D) IN obs[2] # 0 /\ obs[1] = N \div g /\ obs[2] = D \div g
SumSeq(q) == FoldSet(LAMBDA i, acc : acc + q[i], 0, DOMAIN q)
AllSets(sets) == [t \in 1..Len(sets) |-> ToSet(sets[t])]
AllSizes(sets) == [t \in 1..Len(sets) |-> Cardinality(ToSet(sets[t]))]
Cells(a, b) == a..(b - 1)
StatSitesIn(ts, a, b) == {s \in 0..(Len(ts.sites) - 1) : a <= SitePos(ts, s) /\ SitePos(ts, s) < b}

\* ---- allele frequency spectrum -------------------------------------------------------
\* An allele / branch enters the spectrum when it is carried by / ancestral to some but not all samples of
\* the tree sequence; its coordinate is the vector of counts within the sample sets.
Polymorphic(ts, cnt) == 0 < cnt /\ cnt < Cardinality(SamplesOf(ts))
AfsSite(ts, S, pol, a, b, c) ==   \* number of (site, allele) pairs with coordinate c  (x2 when unpolarised: each counts 1/2)
  Sum(StatSitesIn(ts, a, b), LAMBDA s :
      Cardinality({al \in SiteAlleles(ts, s) : (~pol \/ al # ts.sites[s + 1].anc)
                     /\ Polymorphic(ts, Cardinality({v \in SamplesOf(ts) : StateOf(ts, s, v) = al}))
                     /\ CarrierCounts(ts, s, al, S) = c}))
AfsBranch(ts, S, a, b, c) ==
  Sum(Cells(a, b), LAMBDA x : LET par == ParentAt(ts, x) IN
      Sum({u \in NodesOf(ts) : par[u] # NULL /\ Polymorphic(ts, NumSamplesIn(ts, par, u)) /\ BelowCounts(par, S, u) = c},
          LAMBDA u : TimeOf(ts, par[u]) - TimeOf(ts, u)))
AfsCoords(n) == IF Len(n) = 1 THEN {<<i>> : i \in 0..n[1]} ELSE {<<i, j>> : i \in 0..n[1], j \in 0..n[2]}
AfsIndex(n, c) == IF Len(n) = 1 THEN c[1] + 1 ELSE c[1] * (n[2] + 1) + c[2] + 1
\* res: flattened (row-major) array of one window, already scaled to integers (x span if normalised, x2 for the
\* unpolarised site spectrum).  Polarised: entry c holds the mass of c.  Folded: c and n-c share one entry, the
\* one with the larger total is empty (which of two equal-total coordinates holds the mass is left open).
AfsOK(ts, mode, pol, sets, a, b, res) ==
  LET S == AllSets(sets) n == AllSizes(sets)
      mass(c) == IF mode = "site" THEN AfsSite(ts, S, pol, a, b, c) ELSE AfsBranch(ts, S, a, b, c)
      at(c) == res[AfsIndex(n, c)]
  IN \A c \in AfsCoords(n) :
       IF pol THEN at(c) = mass(c)
       ELSE LET d == Compl(c, n) IN
            IF d = c THEN at(c) = mass(c)
            ELSE /\ at(c) + at(d) = mass(c) + mass(d)
                 /\ SumSeq(c) > SumSeq(d) => at(c) = 0
                 /\ (at(c) = 0 \/ at(d) = 0)

\* ---- Fst = 1 - 2 (d(X) + d(Y)) / (d(X) + 2 d(X,Y) + d(Y)) -----------------------------
Raw(ts, mode, stat, sets, idx, a, b) == IF mode = "site" THEN SiteStat(ts, stat, sets, idx, FALSE, a, b) ELSE BranchStat(ts, stat, sets, idx, FALSE, a, b)
FstOK(ts, mode, sets, idx, a, b, obs) ==
  LET n == AllSizes(sets) i == idx[1] + 1 j == idx[2] + 1
      A == Raw(ts, mode, "diversity", sets, <<idx[1]>>, a, b)     da == n[i] * (n[i] - 1)
      B == Raw(ts, mode, "diversity", sets, <<idx[2]>>, a, b)     db == n[j] * (n[j] - 1)
      C == Raw(ts, mode, "divergence", sets, idx, a, b)          dc == n[i] * n[j]
      num == 2 * C * da * db - A * db * dc - B * da * dc
      den == A * db * dc + 2 * C * da * db + B * da * dc
  \* where d(X) + 2 d(X,Y) + d(Y) = 0 the ratio is undefined (0/0); the library computes it from floating-point sums whose
  \* rounding residue (1e-16) decides between nan and 1, so such windows are left unconstrained
  IN den = 0 \/ RatEq(obs, num, den)

\* ---- genetic relatedness (proportion=False) --------------------------------------------
Prod(q) == FoldSet(LAMBDA i, acc : acc * q[i], 1, DOMAIN q)
RelNum(x, n, i, j, centre) ==
  IF ~centre THEN x[i] * x[j]
  ELSE LET K == Len(n) P == Prod(n) sc == [t \in 1..K |-> x[t] * (P \div n[t])] M == SumSeq(sc)
       IN (K * sc[i] - M) * (K * sc[j] - M)
RelDen(n, i, j, centre) == IF ~centre THEN n[i] * n[j] ELSE (Len(n) * Prod(n)) * (Len(n) * Prod(n))
RelTerm(x, n, i, j, centre, pol) == RelNum(x, n, i, j, centre) + (IF pol THEN 0 ELSE RelNum(Compl(x, n), n, i, j, centre))
Relatedness(ts, mode, sets, idx, centre, pol, a, b) ==
  LET S == AllSets(sets) n == AllSizes(sets) i == idx[1] + 1 j == idx[2] + 1 IN
  IF mode = "site" THEN
    Sum(StatSitesIn(ts, a, b), LAMBDA s :
      Sum({al \in SiteAlleles(ts, s) : ~pol \/ al # ts.sites[s + 1].anc}, LAMBDA al : RelNum(CarrierCounts(ts, s, al, S), n, i, j, centre)))
  ELSE
    Sum(Cells(a, b), LAMBDA x : LET par == ParentAt(ts, x) IN
      Sum({u \in NodesOf(ts) : par[u] # NULL}, LAMBDA u : (TimeOf(ts, par[u]) - TimeOf(ts, u)) * RelTerm(BelowCounts(par, S, u), n, i, j, centre, pol)))

\* ---- general_stat with arbitrary (integer) sample weights ------------------------------
\* W[q] is the weight row of the q-th sample (id order); the state of a node / allele is the column sums over
\* the samples below it / carrying it; T the column totals.
WSum(ts, W, X) == [t \in 1..Len(W[1]) |-> Sum({q \in 1..Len(W) : SampleSeq(ts)[q] \in X}, LAMBDA q : W[q][t])]
GenF(fname, x, T) ==
  CASE fname = "x1" -> x[1]
    [] fname = "x1cx2" -> x[1] * (T[2] - x[2])
    [] fname = "sq" -> x[1] * x[1] + x[2]
GenTerm(fname, x, T, pol) == GenF(fname, x, T) + (IF pol THEN 0 ELSE GenF(fname, Compl(x, T), T))
GeneralBranch(ts, W, fname, pol, a, b) ==
  LET T == WSum(ts, W, SamplesOf(ts)) IN
  Sum(Cells(a, b), LAMBDA x : LET par == ParentAt(ts, x) IN
    Sum({u \in NodesOf(ts) : par[u] # NULL}, LAMBDA u : (TimeOf(ts, par[u]) - TimeOf(ts, u)) * GenTerm(fname, WSum(ts, W, Desc(par, u)), T, pol)))
GeneralNode(ts, W, fname, pol, a, b, u) ==
  LET T == WSum(ts, W, SamplesOf(ts)) IN
  Sum(Cells(a, b), LAMBDA x : GenTerm(fname, WSum(ts, W, Desc(ParentAt(ts, x), u)), T, pol))
GeneralSite(ts, W, fname, pol, a, b) ==
  LET T == WSum(ts, W, SamplesOf(ts)) IN
  Sum(StatSitesIn(ts, a, b), LAMBDA s :
    Sum({al \in SiteAlleles(ts, s) : ~pol \/ al # ts.sites[s + 1].anc}, LAMBDA al :
        GenF(fname, WSum(ts, W, {v \in SamplesOf(ts) : StateOf(ts, s, v) = al}), T)))

\* ---- genealogical nearest neighbours ----------------------------------------------------
\* In one tree: the closest ancestor-or-self of the focal node with a reference node other than the focal node
\* below it; the proportions are those of the reference sets among these nodes (focal excluded); averaged over
\* the cells where such an ancestor exists.
GnnAnc(par, R, f) == LET path == PathUp(par, f) hit == {i \in 1..Len(path) : (Desc(par, path[i]) \cap R) \ {f} # {}}
                     IN IF hit = {} THEN NULL ELSE path[Min(hit)]
Fact(m) == FoldSet(LAMBDA i, acc : acc * i, 1, 1..m)
GnnOK(ts, sets, f, k, obs) ==
  LET S == AllSets(sets) R == UNION {S[t] : t \in 1..Len(S)}
      defd == {x \in Cells(0, ts.L) : GnnAnc(ParentAt(ts, x), R, f) # NULL}
      M == Fact(Cardinality(R))
      num == Sum(defd, LAMBDA x : LET par == ParentAt(ts, x) p == GnnAnc(par, R, f)
                                      tot == Cardinality((Desc(par, p) \cap R) \ {f})
                                  IN Cardinality((Desc(par, p) \cap S[k]) \ {f}) * (M \div tot))
  IN IF defd = {} THEN obs = <<0, 1>> ELSE RatEq(obs, num, M * Cardinality(defd))

\* ---- mean descendants ---------------------------------------------------------------------
\* "the total span of all genomes in sample_sets[k] that inherit from the node, divided by the total span of the genome on which
\* the node is an ancestor to any sample in the tree sequence" (docstring of mean_descendants)
MeanDescOK(ts, sets, u, k, obs) ==
  LET S == AllSets(sets)
      defd == {x \in Cells(0, ts.L) : Desc(ParentAt(ts, x), u) \cap SamplesOf(ts) # {}}
      num == Sum(Cells(0, ts.L), LAMBDA x : Cardinality(Desc(ParentAt(ts, x), u) \cap S[k]))
  IN IF defd = {} THEN (num = 0 => obs = <<0, 1>>) ELSE RatEq(obs, num, Cardinality(defd))

\* ---- pair coalescence counts (per node, not normalised) ------------------------------------
\* a pair coalesces at u when its two lineages join there, i.e. it comes from two different child subtrees of u
\* (a sample that is itself the ancestor of the other member does not "coalesce" with it)
JoinAt(par, v, w, u) == v # u /\ w # u /\ MRCAIn(par, v, w) = u
PairsCoalescingAt(par, A, B, u) ==
  IF A = B THEN Cardinality({pr \in SUBSET A : Cardinality(pr) = 2 /\ \E v, w \in pr : v < w /\ JoinAt(par, v, w, u)})
  ELSE Cardinality({pr \in A \X B : JoinAt(par, pr[1], pr[2], u)})
PairCoal(ts, sets, idx, a, b, u) ==
  LET S == AllSets(sets) IN Sum(Cells(a, b), LAMBDA x : PairsCoalescingAt(ParentAt(ts, x), S[idx[1] + 1], S[idx[2] + 1], u))

\* span_normalise: divided by the span of non-missing sequence in the window, i.e. of the cells whose tree has at least one edge
NonMissing(ts, a, b) == Cardinality({x \in Cells(a, b) : NumEdgesIn(ParentAt(ts, x)) > 0})
PairCoalNormOK(ts, sets, idx, a, b, u, obs) ==
  LET d == NonMissing(ts, a, b) IN IF d = 0 THEN obs = <<0, 1>> ELSE RatEq(obs, PairCoal(ts, sets, idx, a, b, u), d)

\* ---- Robinson-Foulds and Kendall-Colijn distances between two trees of one tree sequence ------
Clades(ts, par) == {Desc(par, u) \cap SamplesOf(ts) : u \in NodesOf(ts)} \ {{}}
\* only nodes of the tree (reachable from its root) define clades
TreeNodes(par, root) == Desc(par, root)
CladesOfTree(ts, par, root) == {Desc(par, u) \cap SamplesOf(ts) : u \in TreeNodes(par, root)}
RF(ts, x, y, rx, ry) == LET A == CladesOfTree(ts, ParentAt(ts, x), rx) B == CladesOfTree(ts, ParentAt(ts, y), ry)
                        IN Cardinality((A \ B) \cup (B \ A))
\* squared KC distance for lambda in {0, 1}: pairs contribute (depth of / time from the root to) their MRCA,
\* single samples 1 / their branch length
\* lam is given in halves: 0, 1 (= 1/2) or 2 (= 1); every entry of the vector is 2 ((1 - lambda) m + lambda M), so that the sum of squared
\* differences is 4 times the squared distance
KcPair(ts, par, root, lam, v, w) == LET m == MRCAIn(par, v, w) IN (2 - lam) * DepthOf(par, m) + lam * (TimeOf(ts, root) - TimeOf(ts, m))
KcSingle(ts, par, lam, v) == (2 - lam) * 1 + lam * (IF par[v] = NULL THEN 0 ELSE TimeOf(ts, par[v]) - TimeOf(ts, v))
KcSquared4(ts, x, y, rx, ry, lam) ==
  LET px == ParentAt(ts, x) py == ParentAt(ts, y) Sm == SamplesOf(ts) IN
  Sum({pr \in Sm \X Sm : pr[1] < pr[2]}, LAMBDA pr : LET d == KcPair(ts, px, rx, lam, pr[1], pr[2]) - KcPair(ts, py, ry, lam, pr[1], pr[2]) IN d * d)
  + Sum(Sm, LAMBDA v : LET d == KcSingle(ts, px, lam, v) - KcSingle(ts, py, lam, v) IN d * d)

\* ---- r^2 between two biallelic sites --------------------------------------------------------
\* with A, B the derived alleles: D = f_AB - f_A f_B ; r^2 = D^2 / (f_A (1 - f_A) f_B (1 - f_B))
R2OK(ts, s1, s2, obs) ==
  LET Sm == SamplesOf(ts) n == Cardinality(Sm)
      cA == {v \in Sm : StateOf(ts, s1, v) # ts.sites[s1 + 1].anc}
      cB == {v \in Sm : StateOf(ts, s2, v) # ts.sites[s2 + 1].anc}
      nA == Cardinality(cA) nB == Cardinality(cB) nAB == Cardinality(cA \cap cB)
      dn == n * nAB - nA * nB
  IN RatEq(obs, dn * dn, nA * (n - nA) * nB * (n - nB))

\* ---- statistics of real-valued sample weights, in exact scaled integers --------------------------------------------
\* n x_k - c T_k : n times the column-k weight below a node / on an allele, centred by the mean weight (c = samples there)
CentredSum(ts, W, X, k) ==
  LET n == Cardinality(SamplesOf(ts)) Tot == WSum(ts, W, SamplesOf(ts)) x == WSum(ts, W, X) IN n * x[k] - Cardinality(X \cap SamplesOf(ts)) * Tot[k]
\* trait_covariance: sum over branches / alleles of (centred weight sum)^2 / (2 (n-1)^2), both sides of every branch;
\* result scaled by 2 n^2 (n-1)^2
TraitCovTerm(ts, W, X, k) == LET v == CentredSum(ts, W, X, k) IN 2 * v * v
TraitCov(ts, mode, W, k, a, b) ==
  IF mode = "site" THEN
    Sum(StatSitesIn(ts, a, b), LAMBDA s : Sum(SiteAlleles(ts, s), LAMBDA al : LET X == {v \in SamplesOf(ts) : StateOf(ts, s, v) = al} IN
          LET c == CentredSum(ts, W, X, k) IN c * c))
  ELSE Sum(Cells(a, b), LAMBDA x : LET par == ParentAt(ts, x) IN
         Sum({u \in NodesOf(ts) : par[u] # NULL}, LAMBDA u : (TimeOf(ts, par[u]) - TimeOf(ts, u)) * TraitCovTerm(ts, W, Desc(par, u), k)))
\* genetic_relatedness_weighted: (x_i - T_i p)(x_j - T_j p) with p the fraction of samples below (centred), or x_i x_j;
\* scaled by n^2 when centred
GrwF(ts, W, X, i, j, centre) ==
  IF centre THEN CentredSum(ts, W, X, i) * CentredSum(ts, W, X, j) ELSE LET x == WSum(ts, W, X) IN x[i] * x[j]
GrwTerm(ts, W, X, i, j, centre, pol) == GrwF(ts, W, X, i, j, centre) + (IF pol THEN 0 ELSE GrwF(ts, W, SamplesOf(ts) \ X, i, j, centre))
Grw(ts, mode, W, idx, centre, pol, a, b) ==
  LET i == idx[1] + 1 j == idx[2] + 1 IN
  IF mode = "site" THEN
    Sum(StatSitesIn(ts, a, b), LAMBDA s : Sum({al \in SiteAlleles(ts, s) : ~pol \/ al # ts.sites[s + 1].anc}, LAMBDA al :
          GrwF(ts, W, {v \in SamplesOf(ts) : StateOf(ts, s, v) = al}, i, j, centre)))
  ELSE Sum(Cells(a, b), LAMBDA x : LET par == ParentAt(ts, x) IN
         Sum({u \in NodesOf(ts) : par[u] # NULL}, LAMBDA u : (TimeOf(ts, par[u]) - TimeOf(ts, u)) * GrwTerm(ts, W, Desc(par, u) \cap SamplesOf(ts), i, j, centre, pol)))
=============================================================================
