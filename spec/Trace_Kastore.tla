----------------------------- MODULE Trace_Kastore -----------------------------
(* C10, code -> spec: faults injected into real dumped files and the observed     *)
(* outcome of loading them.  The file is given by its layout spec (type, key      *)
(* length, array length of every item); the layout function classifies each byte  *)
(* and the Reader model gives the container-level verdict for field faults.       *)
(* outcome: "raise" | "same" (an equal object) | "diff_ok" (a different but       *)
(* well-formed object that round-trips) | "diff_bad"                              *)
EXTENDS Kastore, Json, IOUtils, SequencesExt
Cases == ndJsonDeserialize(IOEnv.CASES)
VARIABLE k
ApplyF(f, c) ==
  CASE c.kind = "fsize" -> [f EXCEPT !.fsize = c.v]
    [] c.kind = "nitems" -> [f EXCEPT !.nitems = c.v]
    [] c.kind = "type" -> [f EXCEPT !.items[c.j].type = c.v]
    [] c.kind = "ks" -> [f EXCEPT !.items[c.j].ks = c.v]
    [] c.kind = "kl" -> [f EXCEPT !.items[c.j].kl = c.v]
    [] c.kind = "as" -> [f EXCEPT !.items[c.j].as = c.v]
    [] c.kind = "al" -> [f EXCEPT !.items[c.j].al = c.v]
FaultClause(spec, f0, c) ==
  IF c.t = "prefix" THEN
       \* every proper prefix is rejected (the model agrees: Reader on the prefix is ERR/EOF)
       IF c.out # "raise" THEN "prefix_loaded"
       ELSE IF Reader([f0 EXCEPT !.len = c.len]) \notin {"ERR", "EOF"} THEN "model_accepts_prefix" ELSE "ok"
  ELSE IF c.t = "byte" THEN
       LET kind == ByteKind(spec, c.off) IN
       IF kind \in Structural THEN (IF c.out = "raise" THEN "ok" ELSE "structural_byte_not_rejected")
       ELSE IF kind \in Ignored THEN (IF c.out \in {"raise", "same"} THEN "ok" ELSE "ignored_byte_changed_object")
       ELSE IF kind = "data" THEN (IF c.out \in {"raise", "same", "diff_ok"} THEN "ok" ELSE "data_byte_gave_malformed_object")
       ELSE "byte_beyond_file"
  ELSE \* whole-field substitution
       LET v == Reader(ApplyF(f0, c)) IN
       IF v = "ERR" /\ c.out # "raise" THEN "container_rejects_but_loaded"
       ELSE IF c.out = "raise" THEN "ok" ELSE "structural_field_not_rejected"
Fails(c) ==
  LET f0 == Write(c.spec) IN
  {ToString(i) \o ":" \o FaultClause(c.spec, f0, c.faults[i]) : i \in {q \in 1..Len(c.faults) : FaultClause(c.spec, f0, c.faults[q]) # "ok"}}
Init == k = 0
Next == k < Len(Cases) /\ k' = k + 1
Spec == Init /\ [][Next]_k
Report == k = 0 \/ PrintT(<<"V", Cases[k].id, Fails(Cases[k])>>)
=============================================================================
