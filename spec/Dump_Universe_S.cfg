CONSTANTS
  NumNodesC = 4
  LC = 3
  MaxEdges = 3
  TimeVecs <- TimeVecsS
  FlagVecs <- FlagVecsS
SPECIFICATION Spec
CHECK_DEADLOCK FALSE
