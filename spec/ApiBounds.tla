------------------------------ MODULE ApiBounds ------------------------------
(***************************************************************************)
(* C09: the catalogue of public entry points with typed argument slots, the  *)
(* boundary values of every slot type, and the acceptance rule: a call whose *)
(* identifier argument is out of range (equal to the row count, below -1,    *)
(* or huge) must raise; any call may raise a Python exception; none may      *)
(* crash, corrupt memory or poison a later legal call.  TLC enumerates the   *)
(* call programs (single calls exhaustively over boundary values; pairs      *)
(* "failing call, then legal call") for the harness to replay under          *)
(* AddressSanitizer / UBSan.  dims = sizes of the object the calls act on.   *)
(***************************************************************************)
EXTENDS Integers, Sequences, FiniteSets, SequencesExt, TLC
HUGE == 2147483647
NANV == 900001
INFV == 900003
\* slot kind -> the dimension it indexes (row ids valid in 0..dim-1)
DimOf(kind) == CASE kind = "node" -> "nodes" [] kind = "node_v" -> "nodes" [] kind = "edge" -> "edges" [] kind = "site" -> "sites"
                 [] kind = "mutation" -> "mutations" [] kind = "individual" -> "individuals" [] kind = "population" -> "populations"
                 [] kind = "migration" -> "migrations" [] kind = "provenance" -> "provenances" [] kind = "tree" -> "trees"
                 [] kind = "node_list" -> "nodes" [] kind = "site_list" -> "sites" [] kind = "sample_set_index" -> "sets"
IdKinds == {"node", "node_v", "edge", "site", "mutation", "individual", "population", "migration", "provenance", "tree", "sample_set_index"}
\* entry points documented to accept Python-style negative indexes (-n .. -1 count from the end)
PyIndexed == {"ts.node", "ts.edge", "ts.site", "ts.mutation", "ts.individual", "ts.population", "ts.migration", "ts.provenance", "ts.at_index", "tree.seek_index"}
ListKinds == {"node_list", "site_list"}
\* identifiers beyond 32 bits (TLC integers are 32 bit: tokens).  W32 + k stands for 2^32 + k and W64 + k for 2^64 + k: values that
\* land on the valid identifier k when an argument parser truncates them to a C int.  They are out of range like any other huge value.
W32 == 900100
W64 == 900200
Wraps(n) == {W32, W32 + 1, W64 + 1} \cup (IF n >= 1 THEN {W32 + (n - 1)} ELSE {})
IdVals(n) == {-n - 1, -n, -2, -1, 0, n - 1, n, n + 1, HUGE} \cup Wraps(n)
\* node_v: the virtual root (id = number of nodes) is a legal argument
ValidId(kind, v, dims) == LET n == dims[DimOf(kind)] IN IF kind = "node_v" THEN 0 <= v /\ v <= n ELSE 0 <= v /\ v < n
Vals(kind, dims) ==
  CASE kind \in IdKinds -> IdVals(dims[DimOf(kind)])
    [] kind \in ListKinds -> LET n == dims[DimOf(kind)] IN
          {<<>>, <<0>>, <<n - 1>>, <<n>>, <<-1>>, <<-2>>, <<HUGE>>, <<0, 0>>, <<0, n>>, <<n + 1, 0>>, <<W32 + 1>>, <<0, W32>>, <<W64 + 1>>}
    [] kind = "position" -> {-1, 0, dims.L - 1, dims.L, dims.L + 1, NANV, INFV}
    [] kind = "time" -> {-1, 0, 1, NANV, INFV}
    [] kind = "windows" -> {<<0, dims.L>>, <<0, 1, dims.L>>, <<dims.L, 0>>, <<0, 0, dims.L>>, <<1, dims.L>>, <<0, dims.L + 1>>, <<>>, <<0>>, <<-1, dims.L>>, <<0, NANV, dims.L>>}
    [] kind = "intervals" -> {<<>>, <<<<0, 1>>>>, <<<<1, 0>>>>, <<<<0, dims.L + 1>>>>, <<<<-1, 1>>>>, <<<<0, 2>>, <<1, 3>>>>, <<<<2, 3>>, <<0, 1>>>>, <<<<0, NANV>>>>}
    [] kind = "small_int" -> {-1, 0, 1, 2, HUGE}
\* must the call raise?  (an out-of-range identifier anywhere; -1 is left to the entry point)
BadId(kind, v, dims) == kind \in IdKinds /\ v # -1 /\ ~ValidId(kind, v, dims)
BadList(kind, v, dims) == kind \in ListKinds /\ \E i \in 1..Len(v) : v[i] # -1 /\ ~(0 <= v[i] /\ v[i] < dims[DimOf(kind)])
MustRaise(name, kinds, args, dims) ==
  IF name \in PyIndexed THEN LET n == dims[DimOf(kinds[1])] IN args[1] < -n \/ args[1] >= n
  ELSE \E i \in 1..Len(kinds) : BadId(kinds[i], args[i], dims) \/ BadList(kinds[i], args[i], dims)
RECURSIVE ArgTuples(_, _)
ArgTuples(kinds, dims) == IF kinds = <<>> THEN {<<>>} ELSE {<<v>> \o r : v \in Vals(Head(kinds), dims), r \in ArgTuples(Tail(kinds), dims)}
\* the catalogue: entry name -> argument kinds (the harness maps names to callables)
Entries ==
  {[name |-> nm, kinds |-> <<"node_v">>] : nm \in {"tree.parent", "tree.left_child", "tree.right_child", "tree.left_sib", "tree.right_sib",
       "tree.num_children", "tree.edge", "tree.children", "tree.is_leaf", "tree.is_internal", "tree.num_samples", "tree.num_tracked_samples",
       "tree.samples", "tree.leaves", "tree.nodes_pre", "tree.nodes_post", "tree.nodes_minlex", "tree.depth", "tree.left_sample", "tree.right_sample"}}
  \cup {[name |-> nm, kinds |-> <<"node_v">>] : nm \in {"tree.time", "tree.branch_length", "tree.population", "tree.is_sample", "tree.as_newick_root",
       "tree.total_branch_length_below"}}
  \cup {[name |-> "ts.node", kinds |-> <<"node">>]}
  \cup {[name |-> nm, kinds |-> <<"node_v", "node_v">>] : nm \in {"tree.mrca", "tree.tmrca", "tree.is_descendant"}}
  \cup {[name |-> "ts.edge", kinds |-> <<"edge">>], [name |-> "ts.site", kinds |-> <<"site">>], [name |-> "ts.mutation", kinds |-> <<"mutation">>],
        [name |-> "ts.individual", kinds |-> <<"individual">>], [name |-> "ts.population", kinds |-> <<"population">>],
        [name |-> "ts.migration", kinds |-> <<"migration">>], [name |-> "ts.provenance", kinds |-> <<"provenance">>],
        [name |-> "ts.at_index", kinds |-> <<"tree">>], [name |-> "tree.seek_index", kinds |-> <<"tree">>],
        [name |-> "ts.at", kinds |-> <<"position">>], [name |-> "tree.seek", kinds |-> <<"position">>],
        [name |-> "variant.decode", kinds |-> <<"site">>]}
  \cup {[name |-> nm, kinds |-> <<"node_list">>] : nm \in {"ts.simplify", "ts.subset", "ts.ibd_within", "ts.variants_samples", "ts.genotype_matrix_samples",
       "ts.haplotypes_samples", "ts.diversity_set", "ts.segregating_sites_set", "ts.afs_set", "ts.mean_descendants", "ts.gnn_focal", "ts.tree_tracked",
       "ts.divergence_matrix_ids", "ts.pair_coalescence_counts", "tables.link_ancestors_samples", "tables.link_ancestors_ancestors",
       "ts.count_topologies", "ts.trait_like_general_stat", "ts.ibd_between_one", "ts.extend_haplotypes_noop", "ts.Y1_set",
       "ts.relatedness_vector_nodes"}}
  \* identifiers that only reach the C library under a particular option combination: one entry of a full-length node mapping handed to
  \* union with and without the equality check of the shared part
  \cup {[name |-> nm, kinds |-> <<"node">>] : nm \in {"tables.union_mapping_checked", "tables.union_mapping_unchecked", "ts.union_mapping_unchecked"}}
  \cup {[name |-> "ts.delete_sites", kinds |-> <<"site_list">>]}
  \cup {[name |-> "ts.divergence_index", kinds |-> <<"sample_set_index", "sample_set_index">>],
        [name |-> "ts.f4_index", kinds |-> <<"sample_set_index", "sample_set_index">>]}
  \cup {[name |-> nm, kinds |-> <<"windows">>] : nm \in {"ts.diversity_windows", "ts.afs_windows", "ts.divergence_matrix_windows", "ts.general_stat_windows"}}
  \cup {[name |-> nm, kinds |-> <<"intervals">>] : nm \in {"ts.keep_intervals", "ts.delete_intervals"}}
  \cup {[name |-> nm, kinds |-> <<"time">>] : nm \in {"ts.decapitate", "ts.split_edges", "tables.delete_older", "tree.num_lineages"}}
  \cup {[name |-> nm, kinds |-> <<"small_int">>] : nm \in {"tables.nodes.truncate", "tables.edges.truncate", "ts.write_vcf_ploidy", "tree.root_threshold",
       "tables.sort_edge_start", "ts.divmat_threads"}}
\* ---- automatically discovered entries ------------------------------------------------------
\* Every public method of TreeSequence / Tree / TableCollection / the table classes / Variant / LdCalculator is an
\* entry point; its parameters are typed by name (u, node, id_, site, ... : an identifier; nodes, samples, focal, ... :
\* identifier lists; sample_sets, between: lists of lists; indexes: tuples of sample-set indexes; keep / masks and
\* arrays: lengths; ...).  The harness introspects the signatures and passes (name, kind) pairs; for these entries
\* the rule is only "returns or raises; no memory error, abort or hang; later legal calls unaffected" -- whether an
\* out-of-range value must be *rejected* is stated (MustRaise) only for the curated catalogue above, because a
\* parameter that merely filters (samples(population=99)) may legitimately accept any value.
DimNames == {"nodes", "edges", "sites", "mutations", "individuals", "populations", "migrations", "provenances", "trees", "samples"}
AllN(dims) == {dims[d] : d \in DimNames}
GenericIds(dims) == UNION {IdVals(n) : n \in AllN(dims)}
GenericLists(dims) == {<<>>} \cup UNION {{<<0>>, <<n - 1>>, <<n>>, <<-1>>, <<-2>>, <<HUGE>>, <<0, 0>>, <<0, n>>, <<n + 1, 0>>, <<n - 1, 0>>, <<W32 + 1>>, <<0, W32>>} : n \in AllN(dims)}
Lengths(dims) == {v \in {0, 1} \cup UNION {{n - 1, n, n + 1} : n \in AllN(dims)} : v >= 0}
IndexTuples == {<<>>, <<0>>, <<0, 0>>, <<0, 1>>, <<-1, 0>>, <<2, 0>>, <<HUGE, 0>>, <<0, 1, 0>>, <<0, 1, 2>>, <<0, 0, 1, 1>>, <<0, 1, 2, HUGE>>, <<0, 1, 0, -2>>}
AutoVals(kind, dims) ==
  CASE kind = "id" -> GenericIds(dims)
    [] kind \in {"id_list", "id_list_list", "site_lists"} -> GenericLists(dims)
    [] kind = "index_tuples" -> IndexTuples
    [] kind = "length" -> Lengths(dims)
    [] kind = "small" -> {-1, 0, 1, 2, 65}
    [] OTHER -> Vals(kind, dims)
AutoPrograms(dims, auto) == UNION {{[name |-> auto[i][1], kinds |-> <<auto[i][2]>>, args |-> <<v>>, must_raise |-> 0] : v \in AutoVals(auto[i][2], dims)} : i \in 1..Len(auto)}
\* column-level entry points (set_columns / append_columns): one column of a consistent set is damaged
ColumnFaults == {"truncate", "extend", "empty", "offset_nonmonotone", "offset_last_short", "offset_last_long", "offset_first_nonzero", "offset_negative", "offset_huge", "wrong_dtype_float"}
ColumnPrograms == {[name |-> "columns", kinds |-> <<"table", "column", "fault", "method">>, args |-> <<t, c, f, m>>, must_raise |-> 0] :
                     t \in {"nodes", "edges", "sites", "mutations", "individuals", "populations", "migrations", "provenances"}, c \in 0..11, f \in ColumnFaults,
                     m \in {"set_columns", "append_columns"}}
Programs(dims) == UNION {{[name |-> e.name, kinds |-> e.kinds, args |-> a, must_raise |-> IF MustRaise(e.name, e.kinds, a, dims) THEN 1 ELSE 0] :
                            a \in ArgTuples(e.kinds, dims)} : e \in Entries}
=============================================================================
