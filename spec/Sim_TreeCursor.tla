--------------------------- MODULE Sim_TreeCursor ---------------------------
(* spec -> code: behaviours of the TreeCursor machine with the expected      *)
(* projected state after every action, emitted as JSON for replay on real    *)
(* tskit.Tree objects (run with tlc -simulate).                              *)
EXTENDS MC_TreeCursor, Json, IOUtils
CONSTANT Depth
VARIABLE hist
svars == <<ts, o, st, hist>>
AsSeq(f, n) == [i \in 1..n |-> f[i - 1]]
Exp(s) == [index |-> s.index, left |-> s.left, right |-> s.right,
           parent |-> AsSeq(s.parent, NumNodes(ts)), edge |-> AsSeq(s.edge, NumNodes(ts)),
           ns |-> AsSeq(s.ns, NumNodes(ts) + 1), nt |-> AsSeq(s.nt, NumNodes(ts) + 1),
           roots |-> s.roots, numEdges |-> s.numEdges]
Rec(op, arg) == hist' = Append(hist, [op |-> op, arg |-> arg, exp |-> Exp(st')])
\* the tree sequences to simulate on are elements of the TLC-enumerated universe (Dump_Universe),
\* chosen by the harness and passed back in; this keeps the number of initial states small
SimTs == ndJsonDeserialize(IOEnv.SIMTS)
SInit == /\ ts \in ToSet(SimTs)
         /\ o \in {[th |-> th, tracked |-> tr] : th \in Thresholds, tr \in TrackedChoices(ts)}
         /\ st = NullTree(ts, o)
         /\ hist = <<>>
SNext == /\ Len(hist) < Depth
         /\ \/ ANext /\ Rec("next", 0)
            \/ APrev /\ Rec("prev", 0)
            \/ AClear /\ Rec("clear", 0)
            \/ AFirst /\ Rec("first", 0)
            \/ ALast /\ Rec("last", 0)
            \/ \E x \in 0..(ts.L - 1) : st' = SeekS(ts, o, st, x) /\ UNCHANGED <<ts, o>> /\ Rec("seek", x)
            \/ \E i \in 0..(NumTrees(ts) - 1) : st' = SeekIndexS(ts, o, st, i) /\ UNCHANGED <<ts, o>> /\ Rec("seek_index", i)
SSpec == SInit /\ [][SNext]_svars
Emit == Len(hist) < Depth \/ PrintT(<<"H", ToJson([ts |-> ts, th |-> o.th, tracked |-> o.tracked, hist |-> hist])>>)
=============================================================================
