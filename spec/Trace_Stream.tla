----------------------------- MODULE Trace_Stream -----------------------------
(* C05, code -> spec.  Each case is a history on one real stream (file or pipe): *)
(* dumps of table collections / tree sequences followed by loads, with the byte  *)
(* position observed after every call and the identity of every loaded object    *)
(* established by the harness through byte-wise comparison of every column; plus  *)
(* round-trip identities (asdict/fromdict, pickle, copy) and equals()/            *)
(* assert_equals() results under all 64 ignore_* combinations.                    *)
EXTENDS Stream, Json, IOUtils
Cases == ndJsonDeserialize(IOEnv.CASES)
VARIABLES k, j, bad
tvars == <<k, j, bad, stream, rpos, bpos, last>>
C == Cases[k]
Ig(n) == [metadata |-> (n \div 1) % 2 = 1, ts_metadata |-> (n \div 2) % 2 = 1, tables |-> (n \div 4) % 2 = 1,
          provenance |-> (n \div 8) % 2 = 1, timestamps |-> (n \div 16) % 2 = 1, reference_sequence |-> (n \div 32) % 2 = 1]
AsFn(r) == [c \in Comps |-> r[c]]
\* identities and equality observations, checked when a case starts
StaticFails(c) ==
  {cl \in {"roundtrip", "equals_def", "assert_equals_agrees", "treesequence_equals_def", "treesequence_assert_equals_agrees"} :
    ~ CASE cl = "roundtrip" -> \A i \in 1..Len(c.roundtrips) : c.roundtrips[i].same = 1
        [] cl = "equals_def" -> \A i \in 1..Len(c.eqs) : LET e == c.eqs[i] IN
               \A n \in 0..63 : (e.eq[n + 1] = 1) = Equals(AsFn(e.a), AsFn(e.b), Ig(n))
        [] cl = "assert_equals_agrees" -> \A i \in 1..Len(c.eqs) : c.eqs[i].eq = c.eqs[i].aeq
        \* the same 64 evaluations through TreeSequence.equals / assert_equals (recorded when both collections are valid)
        [] cl = "treesequence_equals_def" -> \A i \in 1..Len(c.eqs) : LET e == c.eqs[i] IN
               e.tseq = <<>> \/ \A n \in 0..63 : (e.tseq[n + 1] = 1) = Equals(AsFn(e.a), AsFn(e.b), Ig(n))
        [] cl = "treesequence_assert_equals_agrees" -> \A i \in 1..Len(c.eqs) : c.eqs[i].tseq = c.eqs[i].tsaeq
  }
TInit == k = 1 /\ j = 0 /\ bad = StaticFails(C) /\ Init
Ev == C.ops[j + 1]
TDump == /\ Ev.op = "dump"
         /\ stream' = Append(stream, [id |-> Ev.obj, size |-> Ev.size]) /\ last' = [kind |-> "dump", obj |-> Ev.obj]
         /\ UNCHANGED <<rpos, bpos>>
         /\ bad' = bad \cup (IF Ev.closed = 1 THEN {"dump_closed_the_callers_stream"}
                               ELSE IF Ev.wpos # SumSize(stream') THEN {"write_position"} ELSE {})
TLoad == /\ Ev.op = "load"
         /\ IF rpos < Len(stream)
            THEN /\ LoadOk
                 /\ bad' = bad \cup (IF Ev.eof = 1 THEN {"spurious_eof"} ELSE {})
                               \cup (IF Ev.err = 1 THEN {"load_failed"} ELSE {})
                               \cup (IF Ev.eof = 0 /\ Ev.err = 0 /\ Ev.got # stream[rpos + 1].id THEN {"loaded_object_differs"} ELSE {})
                               \cup (IF Ev.eof = 0 /\ Ev.err = 0 /\ Ev.rpos # -1 /\ Ev.rpos # bpos' THEN {"consumed_not_exactly_one_object"} ELSE {})
            ELSE /\ LoadEof
                 /\ bad' = bad \cup (IF Ev.eof # 1 THEN {"eof_not_signalled_distinctly"} ELSE {})
Step == j < Len(C.ops) /\ (TDump \/ TLoad) /\ j' = j + 1 /\ k' = k
NextCase == /\ j = Len(C.ops) /\ k < Len(Cases) /\ k' = k + 1 /\ j' = 0 /\ bad' = StaticFails(Cases[k + 1])
            /\ stream' = <<>> /\ rpos' = 0 /\ bpos' = 0 /\ last' = [kind |-> "none"]
TNext == Step \/ NextCase
TSpec == TInit /\ [][TNext]_tvars
Report == j < Len(C.ops) \/ PrintT(<<"V", C.id, bad>>)
=============================================================================
