----------------------------- MODULE Trace_Extras2 -----------------------------
(* code -> spec for TskExtras2: recorded positional look-ups and derived row views *)
EXTENDS TskExtras2, Json, IOUtils, TLC
Cases == ndJsonDeserialize(IOEnv.CASES)
VARIABLE k
NormIx(i, n) == IF i < 0 THEN i + n ELSE i
CallFails(ts, c) ==
  CASE c.kind = "lineages" ->
         {cl \in {"num_lineages"} : \E j \in 1..Len(c.queries) : c.queries[j].n # NumLineages(ts, c.queries[j].x, c.queries[j].t)}
    [] c.kind = "at" ->
         {cl \in {"at_index_of_tree", "at_interval"} :
            \E j \in 1..Len(c.queries) : LET q == c.queries[j] i == TreeIndexAt(ts, q.x) IN
              ~ CASE cl = "at_index_of_tree" -> q.index = i
                  [] cl = "at_interval" -> q.left = TreeLeft(ts, i) /\ q.right = TreeRight(ts, i)}
    [] c.kind = "at_index" ->
         {cl \in {"at_index_range", "at_index_tree"} :
            \E j \in 1..Len(c.queries) : LET q == c.queries[j] n == NumTrees(ts) i == NormIx(q.i, n) IN
              ~ CASE cl = "at_index_range" -> (q.raised = 1) = (i < 0 \/ i >= n)
                  [] cl = "at_index_tree" -> q.raised = 1 \/ i < 0 \/ i >= n \/ (q.index = i /\ q.left = TreeLeft(ts, i) /\ q.right = TreeRight(ts, i))}
    [] c.kind = "coiterate" ->
         {cl \in {"coiterate_pieces"} : c.pieces # CoPieces(ts, c.other)}
    [] c.kind = "impute" ->
         {cl \in {"imputed_times"} : c.times # ImputedTimes(ts)}
    [] c.kind = "mut_edge" ->
         {cl \in {"mutation_edge"} : c.edges # [m \in MutIx(ts) |-> MutEdge(ts, m)]}
    [] c.kind = "site_views" ->
         {cl \in {"site_mutations", "site_by_position"} :
            ~ CASE cl = "site_mutations" -> c.site_muts = [s \in 1..Len(ts.sites) |-> SiteMuts(ts, s - 1)]
                [] cl = "site_by_position" -> \A x \in 0..(ts.L - 1) : c.by_pos[x + 1] = SiteAt(ts, x)}
    [] c.kind = "tree_sites" ->
         {cl \in {"tree_sites", "tree_num_sites", "tree_num_mutations"} :
            \E i \in 0..(NumTrees(ts) - 1) :
              ~ CASE cl = "tree_sites" -> c.sites[i + 1] = SitesOfTree(ts, i)
                  [] cl = "tree_num_sites" -> c.num_sites[i + 1] = Len(SitesOfTree(ts, i))
                  [] cl = "tree_num_mutations" -> c.num_muts[i + 1] = NumMutsOfTree(ts, i)} \cup
         (IF Len(c.sites) = NumTrees(ts) THEN {} ELSE {"tree_count"})
    [] c.kind = "ind_nodes" ->
         {cl \in {"individual_nodes"} : c.nodes # [i \in 1..ts.nind |-> IndNodeSeq(ts, i - 1)]}
Fails(c) == UNION {{c.calls[i].kind \o ":" \o cl : cl \in CallFails(c.ts, c.calls[i])} : i \in 1..Len(c.calls)}
Init == k = 0
Next == k < Len(Cases) /\ k' = k + 1
Spec == Init /\ [][Next]_k
Report == k = 0 \/ PrintT(<<"V", Cases[k].id, Fails(Cases[k])>>)
=============================================================================
