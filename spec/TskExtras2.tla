------------------------------ MODULE TskExtras2 ------------------------------
(***************************************************************************)
(* Behaviour beyond the twenty listed properties (spec growth, part 2):     *)
(* positional look-ups and derived per-row views of a tree sequence.        *)
(*                                                                          *)
(*  Tree.num_lineages(t): the branches (child u, parent p) below the roots  *)
(*    of the tree that satisfy time(u) <= t < time(p).                       *)
(*  TreeSequence.at(x) / at_index(i): the tree whose interval contains x /  *)
(*    the i-th tree, negative indexes counted from the end.                  *)
(*  TreeSequence.coiterate(other): the common refinement of the two tree    *)
(*    partitions, each piece paired with the covering tree of either side.   *)
(*  impute_unknown_mutations_time(): known times kept, unknown times         *)
(*    replaced by the time of the mutation's node.                           *)
(*  Mutation.edge: the edge above the mutation's node at the site position.  *)
(*  Tree.sites() / num_sites / num_mutations: the sites in [left, right).    *)
(*  Site.mutations: the mutation rows of the site in table order.            *)
(*  TreeSequence.site(position=x): the site at exactly x, else an error.     *)
(*  Individual.nodes: the nodes that name the individual, in id order.       *)
(***************************************************************************)
EXTENDS TskTrees
UNKT == -1
\* index (0-based) of the tree covering cell x: number of breakpoints <= x, minus one
TreeIndexAt(ts, x) == Cardinality({b \in BPSet(ts) : b <= x}) - 1
TreeLeft(ts, i) == BPSeq(ts)[i + 1]
TreeRight(ts, i) == BPSeq(ts)[i + 2]
\* "reachable from the samples" is read as "in a subtree hanging from a root of the tree" (roots are the parentless nodes with a sample
\* below them): branches ending in a non-sample leaf under such a root count, branches of sample-free components do not (DESIGN 11.4)
UnderRoots(ts, par) == UNION {Desc(par, r) : r \in RootsIn(ts, par, 1)}
NumLineages(ts, x, t) == LET par == ParentAt(ts, x) IN
  Cardinality({u \in UnderRoots(ts, par) : par[u] # NULL /\ TimeOf(ts, u) <= t /\ t < TimeOf(ts, par[u])})
\* coiterate: pieces of the common refinement as <<left, right, index in a, index in b>>
CoPieces(a, b) == LET bp == SetToSortSeq(BPSet(a) \cup BPSet(b), <) IN
  [i \in 1..(Len(bp) - 1) |-> <<bp[i], bp[i + 1], TreeIndexAt(a, bp[i]), TreeIndexAt(b, bp[i])>>]
MutIx(ts) == 1..Len(ts.muts)
ImputedTimes(ts) == [m \in MutIx(ts) |-> IF ts.muts[m].time = UNKT THEN TimeOf(ts, ts.muts[m].node) ELSE ts.muts[m].time]
MutEdge(ts, m) == LET x == ts.sites[ts.muts[m].site + 1].pos  cov == CoveringChild(ts, ts.muts[m].node, x) IN
  IF cov = {} THEN NULL ELSE (CHOOSE i \in cov : TRUE) - 1
SiteMuts(ts, s) == SetToSortSeq({m - 1 : m \in {j \in MutIx(ts) : ts.muts[j].site = s}}, <)
SitesOfTree(ts, i) == SetToSortSeq({s - 1 : s \in SitesIn(ts, TreeLeft(ts, i), TreeRight(ts, i))}, <)
NumMutsOfTree(ts, i) == Cardinality({m \in MutIx(ts) : ts.muts[m].site + 1 \in SitesIn(ts, TreeLeft(ts, i), TreeRight(ts, i))})
SiteAt(ts, x) == LET hit == {s \in 1..Len(ts.sites) : ts.sites[s].pos = x} IN IF hit = {} THEN NULL ELSE (CHOOSE s \in hit : TRUE) - 1
IndNodeSeq(ts, i) == SetToSortSeq({u \in NodesOf(ts) : ts.ind[u + 1] = i}, <)
=============================================================================
