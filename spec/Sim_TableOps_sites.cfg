CONSTANTS
  Cls = "sites"
  MaxRows = 4
  Depth = 8
  Emit = TRUE
SPECIFICATION Spec
INVARIANT EmitHist
CHECK_DEADLOCK FALSE
