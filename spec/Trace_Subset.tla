----------------------------- MODULE Trace_Subset -----------------------------
(* C14, code -> spec: recorded subset() and union() calls validated against the  *)
(* relations of TskSubset; the inverse law (split with subset, re-join with      *)
(* union, compare canonical forms) and the refusal when shared parts differ.     *)
EXTENDS TskSubset, Json, IOUtils, TLC
Cases == ndJsonDeserialize(IOEnv.CASES)
VARIABLE k
Pre(p, S) == {p \o "_" \o c : c \in S}
Fails(c) ==
  Pre("subset", SubsetRel(c.a, c.nodes, c.ro = 1, c.ru = 1, c.sub))
  \cup (IF c.union_skip = 1 THEN {} ELSE
          Pre("union", UnionRel(c.ua, c.ub, c.mapping, c.addpop = 1, c.uni))
          \cup (IF c.inverse_applicable = 1 /\ c.inverse_same = 0 THEN {"union_does_not_invert_subset"} ELSE {}))
  \cup (IF c.tamper_skip = 1 THEN {} ELSE
          (IF c.tamper_check = 1 /\ c.tamper_raised = 0 THEN {"union_accepted_differing_shared_part"} ELSE {})
          \cup (IF c.tamper_check = 0 /\ c.tamper_raised = 1 THEN {"union_refused_without_check"} ELSE {}))
  \cup (IF c.clean_raised = 1 THEN {"union_refused_equal_shared_part"} ELSE {})
  \* the same calls on the same tables with the metadata of a random subset of rows removed: row for row the same result, each row
  \* with the metadata (or none) of the row it came from
  \cup (IF c.facade_subset_same = 1 THEN {} ELSE {"TreeSequence_subset_differs_from_TableCollection_subset"})
  \cup (IF c.facade_union_same = 1 THEN {} ELSE {"TreeSequence_union_differs_from_TableCollection_union"})
  \cup (IF c.ragged_subset_ok = 1 THEN {} ELSE {"subset_with_ragged_metadata"})
  \cup (IF c.ragged_union_ok = 1 THEN {} ELSE {"union_with_ragged_metadata"})
Init == k = 0
Next == k < Len(Cases) /\ k' = k + 1
Spec == Init /\ [][Next]_k
Report == k = 0 \/ PrintT(<<"V", Cases[k].id, Fails(Cases[k])>>)
=============================================================================
