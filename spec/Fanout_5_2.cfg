CONSTANTS
  NumItems = 5
  NumThreads = 2
SPECIFICATION Spec
INVARIANT CombinedIsSequential
INVARIANT ChunkingOK
PROPERTY Termination
