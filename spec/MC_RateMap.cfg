CONSTANTS
  L = 4
  Rates = {0, 1, 3}
  Depth = 2
SPECIFICATION Spec
INVARIANT WellFormed
INVARIANT Meaning
INVARIANT Boundaries
INVARIANT ValueIff
INVARIANT CumShape
INVARIANT WholeIsIdentity
INVARIANT Composition
PROPERTY NoNewMass
CHECK_DEADLOCK FALSE
