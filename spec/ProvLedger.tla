----------------------------- MODULE ProvLedger -----------------------------
(***************************************************************************)
(* Spec growth beyond the listed properties: the provenance ledger.         *)
(*                                                                          *)
(* Every editing operation that takes `record_provenance` appends exactly   *)
(* one provenance row naming the command when the flag is on and none when   *)
(* it is off - also when the operation is carried out by other operations    *)
(* internally (keep_intervals simplifies, delete_intervals keeps the         *)
(* complement, trim = ltrim + rtrim, the TreeSequence methods call the       *)
(* TableCollection ones): nested calls never add rows of their own.          *)
(* Operations without the parameter (sort, build_index, ...) add nothing.    *)
(* The ledger is append-only: earlier rows are never changed or removed,     *)
(* except by clear(clear_provenance=True).                                   *)
(***************************************************************************)
EXTENDS Naturals, Sequences, TLC, Json
CONSTANTS MaxSteps, Emit
VARIABLES ledger, hist
vars == <<ledger, hist>>
Recording == {"simplify", "subset", "union", "delete_sites", "delete_intervals", "keep_intervals", "ltrim", "rtrim", "trim"}
Silent == {"sort", "build_index", "deduplicate_sites", "compute_mutation_parents", "delete_older", "copy"}
Facades == {"tables", "ts"}
Events == {[op |-> o, rec |-> r, facade |-> f] : o \in Recording, r \in {0, 1}, f \in Facades}
          \cup {[op |-> o, rec |-> 0, facade |-> "tables"] : o \in Silent}
          \cup {[op |-> "clear", rec |-> 0, facade |-> "tables", wipe |-> w] : w \in {0, 1}}
Apply(ev) == IF ev.op = "clear" THEN (IF ev.wipe = 1 THEN <<>> ELSE ledger)
             ELSE IF ev.rec = 1 THEN Append(ledger, ev.op) ELSE ledger
Init == ledger = <<>> /\ hist = <<>>
Next == Len(hist) < MaxSteps /\ \E ev \in Events :
          /\ ledger' = Apply(ev)
          /\ hist' = IF Emit THEN Append(hist, [ev |-> ev, ledger |-> Apply(ev)]) ELSE Append(hist, 0)
Spec == Init /\ [][Next]_vars
\* append-only except for the explicit wipe
AppendOnly == [][\/ \E ev \in Events : ev.op = "clear" /\ ev.wipe = 1 /\ ledger' = <<>>
                 \/ (Len(ledger') >= Len(ledger) /\ SubSeq(ledger', 1, Len(ledger)) = ledger /\ Len(ledger') <= Len(ledger) + 1)]_vars
EmitHist == ~Emit \/ Len(hist) < MaxSteps \/ PrintT(<<"H", ToJson(hist)>>)
=============================================================================
