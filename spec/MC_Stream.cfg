CONSTANTS
  Objects <- Objs
  MaxLen = 4
SPECIFICATION Spec
INVARIANT PosIsSumOfSizes
INVARIANT EofOnlyAtEnd
INVARIANT LoadReturnsHead
PROPERTY StepLaw
CHECK_DEADLOCK FALSE
