CONSTANTS
  NumNodesC = 4
  LC = 3
  MaxEdges = 3
  TimeVecs <- TimeVecsQ
  FlagVecs <- FlagVecsQ
  TrackedMode = 1
  Thresholds = {1,2}
SPECIFICATION Spec
INVARIANT StateOK
INVARIANT WF
CHECK_DEADLOCK FALSE
