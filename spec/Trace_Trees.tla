----------------------------- MODULE Trace_Trees -----------------------------
(* C01: every tree reported by a real TreeSequence (iteration, at, at_index,  *)
(* first/last, reversed) and every derived view is checked against the        *)
(* definitions in TskTrees / TskTreeViews.  One TLC state per recorded tree   *)
(* sequence; the verdict is the set of failing clause names.                  *)
EXTENDS TskTreeViews, Json, IOUtils
Cases == ndJsonDeserialize(IOEnv.CASES)
VARIABLE k
N(c) == NumNodes(c.ts)

TreeFails(c, tr) ==
  LET T == c.ts
      O == [th |-> c.th, tracked |-> ToSet(c.tracked)]
      d == DefState(T, O, tr.index)
      par == d.parent
      n == N(c)
      kids == [u \in 0..n |-> ChildSeq(tr, u)]
      rootsq == kids[n]
      reach == ReachFrom(par, rootsq)
      tsites == SitesIn(T, d.left, d.right)
  IN {cl \in {"interval", "parent", "edge", "ns", "nt", "num_edges", "roots", "linked", "sites", "muts", "samples",
              "mrca", "mrca_multi", "depth", "bl", "tbl", "isdesc", "nlin", "pre", "post", "in", "level", "tasc", "tdesc", "minlex",
              "leaves", "subpre", "subpost", "numroots", "mut_edges", "sackin", "colless", "b1", "path_length", "num_children",
              "distance_between", "ancestors", "siblings", "is_isolated", "parent_dict", "samples_virtual_root"} :
     ~ CASE cl = "interval" -> tr.left = d.left /\ tr.right = d.right /\ tr.index \in 0..(NumTrees(T) - 1)
         [] cl = "parent" -> Len(tr.parent) = n + 1 /\ tr.parent[n + 1] = NULL /\ \A u \in NodesOf(T) : tr.parent[u + 1] = par[u]
         [] cl = "edge" -> Len(tr.edge) = n + 1 /\ tr.edge[n + 1] = NULL /\ \A u \in NodesOf(T) : tr.edge[u + 1] = d.edge[u]
         [] cl = "ns" -> \A u \in 0..n : tr.ns[u + 1] = d.ns[u]
         [] cl = "nt" -> \A u \in 0..n : tr.nt[u + 1] = d.nt[u]
         [] cl = "num_edges" -> tr.num_edges = d.numEdges
         [] cl = "roots" -> ToSet(tr.roots) = d.roots /\ Len(tr.roots) = Cardinality(d.roots) /\ tr.roots = rootsq
         [] cl = "numroots" -> tr.num_roots = Cardinality(d.roots)
         [] cl = "sackin" -> tr.sackin = Sackin(par, d.roots)
         \* -1 encodes the documented refusal (several roots, or a node with a number of children other than 0 or 2)
         [] cl = "colless" -> IF CollessDefined(par, d.roots) THEN tr.colless = Colless(par, d.roots) ELSE tr.colless = -1
         [] cl = "b1" -> B1OK(par, d.roots, tr.b1)
         \* [u, v, edges on the path] for node pairs with a common ancestor; -1 when they have none
         [] cl = "path_length" -> \A i \in 1..Len(tr.pathlen) : LET r == tr.pathlen[i] IN
                                    r[3] = (IF MRCAIn(par, r[1], r[2]) = NULL THEN -1 ELSE PathLen(par, r[1], r[2]))
         \* [u, v, branch-length distance] for pairs with a common ancestor
         [] cl = "distance_between" -> \A i \in 1..Len(tr.dist) : LET r == tr.dist[i] m == MRCAIn(par, r[1], r[2]) IN
                                          m = NULL \/ r[3] = 2 * TimeOf(T, m) - TimeOf(T, r[1]) - TimeOf(T, r[2])
         \* ancestors(u): the path from the parent of u to the top, nearest first
         [] cl = "ancestors" -> \A u \in NodesOf(T) : tr.anc[u + 1] = Tail(PathUp(par, u))
         \* siblings(u): the other children of u's parent (other roots for a root, nothing for a node outside the tree)
         [] cl = "siblings" -> \A u \in NodesOf(T) : ToSet(tr.sibs[u + 1]) =
                                  (IF par[u] # NULL THEN ChildrenIn(par, par[u]) \ {u} ELSE IF u \in d.roots THEN d.roots \ {u} ELSE {})
                                  /\ Len(tr.sibs[u + 1]) = Cardinality(ToSet(tr.sibs[u + 1]))
         [] cl = "is_isolated" -> \A u \in NodesOf(T) : (tr.isol[u + 1] = 1) = (par[u] = NULL /\ ChildrenIn(par, u) = {})
         \* parent_dict: exactly the nodes that have a parent
         [] cl = "parent_dict" -> /\ {r[1] : r \in ToSet(tr.pdict)} = {u \in NodesOf(T) : par[u] # NULL}
                                  /\ \A i \in 1..Len(tr.pdict) : tr.pdict[i][2] = par[tr.pdict[i][1]]
         \* samples(virtual_root): every sample below some root, each once (with and without sample lists)
         [] cl = "samples_virtual_root" -> /\ ToSet(tr.vsamples) = UNION {Desc(par, r) \cap SamplesOf(T) : r \in d.roots}
                                           /\ Len(tr.vsamples) = Cardinality(ToSet(tr.vsamples))
         [] cl = "num_children" -> \A u \in NodesOf(T) : tr.nchild[u + 1] = Cardinality(ChildrenIn(par, u))
         [] cl = "linked" -> LinkedOK(tr, par, d.roots, n) /\ SibNullOK(tr, par, d.roots, n)
         [] cl = "sites" -> ToSet(tr.sites) = {i - 1 : i \in tsites} /\ IsStrictlySorted(tr.sites)
         [] cl = "muts" -> ToSet(tr.muts) = {m - 1 : m \in MutsAtSites(T, tsites)} /\ IsStrictlySorted(tr.muts)
                           /\ tr.num_mutations = Len(tr.muts)
         \* every mutation of the tree reports its site, node and the id of the edge above its node at the
         \* site's position (NULL above a root / isolated node), also through site.mutations
         [] cl = "mut_edges" -> /\ tr.sitemuts = tr.mutrecs
                                /\ \A i \in 1..Len(tr.mutrecs) : LET r == tr.mutrecs[i] m == T.muts[r[1] + 1] IN
                                      /\ r[2] = m.site /\ r[3] = m.node
                                      /\ r[4] = EdgeAt(T, T.sites[m.site + 1].pos)[m.node]
         [] cl = "samples" -> \A u \in NodesOf(T) : /\ ToSet(tr.samples[u + 1]) = Desc(par, u) \cap SamplesOf(T)
                                                   /\ Len(tr.samples[u + 1]) = Cardinality(Desc(par, u) \cap SamplesOf(T))
         [] cl = "mrca" -> \A u, v \in NodesOf(T) : tr.mrca[u + 1][v + 1] = MRCAIn(par, u, v)
         [] cl = "mrca_multi" -> \A i \in 1..Len(tr.mrcan) :
                                    LET m == MRCASet(par, ToSet(tr.mrcan[i][1])) IN
                                    /\ tr.mrcan[i][2] = m
                                    /\ tr.mrcan[i][3] = (IF m = NULL THEN -1 ELSE TimeOf(T, m))
         [] cl = "depth" -> \A u \in NodesOf(T) : tr.depth[u + 1] = DepthOf(par, u)
         [] cl = "bl" -> \A u \in NodesOf(T) : tr.bl[u + 1] = BranchLen(T, par, u)
         [] cl = "tbl" -> tr.tbl = TotalBranchLen(T, par, d.roots)
         [] cl = "isdesc" -> \A u, v \in NodesOf(T) : (tr.isdesc[u + 1][v + 1] = 1) = IsDescendant(par, u, v)
         [] cl = "nlin" -> \A i \in 1..Len(tr.nlin) : tr.nlin[i][2] = NumLineages(T, par, d.roots, tr.nlin[i][1])
         [] cl = "pre" -> tr.pre = FlatMap(kids, rootsq, n + 1, TRUE)
         [] cl = "post" -> tr.post = FlatMap(kids, rootsq, n + 1, FALSE)
         [] cl = "in" -> tr.inord = InMap(kids, rootsq, n + 1)
         [] cl = "level" -> tr.level = Bfs(kids, rootsq, 4 * (n + 1)) /\ tr.bfs = tr.level
         [] cl = "tasc" -> tr.tasc = TimeAsc(T, reach)
         [] cl = "tdesc" -> tr.tdesc = Reverse(TimeAsc(T, reach))
         [] cl = "minlex" -> tr.minlex = MinlexMap(par, MinlexKids(par, d.roots), n + 1)
         [] cl = "leaves" -> \A u \in NodesOf(T) : ToSet(tr.leaves[u + 1]) = LeavesBelow(par, u)
                                                  /\ Len(tr.leaves[u + 1]) = Cardinality(LeavesBelow(par, u))
         [] cl = "subpre" -> tr.subpre = PreFrom(kids, tr.subroot, n + 1)
         [] cl = "subpost" -> tr.subpost = PostFrom(kids, tr.subroot, n + 1)
     }

EdgeFacts(T) == UNION {{<<x, e.parent, e.child>> : x \in e.left..(e.right - 1)} : e \in ToSet(T.edges)}
EdgesetFacts(q) == UNION {{<<x, es.parent, es.children[jj]>> : x \in es.left..(es.right - 1), jj \in 1..Len(es.children)} : es \in ToSet(q)}
EdgeKeyLess(T, a, b) == LET x == T.edges[a + 1] y == T.edges[b + 1] IN
   \/ TimeOf(T, x.parent) < TimeOf(T, y.parent)
   \/ TimeOf(T, x.parent) = TimeOf(T, y.parent) /\ x.parent < y.parent
   \/ x.parent = y.parent /\ x.child < y.child
SortedByKey(T, q) == \A i \in 1..(Len(q) - 1) : EdgeKeyLess(T, q[i], q[i + 1])
SeqFails(c) ==
  LET T == c.ts
      s == c.seq
      bp == BPSeq(T)
      nt == NumTrees(T)
  IN {cl \in {"index_order", "unique_parents", "num_trees", "breakpoints", "iter", "rev", "at", "firstlast", "diffs_fwd",
              "diffs_rev", "edgesets", "partition", "mutation_edges"} :
     ~ CASE cl = "index_order" -> IndexOK(T)
         [] cl = "mutation_edges" -> /\ Len(s.mutation_edges) = Len(T.muts)
                                     /\ \A i \in 1..Len(T.muts) : LET r == s.mutation_edges[i] m == T.muts[i] IN
                                           r[1] = i - 1 /\ r[2] = m.site /\ r[3] = m.node
                                           /\ r[4] = EdgeAt(T, T.sites[m.site + 1].pos)[m.node]
         [] cl = "unique_parents" -> \A i \in 1..nt : UniqueParents(T, bp[i])
         [] cl = "num_trees" -> s.num_trees = nt /\ Len(c.trees) = nt
         [] cl = "breakpoints" -> s.breakpoints = bp
         [] cl = "iter" -> \A i \in 1..Len(c.trees) : c.trees[i].index = i - 1
         [] cl = "partition" -> /\ Len(c.trees) >= 1 /\ c.trees[1].left = 0 /\ c.trees[Len(c.trees)].right = T.L
                                /\ \A i \in 1..(Len(c.trees) - 1) : c.trees[i].right = c.trees[i + 1].left
                                /\ \A i \in 1..Len(c.trees) : c.trees[i].left < c.trees[i].right
         [] cl = "rev" -> s.rev = [i \in 1..nt |-> nt - i]
         [] cl = "at" -> \A i \in 1..Len(s.at) : LET x == s.at[i][1] IN s.at[i][2] = IndexOfPos(T, x) /\ s.at[i][3] = s.at[i][2]
         [] cl = "firstlast" -> s.first = 0 /\ s.last = nt - 1
         [] cl = "diffs_fwd" ->
              /\ Len(s.diffs_fwd) = nt + 1
              /\ \A i \in 1..(nt + 1) : LET dd == s.diffs_fwd[i] IN
                   /\ dd.left = bp[i] /\ dd.right = (IF i <= nt THEN bp[i + 1] ELSE T.L)
                   /\ ToSet(dd.out) = EdgesOutAt(T, bp[i]) /\ Len(dd.out) = Cardinality(EdgesOutAt(T, bp[i]))
                   /\ ToSet(dd.inn) = (IF i <= nt THEN EdgesInAt(T, bp[i]) ELSE {}) /\ Len(dd.inn) = Cardinality(ToSet(dd.inn))
                   /\ SortedByKey(T, dd.inn) /\ SortedByKey(T, Reverse(dd.out))
              /\ s.diffs_fwd_noterm = SubSeq(s.diffs_fwd, 1, nt)
         [] cl = "diffs_rev" ->
              /\ Len(s.diffs_rev) = nt + 1
              /\ \A i \in 1..(nt + 1) : LET dd == s.diffs_rev[i]
                                            kk == nt - i + 1   \* 1-based index of the tree entered (0 = terminal)
                                        IN
                   /\ dd.left = (IF kk >= 1 THEN bp[kk] ELSE 0) /\ dd.right = bp[kk + 1]
                   /\ ToSet(dd.out) = EdgesInAt(T, bp[kk + 1]) /\ Len(dd.out) = Cardinality(ToSet(dd.out))
                   /\ ToSet(dd.inn) = (IF kk >= 1 THEN EdgesOutAt(T, bp[kk + 1]) ELSE {}) /\ Len(dd.inn) = Cardinality(ToSet(dd.inn))
              /\ s.diffs_rev_noterm = SubSeq(s.diffs_rev, 1, nt)
         [] cl = "edgesets" ->
              \* together the edgesets state exactly the (position, parent, child) facts of the edge table
              /\ EdgesetFacts(s.edgesets) = EdgeFacts(T)
              /\ \A i \in 1..Len(s.edgesets) : IsStrictlySorted(s.edgesets[i].children) /\ s.edgesets[i].children # <<>>
     }
Fails(c) == SeqFails(c) \cup UNION {TreeFails(c, c.trees[i]) : i \in 1..Len(c.trees)}
Init == k = 0
Next == k < Len(Cases) /\ k' = k + 1
Spec == Init /\ [][Next]_k
Report == k = 0 \/ PrintT(<<"V", Cases[k].id, Fails(Cases[k])>>)
=============================================================================
