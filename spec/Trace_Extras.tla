----------------------------- MODULE Trace_Extras -----------------------------
(* code -> spec for TskExtras: recorded link_ancestors, squash, individuals_* and samples() calls *)
EXTENDS TskExtras, Json, IOUtils, TLC
Cases == ndJsonDeserialize(IOEnv.CASES)
VARIABLE k
NANV == 900001
CallFails(ts, c) ==
  CASE c.kind = "link" -> LinkFails(ts, ToSet(c.samples), ToSet(c.ancestors), c.rows)
    [] c.kind = "squash" -> SquashFails(c.before, c.after)
    [] c.kind = "ind_arrays" ->
         {cl \in {"individuals_time", "individuals_population"} :
            ~ CASE cl = "individuals_time" ->
                     IF ~IndTimeDefined(ts) THEN c.time_raised = 1
                     ELSE c.time_raised = 0 /\ \A i \in 0..(ts.nind - 1) :
                            c.times[i + 1] = (IF IndNodes(ts, i) = {} THEN NANV ELSE TimeOf(ts, CHOOSE u \in IndNodes(ts, i) : TRUE))
                [] cl = "individuals_population" ->
                     IF ~IndPopDefined(ts) THEN c.pop_raised = 1
                     ELSE c.pop_raised = 0 /\ \A i \in 0..(ts.nind - 1) :
                            c.pops[i + 1] = (IF IndNodes(ts, i) = {} THEN NULL ELSE ts.pop[(CHOOSE u \in IndNodes(ts, i) : TRUE) + 1])}
    [] c.kind = "ts_props" ->
         {cl \in {"max_root_time", "min_time", "max_time", "discrete_genome", "discrete_time", "num_trees"} :
            ~ CASE cl = "max_root_time" -> IF SamplesOf(ts) = {} THEN c.max_root_time = -1 ELSE c.max_root_time = MaxRootTime(ts)
                [] cl = "min_time" -> c.min_time = MinTime(ts)
                [] cl = "max_time" -> c.max_time = MaxTime(ts)
                \* coordinates are the integers of the abstract tree sequence scaled by the coordinate map of the case
                [] cl = "discrete_genome" -> (c.discrete_genome = 1) = (c.cmap \in {"id", "big"} \/ (c.cmap = "half" /\ \A x \in BPSet(ts) : x % 2 = 0)
                                                                          \/ (c.cmap = "third" /\ \A x \in BPSet(ts) : x % 3 = 0))
                \* times are the abstract integers through the time map of the case plus an offset (integer or not); negative integers are discrete
                [] cl = "discrete_time" -> (c.discrete_time = 1) = (c.toff_int = 1 /\
                                               (c.tmap \in {"id", "big"} \/ (c.tmap = "half" /\ \A u \in NodesOf(ts) : TimeOf(ts, u) % 2 = 0)
                                                                        \/ (c.tmap = "third" /\ \A u \in NodesOf(ts) : TimeOf(ts, u) % 3 = 0)))
                [] cl = "num_trees" -> c.num_trees = NumTrees(ts)}
    [] c.kind = "samples" -> {cl \in {"samples_filter"} : c.result # SamplesFiltered(ts, c.pop, c.has_time = 1, c.t)}
Fails(c) == UNION {{c.calls[i].kind \o ":" \o cl : cl \in CallFails(c.ts, c.calls[i])} : i \in 1..Len(c.calls)}
Init == k = 0
Next == k < Len(Cases) /\ k' = k + 1
Spec == Init /\ [][Next]_k
Report == k = 0 \/ PrintT(<<"V", Cases[k].id, Fails(Cases[k])>>)
=============================================================================
