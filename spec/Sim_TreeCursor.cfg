CONSTANTS
  NumNodesC = 4
  LC = 3
  MaxEdges = 3
  TimeVecs <- TimeVecsT
  FlagVecs <- FlagVecsT
  TrackedMode = 3
  Thresholds = {1,2,3}
  Depth = 10
SPECIFICATION SSpec
INVARIANT Emit
INVARIANT StateOK
CHECK_DEADLOCK FALSE
