------------------------------ MODULE Trace_Ranks ------------------------------
(* C15, code -> spec.  kind "table": the full rank table of all_trees(n) with the  *)
(* clade set of every unranked tree and the rank() of that tree; kind "count": a  *)
(* tree, disjoint sample sets and the counts reported by count_topologies.         *)
EXTENDS Ranks, Json, IOUtils, TLC
Cases == ndJsonDeserialize(IOEnv.CASES)
VARIABLE k
CladeSet(q) == {ToSet(q[i]) : i \in 1..Len(q)}
TableFails(c) ==
  LET rows == c.rows
      n == c.n
      S == 0..(n - 1)
      cs(i) == CladeSet(rows[i].clades)
      all == Topologies(n)
  IN {cl \in {"well_formed", "each_once", "complete", "rank_unrank", "order", "dense", "out_of_range_rejected", "invariance", "iter_matches"} :
      ~ CASE cl = "well_formed" -> \A i \in 1..Len(rows) : IsTopology(cs(i), S) /\ cs(i) \in all
          [] cl = "each_once" -> \A i, j \in 1..Len(rows) : i # j => cs(i) # cs(j)
          [] cl = "complete" -> Len(rows) = Cardinality(all)
          [] cl = "rank_unrank" -> \A i \in 1..Len(rows) : rows[i].rerank = <<rows[i].shape, rows[i].label>>
          [] cl = "order" -> \A i \in 1..(Len(rows) - 1) :
                 rows[i].shape < rows[i + 1].shape \/ (rows[i].shape = rows[i + 1].shape /\ rows[i].label < rows[i + 1].label)
          [] cl = "dense" -> /\ Len(rows) = 0 \/ (rows[1].shape = 0 /\ rows[1].label = 0)
                             /\ \A i \in 1..(Len(rows) - 1) :
                                   (rows[i + 1].shape = rows[i].shape /\ rows[i + 1].label = rows[i].label + 1)
                                   \/ (rows[i + 1].shape = rows[i].shape + 1 /\ rows[i + 1].label = 0)
          [] cl = "out_of_range_rejected" -> \A i \in 1..Len(c.oob) : c.oob[i].raised = 1
          [] cl = "invariance" -> \A i \in 1..Len(c.perturbed) : c.perturbed[i].rank = c.perturbed[i].orig
          [] cl = "iter_matches" -> c.iter_same = 1
     }
\* for a key K (sequence of set indexes, sorted) all choices of one sample per set
RECURSIVE ChoicesOf(_, _)
ChoicesOf(sets, K) == IF K = <<>> THEN {<<>>} ELSE {<<s>> \o r : s \in ToSet(sets[Head(K) + 1]), r \in ChoicesOf(sets, Tail(K))}
CountFails(c) ==
  LET N == Len(c.parent)
      par == [u \in 0..(N - 1) |-> c.parent[u + 1]]
      sets == c.sets
      Chs(K) == ChoicesOf(sets, K)
      Expected(K, clades) == Cardinality({ch \in Chs(K) : SameRoot(par, ch) /\ Reduced(par, ch) = clades})
  IN {cl \in {"counts", "totals", "per_tree_equals_incremental"} :
      ~ CASE cl = "counts" -> \A i \in 1..Len(c.counts) : c.counts[i].count = Expected(c.counts[i].key, CladeSet(c.counts[i].clades))
          [] cl = "totals" -> \A i \in 1..Len(c.keys) :
                 \* the counts listed for a key account for every choice whose samples share a root
                 LET K == c.keys[i] IN
                 FoldSet(LAMBDA j, acc : acc + c.counts[j].count, 0, {j \in 1..Len(c.counts) : c.counts[j].key = K})
                   = Cardinality({ch \in Chs(K) : SameRoot(par, ch)})
          [] cl = "per_tree_equals_incremental" -> c.incremental_same = 1
     }
GenFails(c) ==
  LET S == 0..(c.n - 1) got == CladeSet(c.clades) IN
  {cl \in {"generated_shape", "split_polytomies"} :
     ~ CASE cl = "generated_shape" -> c.gen = "split" \/
              got = (CASE c.gen = "star" -> StarClades(c.n) [] c.gen = "comb" -> CombClades(c.n) [] c.gen = "balanced" -> BalClades(0, c.n, c.arity))
         [] cl = "split_polytomies" -> c.gen # "split" \/ Resolves(got, CladeSet(c.orig), S)}
\* a rank table too large for Topologies(n): only the enumeration order (increasing, dense from (0, 0)) of the ranks of the enumerated trees
OrderFails(c) ==
  LET rows == c.rows IN
  {cl \in {"order", "dense"} :
     ~ CASE cl = "order" -> \A i \in 1..(Len(rows) - 1) : rows[i][1] < rows[i + 1][1] \/ (rows[i][1] = rows[i + 1][1] /\ rows[i][2] < rows[i + 1][2])
         [] cl = "dense" -> /\ Len(rows) = 0 \/ rows[1] = <<0, 0>>
                            /\ \A i \in 1..(Len(rows) - 1) : (rows[i + 1][1] = rows[i][1] /\ rows[i + 1][2] = rows[i][2] + 1)
                                                               \/ (rows[i + 1][1] = rows[i][1] + 1 /\ rows[i + 1][2] = 0)}
Fails(c) == IF c.kind = "table" THEN TableFails(c) ELSE IF c.kind = "gen" THEN GenFails(c) ELSE IF c.kind = "order" THEN OrderFails(c) ELSE CountFails(c)
Init == k = 0
Next == k < Len(Cases) /\ k' = k + 1
Spec == Init /\ [][Next]_k
Report == k = 0 \/ PrintT(<<"V", Cases[k].id, Fails(Cases[k])>>)
=============================================================================
