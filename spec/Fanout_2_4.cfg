CONSTANTS
  NumItems = 2
  NumThreads = 4
SPECIFICATION Spec
INVARIANT CombinedIsSequential
INVARIANT ChunkingOK
PROPERTY Termination
