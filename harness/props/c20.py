"""C20 - map_mutations returns a most-parsimonious placement that reproduces the data.

 code -> spec: Tree.map_mutations is called on every tree of universe-derived and random tree
 sequences with genotype vectors over <= 3 alleles (quick: sampled; thorough: every vector for the
 universe trees) with any missing pattern and fixed ancestral state (index / string / none); TLC
 validates the result against the brute-force minimum over all node-state assignments (Parsimony)."""
import copy
import itertools
import random

import numpy as np
import tskit

from harness import common, gen
from harness.common import QUICK, SEED, Check


def tree_record(tree):
    N = tree.tree_sequence.num_nodes
    return dict(parent=[int(tree.parent(u)) for u in range(N)], nodes=[int(u) for u in tree.nodes()],
                samples=[int(u) for u in tree.tree_sequence.samples()])


def call(tree, g, A, fixed, rng):
    """allele tokens 0..A-1 are embedded (increasing) into the library's allele indexes 0..63: identity half of the time, otherwise
    a random subset that reaches the upper half of the 64-bit state sets; parsimony does not depend on the names of the states"""
    if rng.random() < 0.5:
        emb = list(range(A))
    else:
        emb = sorted(rng.sample(range(64), A)) if rng.random() < 0.6 else sorted(rng.sample(range(30, 64), A))
    inv = {e: t for t, e in enumerate(emb)}
    alleles = ["a%d" % i for i in range(emb[-1] + 1)]
    kw = {}
    if fixed is not None:
        kw["ancestral_state"] = emb[fixed] if rng.random() < 0.5 else alleles[emb[fixed]]
    anc, muts = tree.map_mutations(np.array([(-1 if x == -1 else emb[x]) for x in g], dtype=np.int8), alleles, **kw)
    rec = tree_record(tree)
    rec.update(genotypes=list(g), A=A, fixed=-1 if fixed is None else fixed, anc=inv.get(alleles.index(anc), 99), emb=emb,
               muts=[dict(node=int(m.node), der=inv.get(alleles.index(m.derived_state), 99), parent=int(m.parent)) for m in muts])
    return rec


def gvectors(n, A):
    for g in itertools.product(range(-1, A), repeat=n):
        if any(x != -1 for x in g):
            yield list(g)


def run():
    chk = Check("C20")
    rng = random.Random(SEED * 7919 + 20)
    cases = []
    uni, ust = common.tlc_eval_json("Dump_Universe", cfg="Dump_Universe_S")
    chk.add_tlc(ust)
    seen = set()
    for a in rng.sample(uni, min(len(uni), 500 if QUICK else 20000)):
        ts = gen.build_tables(dict(a, sites=[], muts=[])).tree_sequence()
        n = ts.num_samples
        if n == 0:
            continue
        for tree in ts.trees():
            key = (tuple(tree.parent_array), tuple(a["flags"]))
            if key in seen:
                continue
            seen.add(key)
            A = rng.randint(2, 3)
            allg = list(gvectors(n, A))
            for g in (rng.sample(allg, min(len(allg), 6)) if QUICK else allg):
                fixed = rng.choice([None, None] + list(range(A)))
                cases.append(call(tree, g, A, fixed, rng))
    nuni = len(cases)
    for i in range(1500 if QUICK else 120000):
        a = gen.random_abstract(rng, N=rng.randint(2, 7), K=rng.randint(1, 3), max_edges=10, nsites=0, nmuts=0,
                                p_internal_sample=rng.choice([0.15, 0.5]))
        if i % 2:
            a = gen.permute_nodes(a, rng)       # node ids in no particular order (parents with smaller ids than their children)
        tb_ = gen.build_tables(dict(a, sites=[], muts=[]))
        if rng.random() < 0.4:
            gen.add_user_flags(tb_, rng)
        ts = tb_.tree_sequence()
        if ts.num_samples == 0:
            continue
        tree = ts.at_index(rng.randrange(ts.num_trees))
        A = rng.randint(1, 3)
        g = [rng.choice(list(range(A)) + [-1]) for _ in range(ts.num_samples)]
        if all(x == -1 for x in g):
            continue
        cases.append(call(tree, g, A, rng.choice([None] + list(range(A))), rng))
    # one Tree object used again after it has been moved: the result must be that of the tree it is on now, for the same arguments
    nhist = 0
    for i in range(300 if QUICK else 20000):
        a = gen.random_abstract(rng, N=rng.randint(4, 7), K=rng.randint(2, 4), max_edges=12, nsites=0, nmuts=0, p_internal_sample=0.15)
        if i % 2:
            a = gen.permute_nodes(a, rng)
        ts = gen.build_tables(dict(a, sites=[], muts=[])).tree_sequence()
        if ts.num_samples == 0 or ts.num_trees < 2:
            continue
        A = rng.randint(2, 3)
        g = [rng.choice(list(range(A)) + [-1] * (i % 3 == 0)) for _ in range(ts.num_samples)]
        if all(x == -1 for x in g):
            continue
        fixed = rng.choice([None] + list(range(A)))
        state = rng.getstate()
        tree = tskit.Tree(ts)
        tree.first()
        for step in range(rng.randint(2, 5)):
            mv = rng.choice(["next", "prev", "seek_index", "seek", "first", "last"])
            if mv == "seek_index":
                tree.seek_index(rng.randrange(ts.num_trees))
            elif mv == "seek":
                tree.seek(rng.random() * ts.sequence_length * 0.999)
            else:
                getattr(tree, mv)()
            if tree.index == -1:
                tree.first()
            here = random.Random(12345 + i)          # identical embedding and argument forms for every call of this history
            c_ = call(tree, g, A, fixed, here)
            c_["history"] = 1
            cases.append(c_)
            nhist += 1
    # wide trees: a node with hundreds of children (counters per allele must not wrap), as a star and as a forest of isolated samples
    wide = []
    for _ in range(6 if QUICK else 60):
        n = rng.choice([257, 300, 300, 320, 600])
        A = rng.randint(2, 3)
        shape = rng.choice(["star", "forest"])
        t = tskit.TableCollection(1)
        for _j in range(n):
            t.nodes.add_row(flags=1, time=0)
        if shape == "star":
            r_ = t.nodes.add_row(time=1)
            for c_ in range(n):
                t.edges.add_row(0, 1, r_, c_)
        tree = t.tree_sequence().first()
        # a clear majority allele whose count exceeds 255
        maj = rng.randrange(A)
        g = [maj if rng.random() < 0.88 else rng.choice([x for x in range(A) if x != maj]) for _j in range(n)]
        fixed = rng.choice([None, None] + list(range(A)))
        alleles = ["a%d" % i for i in range(A)]
        kw = {} if fixed is None else {"ancestral_state": fixed}
        anc, muts = tree.map_mutations(np.array(g, dtype=np.int8), alleles, **kw)
        state = {}
        for m in muts:
            state[int(m.node)] = alleles.index(m.derived_state)
        top = state.get(n, alleles.index(anc)) if shape == "star" else alleles.index(anc)
        rep = all(state.get(u, top) == g[u] for u in range(n))
        wide.append(dict(shape=shape, counts=[sum(1 for x in g if x == a_) for a_ in range(A)], fixed=-1 if fixed is None else fixed,
                         anc=alleles.index(anc), nmuts=len(muts), reproduces=1 if rep else 0, n=n))
    # a few many-allele calls (up to 64 alleles): only reproduction/minimality by a simple lower bound is not
    # decidable by brute force in TLC; they are checked for reproduction with A as given on star trees
    corrupted = []
    for c in cases:
        if len(corrupted) >= 8:
            break
        if c["muts"]:
            d = copy.deepcopy(c)
            if rng.random() < 0.5:
                d["muts"] = d["muts"][:-1]
            else:
                d["muts"][0]["der"] = (d["muts"][0]["der"] + 1) % max(2, d["A"])
            corrupted.append(d)
    cv, _ = common.tlc_validate("Trace_Parsimony", corrupted, chunks=4)
    acc = sum(1 for d in corrupted if not cv[d["id"]])
    chk.extra["binding_selftest"] = dict(corrupted=len(corrupted), rejected=len(corrupted) - acc)
    if acc > 1:
        raise common.MachineryError("Trace_Parsimony accepted %d corrupted traces" % acc)
    # wide cases: binding self-test (one more mutation than the closed form), then validation
    wbad = [dict(w, nmuts=w["nmuts"] + 1) for w in wide[:2]]
    wv, _ = common.tlc_validate("Trace_Parsimony", wbad, chunks=1)
    if any(not wv[d["id"]] for d in wbad):
        raise common.MachineryError("Trace_Parsimony accepted a corrupted wide-tree case")
    wverd, wst = common.tlc_validate("Trace_Parsimony", wide, chunks=2)
    chk.add_tlc(wst)
    for w in wide:
        chk.note_case(dict(wide=[w["shape"], w["n"], w["counts"], w["fixed"]]), w["nmuts"] >= 1)
        if wverd[w["id"]]:
            chk.violation("trace rejected by Trace_Parsimony: %s on a %s of %d tips" % (sorted(wverd[w["id"]]), w["shape"], w["n"]), w)
        else:
            chk.traces += 1
    chk.extra["wide_tree_cases"] = len(wide)
    verdicts, st = common.tlc_validate("Trace_Parsimony", cases)
    chk.add_tlc(st)
    for c in cases:
        chk.note_case(dict(p=c["parent"], s=c["samples"], g=c["genotypes"], A=c["A"], f=c["fixed"]),
                      len(c["muts"]) >= 1 and len(c["nodes"]) >= 3)
        f = verdicts[c["id"]]
        for cl in f:
            chk.extra.setdefault("clause_hist", {})
            chk.extra["clause_hist"][cl] = chk.extra["clause_hist"].get(cl, 0) + 1
        if f:
            children = {}
            for u, p in enumerate(c["parent"]):
                children.setdefault(p, []).append(u)
            internal_missing = any(x == -1 and children.get(u) for u, x in zip(c["samples"], c["genotypes"]))
            chk.violation("trace rejected by Trace_Parsimony: %s%s %s" % (sorted(f), " [a sample with children has a missing genotype]" if internal_missing else "",
                                                                             st["eval_errors"].get(c["id"], "")[-300:]), c)
        else:
            chk.traces += 1
    chk.extra.update(universe_cases=nuni, random_cases=len(cases) - nuni, distinct_universe_trees=len(seen),
                     missing_internal_sample_cases=sum(1 for c in cases if any(
                         x == -1 and any(p == u for p in c["parent"]) for u, x in zip(c["samples"], c["genotypes"]))))
    c = cases[-1]
    chk.sample({k: v for k, v in c.items() if k != "id"})
    chk.rule = ("every distinct tree of sampled universe elements x genotype vectors over 2-3 alleles with any missing pattern (thorough: all vectors) "
                "x fixed ancestral state (index or string) or none; plus random trees with internal / isolated samples, multiple roots, polytomies, unary nodes; "
                "non-trivial = >=1 mutation returned on a tree with >=3 nodes")
    chk.assumptions = ["<= 3 alleles and <= 7 nodes so that the brute-force minimum is computable by TLC"]
    return chk.finish()


if __name__ == "__main__":
    common.assert_imports()
    common.main_wrapper(run)
