"""C14 - subset and union retain exactly the referenced data and invert each other.

 code -> spec: on tagged tree sequences (no migrations), subset() with any node list (any order, any
 subset) and both options, and union() of two parts sharing an ancestral portion (with
 check_shared_equality / add_populations on and off, and with a tampered shared part) are run by the
 real library; TLC validates the row-level relations (TskSubset), the refusal rule and the inverse law."""
import copy
import random

import numpy as np
import tskit

from harness import common, gen, abstr, tcgen
from harness.common import QUICK, SEED, Check


def build(a, rng):
    cmap, tmap = gen.random_maps(rng)
    tc = tcgen.from_abstract(a, rng, rich=False)
    if tc["muts"] and rng.random() < 0.4:
        tcgen.known_times(tc, a)
    t = tcgen.build_tc(tc, cmap, tmap)
    abstr.decorate(t, rng, n_ind=rng.randint(0, 4), n_pop=rng.randint(0, 3), ind_parents=True, p_ind=0.8)
    t.build_index()
    return t, cmap, tmap


def retag(t, off):
    """shift every identity tag by `off` (to tell the rows of `other` apart)"""
    def sh(tab, pre):
        md = tskit.unpack_bytes(tab.metadata, tab.metadata_offset)
        tab.packset_metadata([(pre + b"%d" % (int(m[1:]) + off)) if m[:1] == pre and m[1:].isdigit() else m for m in md])
    for name, pre in (("nodes", b"n"), ("edges", b"e"), ("sites", b"s"), ("mutations", b"m"), ("individuals", b"i"), ("populations", b"p")):
        sh(getattr(t, name), pre)


def separable(ts, A, B):
    sa, sb = set(A), set(B)
    for e in ts.edges():
        if not ((e.parent in sa and e.child in sa) or (e.parent in sb and e.child in sb)):
            return False
    # an individual referenced from an A-only and a B-only node must also be referenced from a shared node
    shared = sa & sb
    # a part must contain the parents of its individuals (subset drops references to individuals it does not retain)
    for part in (sa, sb):
        inds = {ts.node(u).individual for u in part} - {-1}
        for i in inds:
            if any(p != -1 and p not in inds for p in ts.individual(i).parents):
                return False
    for ind in range(ts.num_individuals):
        nodes = [u for u in range(ts.num_nodes) if ts.node(u).individual == ind]
        if any(u in sa - sb for u in nodes) and any(u in sb - sa for u in nodes) and not any(u in shared for u in nodes):
            return False
    return True


def drive(a, rng):
    try:
        return drive_(a, rng)
    except Exception as e:
        import traceback
        return dict(error="%s: %s" % (type(e).__name__, e), tb=traceback.format_exc()[-1500:], a=a)


def drive_(a, rng):
    t, cmap, tmap = build(a, rng)
    ts = t.tree_sequence()
    N = ts.num_nodes
    A = lambda tab: abstr.abstract_of(tab, cmap, tmap)
    case = dict(a=A(ts.dump_tables()))
    # ---- subset
    nodes = rng.sample(range(N), rng.randint(0, N))
    ro = rng.random() < 0.6
    ru = rng.random() < 0.6
    sub = ts.dump_tables()
    sub.subset(gen.arg_form(rng, nodes), record_provenance=False, reorder_populations=ro, remove_unreferenced=ru)
    case.update(nodes=nodes, ro=1 if ro else 0, ru=1 if ru else 0, sub=A(sub))
    # the same call through the TreeSequence facade gives the same tables
    tsub = ts.subset(nodes, record_provenance=False, reorder_populations=ro, remove_unreferenced=ru).dump_tables()
    case["facade_subset_same"] = 1 if tsub.equals(sub, ignore_provenance=True) else 0
    case["facade_union_same"] = 1
    rg0, cleared = abstr.ragged_variant(ts.dump_tables(), rng)
    rg = rg0.copy()
    rg.subset(nodes, record_provenance=False, reorder_populations=ro, remove_unreferenced=ru)
    why = abstr.ragged_consistent(sub, rg, cleared)
    case["ragged_subset_ok"] = 0 if why else 1
    case["ragged_union_ok"] = 1
    if why:
        case["ragged_why"] = why
    # ---- union of two parts sharing the nodes at least as old as a cutoff
    times = list(ts.nodes_time)
    cutoff = rng.choice(sorted(set(times)))
    # usually the shared part is the ancestral one (new nodes hang below it); sometimes it is the recent one, so that nodes of `other`
    # mapped to NULL are *parents* of shared nodes (an edge is new when its parent or its child is)
    above = rng.random() < 0.3
    case["new_above_shared"] = 1 if above else 0
    if above:
        shared = [u for u in range(N) if times[u] <= cutoff]
        rest = [u for u in range(N) if times[u] > cutoff]
    else:
        shared = [u for u in range(N) if times[u] >= cutoff]
        rest = [u for u in range(N) if times[u] < cutoff]
    rng.shuffle(rest)
    kk = rng.randint(0, len(rest))
    # the shared nodes appear in a different order in the two parts: node_mapping is not the identity on them
    sharedB = shared[:]
    rng.shuffle(sharedB)
    PA, PB = shared + rest[:kk], sharedB + rest[kk:]
    if rng.random() < 0.5:
        # the nodes of `other` that are new to self need not come after the shared ones
        rng.shuffle(PB)
    shared_set = set(shared)
    shp = {i for i, u in enumerate(PB) if u in shared_set}       # positions (= node ids in `other`) of the shared nodes
    addpop = rng.random() < 0.5
    case.update(union_skip=1, inverse_applicable=0, inverse_same=0, tamper_skip=1, tamper_check=0, tamper_raised=0, clean_raised=0,
                addpop=1 if addpop else 0, mapping=[], ua=case["a"], ub=case["a"], uni=case["a"])
    ta = ts.dump_tables()
    ta.subset(PA, record_provenance=False, reorder_populations=False)
    tb = ts.dump_tables()
    tb.subset(PB, record_provenance=False, reorder_populations=False)
    mapping = [PA.index(PB[i]) if i in shp else -1 for i in range(len(PB))]
    tb2 = tb.copy()
    retag(tb2, 100)
    # with re-tagged rows the shared parts differ in metadata -> compare without the check, or use the un-retagged copy
    check = rng.random() < 0.5
    tu = ta.copy()
    try:
        if check:
            tu.union(tb, gen.arg_form(rng, mapping), check_shared_equality=True, add_populations=addpop, record_provenance=False)
            other = tb
            try:
                tsu = ta.tree_sequence().union(tb.tree_sequence(), mapping, check_shared_equality=True, add_populations=addpop, record_provenance=False)
                if not tsu.dump_tables().equals(tu, ignore_provenance=True):
                    case["facade_union_same"] = 0
            except tskit.LibraryError:
                pass        # a part need not be a valid tree sequence on its own (unsorted after subset): only the table-level call applies
            ra_, rb_ = rg0.copy(), rg0.copy()
            ra_.subset(PA, record_provenance=False, reorder_populations=False)
            rb_.subset(PB, record_provenance=False, reorder_populations=False)
            ra_.union(rb_, mapping, check_shared_equality=True, add_populations=addpop, record_provenance=False)
            why = abstr.ragged_consistent(tu, ra_, cleared)
            if why:
                case["ragged_union_ok"] = 0
                case["ragged_why"] = why
        else:
            tu.union(tb2, mapping, check_shared_equality=False, add_populations=addpop, record_provenance=False)
            other = tb2
        case.update(union_skip=0, mapping=mapping, ua=A(ta), ub=A(other), uni=A(tu))
    except tskit.LibraryError as e:
        case["union_error"] = str(e)[:100]
        if above and "TSK_ERR_MUTATION_PARENT_AFTER_CHILD" in str(e):
            # outside the property's quantifier (covers share an *ancestral* portion): when a new node above the shared part carries a mutation
            # of unknown time that is the parent of a shared mutation, union appends it after its child and then refuses its own result
            # (DESIGN 7.3).  Counted, not judged.
            case["above_refused_mutation_order"] = 1
        else:
            case["clean_raised"] = 1        # with or without the equality check: the two parts come from one tree sequence, nothing to refuse
    # inverse law (separable covers, reorder_populations=False / add_populations=False)
    if case["union_skip"] == 0 and not addpop and check and separable(ts, PA, PB):
        c1 = tu.copy()
        c2 = ts.dump_tables()
        c2.subset(PA + [u for u in PB if u not in shared_set], record_provenance=False, reorder_populations=False)
        c1.canonicalise(remove_unreferenced=False)
        c2.canonicalise(remove_unreferenced=False)
        c1.provenances.clear()
        c2.provenances.clear()
        case["inverse_applicable"] = 1
        case["inverse_same"] = 1 if c1.equals(c2) else 0
    # tampered shared part: must be refused iff check_shared_equality
    if len(shared) >= 1 and len(tb.nodes) >= 1:
        tt = tb.copy()
        what = rng.choice(["time", "edge", "mutation", "node_metadata", "edge_metadata", "mutation_metadata", "site_metadata", "population_metadata",
                           "individual_metadata"])
        done = False
        if what.endswith("_metadata"):
            # the shared rows differ only in their metadata bytes
            nsh = len(shared)
            tabname = what.split("_")[0] + "s"
            tab = getattr(tt, tabname)
            if tabname == "nodes":
                idx = sorted(shp)
            elif tabname == "edges":
                idx = [i for i, e in enumerate(tt.edges) if e.parent in shp and e.child in shp]
            elif tabname == "mutations":
                idx = [i for i, m in enumerate(tt.mutations) if m.node in shp]
            elif tabname == "sites":
                idx = sorted({m.site for m in tt.mutations if m.node in shp})
            elif tabname == "populations":
                idx = sorted({int(tt.nodes[u].population) for u in sorted(shp) if tt.nodes[u].population != tskit.NULL})
            else:
                idx = sorted({int(tt.nodes[u].individual) for u in sorted(shp) if tt.nodes[u].individual != tskit.NULL})
            if idx:
                md = [bytes(r.metadata) for r in tab]
                j = rng.choice(idx)
                md[j] = md[j] + b"~"
                tab.packset_metadata(md)
                done = True
        if what == "time":
            fl = tt.nodes.flags.copy()      # a change that keeps `other` a valid collection
            fl[min(shp)] = fl[min(shp)] ^ 4
            tt.nodes.flags = fl
            done = True
        elif what == "edge":
            idx = [i for i, e in enumerate(tt.edges) if e.parent in shp and e.child in shp]
            if idx:
                keep = np.ones(len(tt.edges), dtype=bool)
                keep[idx[0]] = False
                tt.edges.keep_rows(keep)
                done = True
        elif what == "mutation":
            idx = [i for i, m in enumerate(tt.mutations) if m.node in shp]
            if idx:
                ds = [m.derived_state for m in tt.mutations]
                ds[idx[0]] = ds[idx[0]] + "X"
                tt.mutations.packset_derived_state(ds)
                done = True
        if done:
            chk = rng.random() < 0.7
            case["tamper_skip"] = 0
            case["tamper_check"] = 1 if chk else 0
            tu2 = ta.copy()
            try:
                tu2.union(tt, mapping, check_shared_equality=chk, add_populations=addpop, record_provenance=False)
            except tskit.LibraryError as e:
                case["tamper_raised"] = 1
                if above and "TSK_ERR_MUTATION_PARENT_AFTER_CHILD" in str(e):
                    case["tamper_skip"] = 1          # refused for the out-of-domain reason above, not because of the tampering
                    case["above_refused_mutation_order"] = 1
            case["tamper_what"] = what
    return case


def run():
    chk = Check("C14")
    rng = random.Random(SEED * 7919 + 14)
    cases = []
    uni, ust = common.tlc_eval_json("Dump_Universe", cfg="Dump_Universe_Q" if QUICK else "Dump_Universe_T")
    chk.add_tlc(ust)
    from harness.props.c03 import mutation_layers
    for a in rng.sample(uni, min(len(uni), 200 if QUICK else 12000)):
        cases.append(drive(rng.choice(mutation_layers(a, rng, maxm=2)), rng))
    nuni = len(cases)
    for i in range(1200 if QUICK else 80000):
        a = gen.random_abstract(rng, N=rng.randint(2, 7), K=rng.randint(1, 5), max_edges=12, nsites=4, nmuts=4)
        if i % 3 == 2:       # node ids in no particular order (ids carry no meaning: parents with smaller ids than children, samples anywhere)
            a = gen.permute_nodes(a, random.Random(SEED * 1000003 + i))
        cases.append(drive(a, rng))
    for c in [c for c in cases if "error" in c]:
        chk.note_case(c["a"], True)
        chk.violation("subset/union raised unexpectedly: %s\n%s" % (c["error"], c["tb"]), c)
    cases = [c for c in cases if "error" not in c]
    corrupted = []
    for c in cases:
        if len(corrupted) >= 8:
            break
        if c["sub"]["edges"]:
            d = copy.deepcopy(c)
            d["sub"]["edges"][0]["tag"] += 50
            corrupted.append(d)
        elif c["union_skip"] == 0 and c["uni"]["edges"]:
            d = copy.deepcopy(c)
            d["uni"]["edges"] = d["uni"]["edges"][1:]
            corrupted.append(d)
    cv, _ = common.tlc_validate("Trace_Subset", corrupted, chunks=4)
    acc = sum(1 for d in corrupted if not cv[d["id"]])
    chk.extra["binding_selftest"] = dict(corrupted=len(corrupted), rejected=len(corrupted) - acc)
    if acc:
        raise common.MachineryError("Trace_Subset accepted %d corrupted traces" % acc)
    verdicts, st = common.tlc_validate("Trace_Subset", cases)
    chk.add_tlc(st)
    for c in cases:
        chk.note_case(dict(e=c["a"]["edges"], n=c["nodes"], mp=c["mapping"], o=[c["ro"], c["ru"], c["addpop"]]),
                      len(c["nodes"]) >= 2 and len(c["a"]["edges"]) >= 2)
        f = verdicts[c["id"]]
        for cl in f:
            chk.extra.setdefault("clause_hist", {})
            chk.extra["clause_hist"][cl] = chk.extra["clause_hist"].get(cl, 0) + 1
        if f:
            chk.violation("trace rejected by Trace_Subset: %s %s" % (sorted(f), st["eval_errors"].get(c["id"], "")[-400:]), c)
        else:
            chk.traces += 1
    chk.extra.update(universe_cases=nuni, random_cases=len(cases) - nuni, unions=sum(1 - c["union_skip"] for c in cases),
                     inverse_law_checked=sum(c["inverse_applicable"] for c in cases), tampered=sum(1 - c["tamper_skip"] for c in cases))
    c = cases[-1]
    chk.sample(dict(edges=c["a"]["edges"][:4], nodes=c["nodes"], ro=c["ro"], ru=c["ru"], sub_edges=c["sub"]["edges"][:4], mapping=c["mapping"]))
    chk.rule = ("tagged tree sequences without migrations x node lists (random subsets in random order) x reorder_populations x remove_unreferenced; "
                "two-part covers sharing all nodes at least as old as a cutoff x check_shared_equality x add_populations, plus a tampered shared part; "
                "non-trivial = >=2 listed nodes and >=2 edges")
    chk.assumptions = ["inverse law only for separable covers with reorder_populations=False / add_populations=False (DESIGN 10)",
                       "canonical-form equality evaluated with TableCollection.equals"]
    return chk.finish()


if __name__ == "__main__":
    common.assert_imports()
    common.main_wrapper(run)
