"""C16 - VCF output states exactly the genotypes of the tree sequence.

 code -> spec: write_vcf / as_vcf is run on random tree sequences with every individuals layout
 (none / all samples in individuals / mixed / explicit permuted or subset `individuals`), ploidy,
 position transforms (default rounding incl. half-integer positions, 'legacy', callable), site and
 sample masks in every accepted form (bool array, list, tuple, int array, uint8 array, callable),
 isolated_as_missing and allow_position_zero; the emitted text is tokenised by the harness and every
 record is validated by TLC against the record definition of Exports.tla (built on TskGenotypes)."""
import copy
import io
import random
import re

import numpy as np
import tskit

from harness import common, gen, abstr
from harness.common import QUICK, SEED, Check

NUC = ["A", "C", "G", "T"]


MALFORMED = -99      # a token that is not what the VCF grammar allows at that place: never equal to an expected value


def tok_int(x):
    try:
        return int(x)
    except ValueError:
        return MALFORMED


def tok_allele(x):
    return gen.ALLELES.index(x) if x in gen.ALLELES else MALFORMED


def parse_vcf(text, names_expected):
    contig = None
    names = None
    recs = []
    for line in text.splitlines():
        if line.startswith("##contig"):
            contig = int(re.search(r"length=(\d+)", line).group(1))
        elif line.startswith("#CHROM"):
            names = line.split("\t")[9:]
        elif not line.startswith("#"):
            f = line.split("\t")
            alt = [] if f[4] == "." else f[4].split(",")
            recs.append(dict(pos=tok_int(f[1]), id=tok_int(f[2]), ref=tok_allele(f[3]), alt=[tok_allele(x) for x in alt],
                             fixed=[f[0], f[5], f[6], f[7], f[8]],
                             gt=[[(-1 if x == "." else tok_int(x)) for x in g.split("|")] for g in f[9:]]))
    return contig, names, recs


BIG = 2 ** 40          # the "big" coordinate map: positions beyond 2**31 (a genome longer than 2.1e9, or a scaling transform)


def descale(v, plus1):
    """POS / contig length written for a big-coordinate case, back on the abstract grid (TLC integers are 32 bit); a value that is not
    exactly the image of a grid point is a token nothing equals"""
    if v == MALFORMED:
        return v
    w = v - 1 if plus1 else v
    if w % BIG:
        return MALFORMED
    return w // BIG + (1 if plus1 else 0)


def drive(a, rng, kind=None):
    kind = kind or rng.choice(["id", "id", "half"])
    cmap = gen.CMap(kind)
    tmap = gen.random_maps(rng)[1]
    tables = gen.build_tables(a, cmap, tmap)
    if rng.random() < 0.4:
        gen.add_user_flags(tables, rng)      # user flag bits never matter
    S = [u for u in range(len(a["time"])) if a["flags"][u]]
    mode = rng.choice(["none", "all", "mixed", "all"])
    N = len(a["time"])
    if mode != "none" and S:
        k = rng.randint(1, len(S))
        for j in range(k + rng.randint(0, 1)):
            tables.individuals.add_row(metadata=b"i%d" % j)
        ind = np.full(N, -1, dtype=np.int32)
        for u in range(N):
            if a["flags"][u] and (mode == "all" or rng.random() < 0.6):
                ind[u] = rng.randrange(k)
            elif not a["flags"][u] and rng.random() < 0.1:
                ind[u] = rng.randrange(k)      # a non-sample node in an individual
        tables.nodes.individual = ind
    ts = tables.tree_sequence()
    ns = ts.num_sites
    args = dict(ploidy=0, individuals=[], use_default_individuals=1, transform="round", site_mask=[0] * ns, sample_mask=[],
                iam=1 if rng.random() < 0.5 else 0, allow_position_zero=1 if rng.random() < 0.6 else 0, names=[])
    kw = dict(isolated_as_missing=bool(args["iam"]), allow_position_zero=bool(args["allow_position_zero"]))
    if rng.random() < 0.35:
        args["ploidy"] = rng.choice([1, 2, 3])
        kw["ploidy"] = args["ploidy"]
    if ts.num_individuals and rng.random() < 0.35:
        inds = rng.sample(range(ts.num_individuals), rng.randint(1, ts.num_individuals))
        args["individuals"] = inds
        kw["individuals"] = inds if rng.random() < 0.5 else np.array(inds)
    tr = rng.choice(["round", "round", "legacy", "plus1"])
    if kind == "big" and tr == "legacy":
        tr = "round"        # 'legacy' moves position 0 to 1, which does not commute with the scaling
    args["transform"] = tr
    if tr == "legacy":
        kw["position_transform"] = "legacy"
    elif tr == "plus1":
        # the same transform written the ways a caller may write it: through numpy functions (accept anything), with plain arithmetic on the
        # argument (the form write_vcf's own error message recommends; equals 1 + round(x) when the positions are integers) and with array methods
        forms = ["np", "method"] + (["arith"] if kind != "big" and all(float(x) == int(x) for x in ts.tables.sites.position) and float(ts.sequence_length) == int(ts.sequence_length) else [])
        form = rng.choice(forms)
        args["transform_form"] = form
        kw["position_transform"] = {"np": lambda x: 1 + np.round(x), "arith": lambda x: 1 + x, "method": lambda x: x.round() + 1}[form]
    if ns and rng.random() < 0.6:
        m = [1 if rng.random() < 0.4 else 0 for _ in range(ns)]
        args["site_mask"] = m
        form = rng.choice(["bool", "list", "tuple", "int", "uint8"])
        kw["site_mask"] = dict(bool=np.array(m, dtype=bool), list=[bool(x) for x in m], tuple=tuple(bool(x) for x in m),
                               int=np.array(m, dtype=np.int64), uint8=np.array(m, dtype=np.uint8))[form]
        args["site_mask_form"] = form
    return ts, args, kw, cmap


def finish(ts, args, kw, cmap, rng, a):
    # number of genotype columns (flattened) is only known once the grouping is: compute sample mask after a dry run
    nflat = None
    case = dict(args=args)
    aa = abstr.abstract_of(ts.dump_tables(), cmap, gen.CMap("id")) if False else None
    t = ts.dump_tables()
    case["ts"] = dict(L=a["L"], L2=int(round(2 * cmap.back(ts.sequence_length) if False else 0)), time=a["time"], flags=a["flags"], edges=a["edges"],
                      sites=[dict(pos=int(round(2 * float(s.position))), anc=gen.ALLELES.index(s.ancestral_state)) for s in ts.sites()],
                      muts=a["muts"], ind=[int(x) for x in ts.nodes_individual], ind_rows=list(range(ts.num_individuals)))
    case["ts"]["L2"] = int(round(2 * ts.sequence_length))
    # genotype positions must be evaluated at the true site position: the TskGenotypes definitions use integer cells,
    # so give them the cell index (floor of the position) through a parallel field
    return case


def run_case(a, rng, kind=None):
    ts, args, kw, cmap = drive(a, rng, kind)
    case = dict(args=args)
    # sites: the genotype definition needs the cell of each site; VCF needs the doubled position
    case["ts"] = dict(L=a["L"], L2=int(round(2 * ts.sequence_length)), time=a["time"], flags=a["flags"], edges=a["edges"],
                      sites=[dict(pos=s["pos"], anc=s["anc"]) for s in a["sites"]], muts=a["muts"],
                      ind=[int(x) for x in ts.nodes_individual], ind_rows=list(range(ts.num_individuals)))
    case["pos2"] = [int(round(2 * float(s.position))) for s in ts.sites()]
    if kind == "big":
        case["pos2"] = [2 * s["pos"] for s in a["sites"]]
        case["ts"]["L2"] = 2 * a["L"]
    args["pos2"] = case["pos2"]
    # sample mask: needs the number of flattened samples; obtain it from a first run without sample mask
    out = io.StringIO()
    case["raised"] = 0
    case["error"] = ""
    try:
        ts.write_vcf(out, **kw)
    except Exception as e:  # noqa: BLE001 - total: whatever write_vcf raises is the observation
        case["raised"] = 1
        case["error"] = "%s: %s" % (type(e).__name__, str(e)[:60])
    if not case["raised"]:
        contig, names, recs = parse_vcf(out.getvalue(), None)
        nflat = sum(len(g) for g in recs[0]["gt"]) if recs else 0
        if recs and nflat and rng.random() < 0.5:
            ns = ts.num_sites
            if rng.random() < 0.5:
                row = [1 if rng.random() < 0.3 else 0 for _ in range(nflat)]
                sm = [row for _ in range(ns)]
                form = rng.choice(["bool", "list", "int"])
                kw["sample_mask"] = dict(bool=np.array(row, dtype=bool), list=[bool(x) for x in row], int=np.array(row, dtype=np.int8))[form]
            else:
                sm = [[1 if rng.random() < 0.3 else 0 for _ in range(nflat)] for _ in range(ns)]
                kw["sample_mask"] = lambda v: np.array(sm[v.site.id], dtype=bool)
            args["sample_mask"] = sm
            if rng.random() < 0.3:
                ng = len(recs[0]["gt"])
                kw["individual_names"] = ["n%d" % (100 + j) for j in range(ng)]
                args["names"] = [100 + j for j in range(ng)]
            out = io.StringIO()
            try:
                ts.write_vcf(out, **kw)
            except Exception as e:  # noqa: BLE001 - total: whatever write_vcf raises is the observation
                case["raised"] = 1
                case["error"] = "%s: %s" % (type(e).__name__, str(e)[:60])
            if not case["raised"]:
                contig, names, recs = parse_vcf(out.getvalue(), None)
        if not case["raised"]:
            # as_vcf must produce the same text
            if ts.as_vcf(**kw) != out.getvalue():
                case["raised"] = 1
                case["error"] = "as_vcf differs from write_vcf"
            if kind == "big":
                p1 = args["transform"] == "plus1"
                for r in recs:
                    r["pos"] = descale(r["pos"], p1)
                contig = descale(contig, p1)
            case["records"] = recs
            case["contig_length"] = contig
            case["names"] = [int(n[4:]) if n.startswith("tsk_") else int(n[1:]) for n in names]
            case["fixed_ok"] = all(r["fixed"] == ["1", ".", "PASS", ".", "GT"] for r in recs)
            for r in recs:
                del r["fixed"]
    if case["raised"]:
        case.update(records=[], contig_length=0, names=[], fixed_ok=True)
    return case


def run():
    chk = Check("C16")
    rng = random.Random(SEED * 7919 + 16)
    cases = []
    for i in range(2500 if QUICK else 200000):
        a = gen.random_abstract(rng, N=rng.randint(2, 7), K=rng.randint(1, 6), max_edges=12, nsites=4, nmuts=4, nalleles=4)
        if sum(a["flags"]) == 0:
            continue        # a VCF needs at least one sample column (outside the property's domain)
        if i % 3 == 2:       # node ids in no particular order (sample nodes are not the first nodes)
            a = gen.permute_nodes(a, random.Random(SEED * 1000003 + i))
        c = run_case(a, rng)
        # the VCF positions are on the doubled grid: replace the site positions used for POS
        c["ts"]["sites"] = [dict(pos=s["pos"], anc=s["anc"]) for s in c["ts"]["sites"]]
        cases.append(c)
    # coordinates beyond 2**31: positions on the 2**40 grid, written back onto the abstract grid before TLC sees them
    for i in range(250 if QUICK else 5000):
        a = gen.random_abstract(rng, N=rng.randint(2, 6), K=rng.randint(2, 6), max_edges=10, nsites=4, nmuts=3, nalleles=4)
        if sum(a["flags"]) == 0 or not a["sites"]:
            continue
        c = run_case(a, rng, kind="big")
        c["ts"]["sites"] = [dict(pos=s["pos"], anc=s["anc"]) for s in c["ts"]["sites"]]
        c["big"] = 1
        cases.append(c)
    # many-allele sites: 8, 9 (the most a VCF record can hold) and 10 alleles (must raise), with and without an isolated (missing) sample
    for i in range(60 if QUICK else 3000):
        nl = 11
        iso = rng.random() < 0.6
        N = nl + 1 + (1 if iso else 0)
        root = nl
        times = [0] * nl + [1] + ([0] if iso else [])
        a = dict(L=2, time=times, flags=[1] * nl + [0] + ([1] if iso else []),
                 edges=[dict(left=0, right=2, parent=root, child=c_) for c_ in range(nl)], sites=[dict(pos=rng.randrange(2), anc=0)], muts=[])
        k = rng.choice([7, 8, 8, 9])          # number of distinct derived alleles -> 8, 9, 9, 10 alleles
        toks = rng.sample([1, 2, 3, 7, 8, 9, 10, 11, 12, 13, 14], k)
        for j, tk in enumerate(toks):
            a["muts"].append(dict(site=0, node=j, der=tk, parent=-1, time=-1))
        c = run_case(a, rng)
        c["ts"]["sites"] = [dict(pos=s_["pos"], anc=s_["anc"]) for s_ in c["ts"]["sites"]]
        cases.append(c)
    corrupted = []
    for c in cases:
        if len(corrupted) >= 8:
            break
        if not c["raised"] and c["records"] and c["records"][0]["gt"] and c["records"][0]["gt"][0]:
            d = copy.deepcopy(c)
            r = d["records"][0]
            if rng.random() < 0.5:
                r["pos"] += 1
            else:
                g = r["gt"][0]
                g[0] = (g[0] + 1) if g[0] + 1 < 1 + len(r["alt"]) else (g[0] - 1 if g[0] > 0 else (-1 if r["alt"] == [] else 1))
                if g[0] == -1 and d["args"]["iam"] == 0 and not d["args"]["sample_mask"]:
                    pass
            corrupted.append(d)
    cv, _ = common.tlc_validate("Trace_Vcf", corrupted, chunks=4)
    acc = sum(1 for d in corrupted if not cv[d["id"]])
    chk.extra["binding_selftest"] = dict(corrupted=len(corrupted), rejected=len(corrupted) - acc)
    if acc > 1:
        raise common.MachineryError("Trace_Vcf accepted %d corrupted traces" % acc)
    verdicts, st = common.tlc_validate("Trace_Vcf", cases)
    chk.add_tlc(st)
    forms = {}
    for c in cases:
        forms[c["args"].get("site_mask_form", "none")] = forms.get(c["args"].get("site_mask_form", "none"), 0) + 1
        chk.note_case(dict(ts=c["ts"], args={k: v for k, v in c["args"].items()}), (not c["raised"]) and len(c["records"]) >= 1)
        f = list(verdicts[c["id"]])
        if not c.get("fixed_ok", True):
            f.append("fixed_columns")
        if f:
            sig = None
            chk.violation("trace rejected by Trace_Vcf: %s (site_mask form %s) %s" % (sorted(f), c["args"].get("site_mask_form"), st["eval_errors"].get(c["id"], "")[-300:]), c)
        else:
            chk.traces += 1
    chk.extra.update(cases=len(cases), raised=sum(c["raised"] for c in cases), site_mask_forms=forms,
                     records=sum(len(c["records"]) for c in cases))
    c = [c for c in cases if c["records"]][0]
    chk.sample(dict(args=c["args"], records=c["records"][:2], names=c["names"], contig_length=c["contig_length"]))
    chk.rule = ("random ts (<=7 nodes, <=4 sites, 4 nucleotide alleles, integer and half-integer site positions) x individuals layouts x ploidy x "
                "individuals argument x transforms x site_mask forms x sample_mask forms x isolated_as_missing x allow_position_zero; "
                "non-trivial = not raised and >=1 data line")
    chk.assumptions = ["VCF text is tokenised by the harness (tab / '|' / ',' splitting)", "'legacy' transform is taken as defined over all site positions"]
    return chk.finish()


if __name__ == "__main__":
    common.assert_imports()
    common.main_wrapper(run)
