"""C03 - decoded genotypes follow nearest-mutation inheritance and the missing-data rules.

 code -> spec: real Variant objects are driven through arbitrary decode(site) orders (with
 copies), and variants()/genotype_matrix()/haplotypes()/alignments() are called with sample
 subsets (incl. non-sample nodes), isolated_as_missing, user allele lists and intervals; TLC
 validates every recorded result against the nearest-mutation definition (TskGenotypes), one
 TLC state per decode call so that the result is shown to be independent of the history.
 spec -> code: the tree sequences come from the TLC-enumerated universe (plus random ones),
 with an exhaustive small mutation layer."""
import copy
import itertools
import random

import numpy as np
import tskit

from harness import common, gen
from harness.common import QUICK, SEED, Check

TOK = {a: i for i, a in enumerate(gen.ALLELES)}


def tok(a):
    return -1 if a is None else TOK[a]


def chartok(ch):
    if ch in "ACGT":
        return "ACGT".index(ch)
    if ch == "N":
        return -1
    return 100 + ord(ch) - ord("a")


def var_record(v):
    return dict(site=int(v.site.id), alleles=[tok(a) for a in v.alleles], g=[int(x) for x in v.genotypes],
                has_missing=1 if v.has_missing_data else 0)


def drive(a, rng, nuc_only):
    cmap = gen.CMap("id") if nuc_only and rng.random() < 0.7 else gen.CMap(rng.choice(gen.CMap.KINDS))
    tmap = gen.random_maps(rng)[1]
    tables = gen.build_tables(a, cmap, tmap)
    if rng.random() < 0.4:
        gen.add_user_flags(tables, rng)      # user flag bits never matter
    ts = tables.tree_sequence()
    N = ts.num_nodes
    S = [int(u) for u in ts.samples()]
    iam = rng.random() < 0.6
    mode = rng.random()
    if mode < 0.3 or N == 0:
        nodes_arg = None
        nodes = S
    elif mode < 0.6:
        nodes = rng.sample(S, rng.randint(0, len(S))) if S else []
        nodes_arg = gen.arg_form(rng, nodes)
    else:
        nodes = rng.sample(range(N), rng.randint(1, N))
        nodes_arg = gen.arg_form(rng, nodes)
        if any(not a["flags"][u] for u in nodes):
            iam = False     # the library refuses non-sample nodes with isolated_as_missing (documented error)
    case = dict(ts=dict(a), nodes=list(nodes), iam=1 if iam else 0, decodes=[], maps=[cmap.kind, tmap.kind, tmap.offset])
    ns = ts.num_sites
    if ns > 0:
        var = tskit.Variant(ts, samples=nodes_arg, isolated_as_missing=iam)
        pending_copy = None
        for _ in range(rng.randint(1, 8)):
            sid = rng.randrange(ns)
            var.decode(sid)
            case["decodes"].append(var_record(var))
            if pending_copy is not None:
                # a copy taken earlier still shows its own site's data
                case["decodes"].append(var_record(pending_copy))
                pending_copy = None
            if rng.random() < 0.25:
                pending_copy = var.copy()
    L = a["L"]
    left = rng.randrange(0, L) if rng.random() < 0.4 else 0
    right = rng.randint(left + 1, L) if rng.random() < 0.4 else L
    case["left"], case["right"] = left, right
    kw = dict(samples=nodes_arg, isolated_as_missing=iam)
    lr = dict(left=cmap(left) if left != 0 or rng.random() < 0.5 else None,
              right=cmap(right) if right != L or rng.random() < 0.5 else None)
    # user alleles
    case["user_alleles"] = []
    case["user_raised"] = 0
    ua = None
    if rng.random() < 0.3 and ns > 0:
        k = rng.randint(1, 5)
        ua_tok = rng.sample(range(len(gen.ALLELES) if not nuc_only else 4), min(k, 4 if nuc_only else len(gen.ALLELES)))
        case["user_alleles"] = ua_tok
        ua = tuple(gen.ALLELES[t] for t in ua_tok)
        left, right = 0, L
        case["left"], case["right"] = 0, L
        lr = {}
    try:
        case["iter"] = [var_record(v) for v in ts.variants(alleles=ua, copy=rng.random() < 0.5, **kw, **lr)]
    except tskit.LibraryError as e:
        if ua is None:
            raise
        case["iter"] = []
        case["user_raised"] = 1
    if case["user_raised"]:
        # partial iteration is not compared; the raise condition is
        case["iter"] = []
        case["left"], case["right"] = 0, 0   # no sites selected -> iter_sites trivially empty
        case["left"], case["right"] = L, L
    # genotype matrix (whole sequence), compared through allele tokens
    case["gm"] = []
    case["gm_skip"] = 1
    if ua is None:
        G = ts.genotype_matrix(**kw)
        vs = list(ts.variants(**kw))
        gm = []
        for s, v in enumerate(vs):
            al = [tok(x) for x in v.alleles]
            gm.append([al[g] if g >= 0 else -1 for g in G[s]])
            if list(G[s]) != list(v.genotypes):
                gm[-1] = [-777] * len(nodes)
        case["gm"] = gm
        case["gm_skip"] = 0
    # haplotypes / alignments
    case["haps"], case["haps_skip"] = [], 1
    case["align"], case["align_skip"], case["align_raised"] = [], 1, 0
    if nuc_only and ua is None:
        H = list(ts.haplotypes(**kw, **lr))
        case["haps"] = [[chartok(ch) for ch in h] for h in H]
        case["haps_skip"] = 0
        if cmap.kind == "id" and all(a["flags"][u] for u in nodes):
            ref = "".join(chr(ord("a") + x) for x in range(L))
            try:
                A = list(ts.alignments(reference_sequence=ref[case["left"]:case["right"]], samples=nodes_arg,
                                       left=lr.get("left"), right=lr.get("right")))
                case["align"] = [[chartok(ch) for ch in al] for al in A]
            except ValueError as e:
                if "Missing data" not in str(e):
                    raise
                case["align_raised"] = 1
            case["align_skip"] = 0
    return case


def mutation_layers(a, rng, maxm=2):
    """exhaustive-ish mutation layer for a universe element: one site per unit cell chosen at
    random, every placement of <= maxm mutations over nodes with 2 derived alleles"""
    N = len(a["time"])
    x = rng.randrange(a["L"])
    out = []
    par = gen.parent_at(a, x)

    def depth(u):
        d = 0
        while par[u] != -1:
            u = par[u]
            d += 1
        return d
    for k in range(0, maxm + 1):
        for nodes in itertools.product(range(N), repeat=k):
            if list(nodes) != sorted(nodes, key=depth):
                continue
            for ders in itertools.product([0, 1], repeat=k):
                b = dict(a)
                b["sites"] = [dict(pos=x, anc=0)]
                rows = []
                for u, d in zip(nodes, ders):
                    rows.append(dict(site=0, node=u, der=d, parent=-1, time=-1))
                for i, m in enumerate(rows):
                    v = m["node"]
                    found = -1
                    while v != -1 and found == -1:
                        for jj in range(i - 1, -1, -1):
                            if rows[jj]["node"] == v:
                                found = jj
                                break
                        v = par[v]
                    m["parent"] = found
                b["muts"] = rows
                out.append(b)
    return out


def run():
    chk = Check("C03")
    rng = random.Random(SEED * 7919 + 3)
    cases = []
    uni, ust = common.tlc_eval_json("Dump_Universe", cfg="Dump_Universe_Q" if QUICK else "Dump_Universe_T")
    chk.add_tlc(ust)
    pick = rng.sample(uni, min(len(uni), 200 if QUICK else 3000))
    for a in pick:
        for b in rng.sample(mutation_layers(a, rng), 8) if QUICK else mutation_layers(a, rng):
            cases.append(drive(b, rng, nuc_only=True))
    nuni = len(cases)
    for i in range(4000 if QUICK else 40000):
        nuc = rng.random() < 0.5
        a = gen.random_abstract(rng, N=rng.randint(1, 7), K=rng.randint(1, 6), max_edges=12, nsites=4, nmuts=4,
                                nalleles=4 if nuc else len(gen.ALLELES))
        if i % 3 == 2:       # node ids in no particular order (ids carry no meaning: parents with smaller ids than children, samples anywhere)
            a = gen.permute_nodes(a, random.Random(SEED * 1000003 + i))
        cases.append(drive(a, rng, nuc_only=nuc))
    # binding self-test
    corrupted = []
    for c in cases:
        if len(corrupted) >= 10:
            break
        if c["decodes"] and c["nodes"]:
            d = copy.deepcopy(c)
            r = d["decodes"][rng.randrange(len(d["decodes"]))]
            i = rng.randrange(len(r["g"]))
            r["g"][i] = (r["g"][i] + 1) if r["g"][i] + 1 < len([x for x in r["alleles"] if x != -1]) else (r["g"][i] - 1 if r["g"][i] > 0 else -1 if r["g"][i] == 0 else 0)
            corrupted.append(d)
    cv, _ = common.tlc_validate("Trace_Genotypes", corrupted, chunks=4)
    acc = [d["id"] for d in corrupted if not cv[d["id"]]]
    chk.extra["binding_selftest"] = dict(corrupted=len(corrupted), rejected=len(corrupted) - len(acc))
    if acc:
        raise common.MachineryError("Trace_Genotypes accepted corrupted traces")
    verdicts, st = common.tlc_validate("Trace_Genotypes", cases)
    chk.add_tlc(st)
    ndec = 0
    for c in cases:
        ndec += len(c["decodes"]) + len(c["iter"])
        sites = [d["site"] for d in c["decodes"]]
        nontriv = len(c["ts"]["muts"]) >= 1 and len(c["nodes"]) >= 1 and (len(set(sites)) >= 2 or len(c["iter"]) >= 1)
        chk.note_case(dict(ts=c["ts"], nodes=c["nodes"], iam=c["iam"], sites=sites, ua=c["user_alleles"], lr=[c["left"], c["right"]]), nontriv)
        f = verdicts[c["id"]]
        if f:
            chk.violation("trace rejected by Trace_Genotypes: %s %s" % (f, st["eval_errors"].get(c["id"], "")[-500:]), c)
        else:
            chk.traces += 1
    chk.extra.update(universe_cases=nuni, random_cases=len(cases) - nuni, variants_checked=ndec,
                     missing_cases=sum(1 for c in cases if any(d["has_missing"] for d in c["decodes"] + c["iter"])),
                     user_allele_cases=sum(1 for c in cases if c["user_alleles"]),
                     alignment_cases=sum(1 for c in cases if not c["align_skip"]))
    c = cases[-1]
    chk.sample(dict(ts=c["ts"], nodes=c["nodes"], iam=c["iam"], decodes=c["decodes"][:4]))
    chk.rule = ("universe elements x (site in a random cell) x all placements of <=2 mutations (quick: sampled) + random ts; "
                "random decode orders with repeats and copies, sample subsets incl. non-sample nodes, isolated_as_missing, "
                "user allele lists, left/right; non-trivial = >=1 mutation, >=1 requested node and >=2 distinct decoded sites "
                "or a variants() pass; distinct by (ts, nodes, options, decode order)")
    chk.assumptions = ["allele strings are abstract tokens mapped to '', 'A', 'ACG', non-ASCII etc.",
                       "order of alleles after the first is not constrained", "alignments: documented raise on any isolated sample is accepted"]
    return chk.finish()


if __name__ == "__main__":
    common.assert_imports()
    common.main_wrapper(run)
