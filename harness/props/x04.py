"""X04 - spec growth beyond the listed properties, part 4 (not registered in MANIFEST.json; run with ./check X04).

 ProvLedger.tla: the provenance table as an append-only ledger.  TLC checks AppendOnly on the model; behaviours from `tlc -simulate`
 are replayed into real tables / tree sequences: after every operation the number of provenance rows, the command named by the new row, the
 validity of the new record against the provenance schema and the byte-identity of all earlier rows must be what the model says."""
import json
import random

import numpy as np
import tskit

from harness import common
from harness.common import QUICK, SEED, Check


def base_tables(rng):
    ts = tskit.Tree.generate_balanced(rng.choice([3, 4, 5]), span=10, record_provenance=False).tree_sequence
    t = ts.dump_tables()
    for x in (1.0, 4.0, 8.0):
        s = t.sites.add_row(x, "A")
        t.mutations.add_row(s, rng.randrange(t.nodes.num_rows - 1), "T")
    t.sort()
    t.build_index()
    t.compute_mutation_parents()
    return t


def args_for(op, t, rng):
    n = t.nodes.num_rows
    samples = [u for u in range(n) if t.nodes.flags[u] & 1]
    if op == "simplify":
        return dict(samples=samples)
    if op == "subset":
        return dict(nodes=list(range(n)))
    if op == "union":
        return dict(other=None, node_mapping=np.arange(n, dtype=np.int32))
    if op == "delete_sites":
        return dict(site_ids=[0] if t.sites.num_rows else [])
    if op in ("delete_intervals", "keep_intervals"):
        return dict(intervals=[[2.0, 3.0]] if op == "delete_intervals" else [[0.0, float(t.sequence_length) - 0.5]], simplify=rng.random() < 0.5)
    return {}


def apply(t, ev, rng):
    """-> the TableCollection after the step"""
    op, rec, facade = ev["op"], bool(ev["rec"]), ev["facade"]
    if op == "clear":
        t.clear(clear_provenance=bool(ev["wipe"]))
        # keep something to work on: the ledger is what is modelled, so the data tables are refilled (no provenance involved)
        prov = t.provenances.copy()
        t2 = base_tables(rng)
        t2.provenances.replace_with(prov)
        return t2
    if op == "sort":
        t.sort()
    elif op == "build_index":
        t.build_index()
    elif op == "deduplicate_sites":
        t.deduplicate_sites()
    elif op == "compute_mutation_parents":
        t.build_index()
        t.compute_mutation_parents()
    elif op == "delete_older":
        t.delete_older(1e9)
    elif op == "copy":
        t = t.copy()
    else:
        kw = args_for(op, t, rng)
        if facade == "tables":
            if op == "union":
                kw["other"] = t.copy()
            getattr(t, op)(**kw, record_provenance=rec)
        else:
            ts = t.tree_sequence()
            if op == "union":
                kw["other"] = ts
            t = getattr(ts, op)(**kw, record_provenance=rec).dump_tables()
    return t


def rows(t):
    return [(p.timestamp, p.record) for p in t.provenances]


def replay(beh, rng):
    t = base_tables(rng)
    bad = []
    for i, st in enumerate(beh):
        before = rows(t)
        try:
            t = apply(t, st["ev"], rng)
        except Exception as e:  # noqa: BLE001
            bad.append((i, "raised:%s" % st["ev"]["op"], "no exception", "%s: %s" % (type(e).__name__, str(e)[:80])))
            break
        after = rows(t)
        want = list(st["ledger"])
        if len(after) != len(want):
            bad.append((i, "row_count:%s:%s" % (st["ev"]["facade"], st["ev"]["op"]), len(want), len(after)))
            break
        cmds = []
        for ts_, rec in after:
            try:
                d = json.loads(rec)
                tskit.validate_provenance(d)
                cmds.append(d["parameters"]["command"])
                if d["software"]["name"] != "tskit":
                    cmds[-1] = "software=%s" % d["software"]["name"]
            except Exception as e:  # noqa: BLE001
                cmds.append("invalid:%s" % type(e).__name__)
        if cmds != want:
            bad.append((i, "commands:%s:%s" % (st["ev"]["facade"], st["ev"]["op"]), want, cmds))
            break
        keep = min(len(before), len(after))
        if not (st["ev"]["op"] == "clear" and st["ev"].get("wipe")) and after[:keep] != before[:keep]:
            bad.append((i, "earlier_rows_changed:%s" % st["ev"]["op"], "unchanged", "changed"))
            break
    return bad


def run():
    chk = Check("X04", level="model_checking")
    mc = common.tlc_mc("ProvLedger", cfg="MC_ProvLedger", timeout=3000)
    if not mc["ok"]:
        if mc["violated"]:
            chk.violation("TLC: design property %s of ProvLedger violated" % mc["violated"], dict(out=mc["out"][-3000:]))
        else:
            raise common.MachineryError("TLC failed on MC_ProvLedger:\n" + mc["out"][-2000:])
    chk.states += mc["states"]
    chk.transitions += mc["transitions"]
    beh, _ = common.tlc_simulate_json("ProvLedger", cfg="Sim_ProvLedger", num=100 if QUICK else 3000, depth=9, seed=SEED + 1)
    if len(beh) < 50:
        raise common.MachineryError("too few simulated behaviours: %d" % len(beh))
    rng = random.Random(SEED * 7919 + 404)
    seen = {}
    for b in beh:
        chk.note_case(b, any(st["ev"]["rec"] for st in b))
        for st in b:
            k = "%s:%s:%d" % (st["ev"]["facade"], st["ev"]["op"], st["ev"]["rec"])
            seen[k] = seen.get(k, 0) + 1
        bad = replay(b, rng)
        if bad:
            chk.violation("replay of a ProvLedger behaviour diverged at step %d: %s expected %s got %s" % bad[0], dict(behaviour=b, diverged=bad))
        else:
            chk.traces += 1
    chk.extra["steps_per_event"] = seen
    rej = tot = 0
    for b in beh[:40]:
        d = json.loads(json.dumps(b))
        d[-1]["ledger"] = d[-1]["ledger"] + ["simplify"]
        tot += 1
        rej += 1 if replay(d, rng) else 0
    chk.extra["binding_selftest"] = dict(corrupted=tot, rejected=rej)
    if rej != tot and not chk.violations:
        raise common.MachineryError("replay accepted %d corrupted behaviours" % (tot - rej))
    chk.sample(dict(behaviour=beh[0]))
    chk.rule = ("ProvLedger.tla model-checked (AppendOnly); behaviours from tlc -simulate (depth 8) over nine recording operations x both facades x "
                "record_provenance on/off, six silent operations and clear(clear_provenance=...) replayed into real tables; after every step the row "
                "count, the command of every row, schema validity of every record and byte-identity of earlier rows are compared; non-trivial = the "
                "behaviour records at least one row")
    chk.assumptions = ["beyond-property coverage: not listed in MANIFEST.json"]
    return chk.finish()


if __name__ == "__main__":
    common.assert_imports()
    common.main_wrapper(run)
