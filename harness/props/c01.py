"""C01 - marginal trees are exactly what the node and edge tables say.

 spec -> code: TLC enumerates the small-scope universe of node/edge tables (Dump_Universe);
 every element is loaded into the real library;  code -> spec: every tree reported by
 iteration / at / at_index / first / last / reversed and every derived view is recorded and
 validated by TLC against the definitions (Trace_Trees).  Random larger tree sequences
 (non-integer coordinates through monotone maps) extend the exhaustive part.  The design
 of the incremental algorithm itself is model-checked in MC_TreeCursor (shared with C06)."""
import random

import tskit
from fractions import Fraction

from harness import common, gen
from harness.common import QUICK, SEED, Check
from harness.treeobs import observe_tree

ORDERS = [("pre", "preorder"), ("post", "postorder"), ("inord", "inorder"), ("level", "levelorder"),
          ("bfs", "breadthfirst"), ("tasc", "timeasc"), ("tdesc", "timedesc"), ("minlex", "minlex_postorder")]


def tmap_exact(rng):
    kind = rng.choice(["id", "big"])
    tm = gen.CMap(kind, offset=rng.choice([0, 0, -7, 1000000]) * (2.0 ** 40 if kind == "big" else 1))
    scale = 2.0 ** 40 if kind == "big" else 1.0
    return tm, scale


def as_int(x, scale):
    y = x / scale
    return int(y) if y == int(y) else -999


def observe_case(a, th, tracked, sample_lists, cmap, tmap, tscale, rng):
    """total: an exception of the library while a valid tree sequence is being observed is itself an observation"""
    try:
        return observe_case_(a, th, tracked, sample_lists, cmap, tmap, tscale, rng)
    except Exception as e:
        import traceback
        return dict(error="%s: %s" % (type(e).__name__, str(e)[:200]), tb=traceback.format_exc()[-1500:], ts=a, th=th, tracked=list(tracked))


def observe_case_(a, th, tracked, sample_lists, cmap, tmap, tscale, rng):
    tables = gen.build_tables(a, cmap, tmap)
    if rng.random() < 0.4:
        gen.add_user_flags(tables, rng)      # user flag bits never matter
        tables.build_index()
    ts = tables.tree_sequence()
    a2 = gen.with_index(a, tables)
    N = ts.num_nodes
    kw = dict(root_threshold=th, sample_lists=sample_lists)
    if tracked:
        kw["tracked_samples"] = tracked
    trees = []
    times = sorted(set(a["time"]))
    def full(tree, r):
        ob = observe_tree(tree, cmap)
        ob["num_roots"] = int(tree.num_roots)
        ob["muts"] = [int(m.id) for m in tree.mutations()]
        # every mutation as the tree / its site / the tree sequence report it: [id, site, node, edge]
        ob["mutrecs"] = [[int(m.id), int(m.site), int(m.node), int(m.edge)] for m in tree.mutations()]
        ob["sitemuts"] = [[int(m.id), int(s.id), int(m.node), int(m.edge)] for s in tree.sites() for m in s.mutations]
        ob["num_mutations"] = int(tree.num_mutations)
        ob["mrca"] = [[int(tree.mrca(u, v)) for v in range(N)] for u in range(N)]
        # mrca / tmrca of three and four nodes (any nodes, repeats allowed): [args, mrca, abstract time of tmrca or -1 when it raises]
        mm = []
        r2 = random.Random(7919 * int(tree.index) + 31 * N + len(a["edges"]))     # its own generator: the draws of the other observations stay as they were
        for _ in range(6):
            args_ = [r2.randrange(N) for _j in range(r2.choice([3, 3, 4]))]
            try:
                tm_ = tmap.back(tree.tmrca(*args_))
            except ValueError:
                tm_ = -1
            mm.append([args_, int(tree.mrca(*args_)), tm_])
        ob["mrcan"] = mm
        ob["depth"] = [int(tree.depth(u)) for u in range(N)]
        ob["bl"] = [as_int(tree.branch_length(u), tscale) for u in range(N)]
        ob["tbl"] = as_int(tree.total_branch_length, tscale)
        ob["isdesc"] = [[1 if tree.is_descendant(u, v) else 0 for v in range(N)] for u in range(N)]
        ob["nlin"] = [[t, int(tree.num_lineages(tmap(t)))] for t in times]
        for key, order in ORDERS:
            ob[key] = [int(u) for u in tree.nodes(order=order)]
        ob["leaves"] = [[int(v) for v in tree.leaves(u)] for u in range(N)]
        ob["sackin"] = int(tree.sackin_index())
        try:
            ob["colless"] = int(tree.colless_index())
        except tskit.LibraryError:
            ob["colless"] = -1
        fr = Fraction(float(tree.b1_index())).limit_denominator(10 ** 6)
        ob["b1"] = [fr.numerator, fr.denominator]
        ob["nchild"] = [int(tree.num_children(u)) for u in range(N)]
        pl = []
        for _ in range(4):
            u, v = r.randrange(N), r.randrange(N)
            x = tree.path_length(u, v)
            pl.append([u, v, -1 if x == float("inf") else int(x)])
        ob["pathlen"] = pl
        ob["dist"] = [[u, v, as_int(tree.distance_between(u, v), tscale)] for u, v, x in pl if x >= 0]
        ob["anc"] = [[int(v) for v in tree.ancestors(u)] for u in range(N)]
        ob["sibs"] = [[int(v) for v in tree.siblings(u)] for u in range(N)]
        ob["isol"] = [1 if tree.is_isolated(u) else 0 for u in range(N)]
        ob["pdict"] = [[int(u), int(p)] for u, p in sorted(tree.parent_dict.items())]
        sub = r.randrange(N + 1)  # may be the virtual root
        ob["subroot"] = sub
        ob["subpre"] = [int(u) for u in tree.nodes(sub, order="preorder")]
        ob["subpost"] = [int(u) for u in tree.nodes(sub, order="postorder")]
        return ob

    for tree in ts.trees(**kw):
        trees.append(full(tree, rng))
    L = a["L"]

    def diffs(**kwargs):
        out = []
        for iv, eo, ei in ts.edge_diffs(**kwargs):
            out.append(dict(left=cmap.back(iv.left), right=cmap.back(iv.right),
                            out=[int(e.id) for e in eo], inn=[int(e.id) for e in ei]))
        return out
    seq = dict(
        mutation_edges=[[int(m.id), int(m.site), int(m.node), int(m.edge)] for m in ts.mutations()],
        num_trees=int(ts.num_trees),
        breakpoints=[cmap.back(x) for x in ts.breakpoints()],
        rev=[int(t.index) for t in reversed(ts.trees())],
        at=[[x, int(ts.at(cmap(x)).index), int(ts.at((cmap(x) + cmap(x + 1)) / 2, **kw).index)] for x in range(L)],
        first=int(ts.first().index), last=int(ts.last(**kw).index),
        diffs_fwd=diffs(include_terminal=True), diffs_fwd_noterm=diffs(),
        diffs_rev=diffs(include_terminal=True, direction=tskit.REVERSE),
        diffs_rev_noterm=diffs(direction=tskit.REVERSE),
        edgesets=[dict(left=cmap.back(e.left), right=cmap.back(e.right), parent=int(e.parent),
                       children=[int(c) for c in e.children]) for e in ts.edgesets()],
    )
    # at_index / aslist agree with iteration (harness-level identity on indexes; content is
    # compared through the same observation)
    idx = rng.randrange(ts.num_trees)
    t2 = ts.at_index(idx, **kw)
    o2 = observe_tree(t2, cmap)
    same = all(o2[f] == trees[idx][f] for f in ("index", "left", "right", "parent", "edge", "ns", "nt", "num_edges", "sites")) \
        and sorted(o2["roots"]) == sorted(trees[idx]["roots"])
    seq["at_index_same"] = 1 if same else 0
    # the Tree object handed out by the iteration, now past the end, is positioned again with first() / last():
    # it must report the same tree as the iteration did (content validated by TLC through trees[0] / trees[-1])
    reuse = 1
    for op, want in (("first", trees[0]), ("last", trees[-1]), ("first", trees[0])):
        getattr(tree, op)()
        o3 = observe_tree(tree, cmap)
        if not (all(o3[f] == want[f] for f in ("index", "left", "right", "parent", "edge", "ns", "nt", "num_edges", "sites"))
                and sorted(o3["roots"]) == sorted(want["roots"])):
            reuse = 0
    seq["reuse_same"] = reuse
    # one Tree object moved about by seek_index / seek in an arbitrary order: whatever it reports about the tree it is on (the whole
    # observation, child order aside) is what the iteration reported for that tree - nothing remembered from where it was before
    UNORDERED = ("leaves", "sibs", "samples")
    SKIP = {"pathlen", "dist", "subroot", "subpre", "subpost", "left_child", "right_child", "left_sib", "right_sib", "roots", "vsamples", "anc"} \
        | {key for key, _o in ORDERS}
    revisit, where = 1, ""
    t5 = tskit.Tree(ts, **kw)
    r5 = random.Random(31 * N + ts.num_trees)
    order = list(range(ts.num_trees))
    r5.shuffle(order)
    for j, idx in enumerate(order + order[:2]):
        if j % 2:
            t5.seek_index(idx)
        else:
            iv = trees[idx]
            t5.seek((cmap(iv["left"]) + cmap(iv["right"])) / 2)
        o5 = full(t5, random.Random(idx))
        for f_ in o5:
            if f_ in SKIP:
                continue
            x5, x0 = o5[f_], trees[idx][f_]
            if f_ in UNORDERED:
                x5, x0 = [sorted(q) for q in x5], [sorted(q) for q in x0]
            if x5 != x0 and revisit:
                revisit, where = 0, "%s of tree %d after %s" % (f_, idx, "seek_index" if j % 2 else "seek")
        if sorted(o5["roots"]) != sorted(trees[idx]["roots"]) and revisit:
            revisit, where = 0, "roots of tree %d" % idx
    seq["revisit_same"] = revisit
    seq["revisit_where"] = where
    # aslist(): independent copies of every tree, each equal to what the iteration showed (sample lists included)
    same = 1
    for i_, t3 in enumerate(ts.aslist(**kw)):
        o4 = observe_tree(t3, cmap)
        if not (all(o4[f] == trees[i_][f] for f in ("index", "left", "right", "parent", "edge", "ns", "nt", "num_edges", "sites", "samples", "vsamples"))
                and sorted(o4["roots"]) == sorted(trees[i_]["roots"])):
            same = 0
    seq["aslist_same"] = same
    return dict(ts=a2, th=th, tracked=list(tracked), trees=trees, seq=seq, maps=[cmap.kind, tmap.kind, tmap.offset])


def decorate_sites(a, rng):
    """attach a deterministic-random site/mutation layer to a universe element"""
    b = gen.random_abstract.__globals__["parent_at"]
    a = dict(a)
    a["sites"] = []
    a["muts"] = []
    for x in range(a["L"]):
        if rng.random() < 0.6:
            a["sites"].append(dict(pos=x, anc=0))
            s = len(a["sites"]) - 1
            if rng.random() < 0.7:
                a["muts"].append(dict(site=s, node=rng.randrange(len(a["time"])), der=1, parent=-1, time=-1))
    return a


def run():
    chk = Check("C01")
    rng = random.Random(SEED * 7919 + 1)
    cases = []
    # spec -> code: the TLC-enumerated universe
    uni, ust = common.tlc_eval_json("Dump_Universe", cfg="Dump_Universe_Q" if QUICK else "Dump_Universe_T")
    chk.add_tlc(ust)
    uni5 = []
    if not QUICK:
        uni5, ust5 = common.tlc_eval_json("Dump_Universe", cfg="Dump_Universe_5")
        chk.add_tlc(ust5)
    for a in uni + uni5:
        a = decorate_sites(a, rng)
        samples = [u for u in range(len(a["time"])) if a["flags"][u]]
        th = rng.choice([1, 2, 3])
        tracked = sorted(rng.sample(samples, rng.randint(0, len(samples))))
        tm, sc = tmap_exact(rng)
        cases.append(observe_case(a, th, tracked, rng.random() < 0.5, gen.CMap(rng.choice(gen.CMap.KINDS)), tm, sc, rng))
    nuni = len(cases)
    # random larger inputs
    for i in range(300 if QUICK else 30000):
        a = gen.random_abstract(rng, N=rng.randint(1, 8), K=rng.randint(1, 6), max_edges=14)
        if i % 3 == 2:       # node ids in no particular order (ids carry no meaning: parents with smaller ids than children, samples anywhere)
            a = gen.permute_nodes(a, random.Random(SEED * 1000003 + i))
        samples = [u for u in range(len(a["time"])) if a["flags"][u]]
        th = rng.choice([1, 1, 2, 3])
        tracked = sorted(rng.sample(samples, rng.randint(0, len(samples)))) if samples else []
        tm, sc = tmap_exact(rng)
        cases.append(observe_case(a, th, tracked, rng.random() < 0.5, gen.CMap(rng.choice(gen.CMap.KINDS)), tm, sc, rng))
    # binding self-test
    import copy
    for c in [c for c in cases if "error" in c]:
        chk.note_case(dict(ts=c["ts"], th=c["th"], tr=c["tracked"]), True)
        chk.violation("observing a valid tree sequence raised: %s\n%s" % (c["error"], c["tb"]), c)
    cases = [c for c in cases if "error" not in c]
    corrupted = []
    for c in cases[:60]:
        if len(c["trees"]) < 2 or len(c["ts"]["edges"]) < 2:
            continue
        d = copy.deepcopy(c)
        tr = d["trees"][rng.randrange(len(d["trees"]))]
        what = rng.choice(["parent", "mrca", "post", "right", "diffs", "tbl", "minlex"])
        if what == "parent":
            tr["parent"][0] = 1 if tr["parent"][0] != 1 else -1
        elif what == "mrca":
            tr["mrca"][0][1] = 0 if tr["mrca"][0][1] != 0 else 1
        elif what == "post":
            tr["post"] = tr["post"][::-1] if len(tr["post"]) > 1 else tr["post"] + [0]
        elif what == "right":
            tr["right"] += 1
        elif what == "diffs":
            d["seq"]["diffs_fwd"][0]["inn"] = d["seq"]["diffs_fwd"][0]["inn"][1:] + [0, 0]
        elif what == "tbl":
            tr["tbl"] += 1
        elif what == "minlex":
            tr["minlex"] = tr["minlex"] + [0]
        d["corrupt"] = what
        corrupted.append(d)
        if len(corrupted) >= 10:
            break
    cv, _ = common.tlc_validate("Trace_Trees", corrupted, chunks=4)
    acc = [d["corrupt"] for d in corrupted if not cv[d["id"]]]
    chk.extra["binding_selftest"] = dict(corrupted=len(corrupted), rejected=len(corrupted) - len(acc))
    if acc:
        raise common.MachineryError("Trace_Trees accepted corrupted traces: %s" % acc)
    verdicts, st = common.tlc_validate("Trace_Trees", cases)
    chk.add_tlc(st)
    for i, c in enumerate(cases):
        nt = len(c["trees"])
        chk.note_case(dict(ts=c["ts"], th=c["th"], tr=c["tracked"]), nt >= 2 and len(c["ts"]["edges"]) >= 2)
        f = list(verdicts[c["id"]])
        if not c["seq"]["at_index_same"]:
            f.append("at_index_differs_from_iteration")
        if not c["seq"]["reuse_same"]:
            f.append("repositioned_tree_differs_from_iteration")
        if not c["seq"]["revisit_same"]:
            f.append("revisited_tree_differs_from_iteration:" + c["seq"]["revisit_where"])
        if not c["seq"]["aslist_same"]:
            f.append("aslist_copy_differs_from_iteration")
        if f:
            chk.violation("trace rejected by Trace_Trees: failing clauses %s %s" % (f, st["eval_errors"].get(c["id"], "")[-600:]), c)
        else:
            chk.traces += 1
    chk.exhaustive = True
    chk.extra["universe_cases"] = nuni
    chk.extra["random_cases"] = len(cases) - nuni
    chk.extra["trees_checked"] = sum(len(c["trees"]) for c in cases)
    chk.extra["tlc_wall"] = round(st["wall"], 1)
    c = cases[-1]
    chk.sample(dict(ts=c["ts"], th=c["th"], tracked=c["tracked"], tree0={k: c["trees"][0][k] for k in ("index", "left", "right", "parent", "roots", "pre", "minlex")}))
    chk.rule = ("universe: TLC-enumerated node/edge tables (4 nodes, L=3, <=3 edges; thorough adds 5 nodes, L=2, <=4 edges) "
                "with a random site layer and random tree options; plus random larger ts; every tree x every view "
                "validated by TLC against TskTrees/TskTreeViews; non-trivial = >=2 trees and >=2 edges; distinct by (ts, options)")
    chk.assumptions = ["exhaustive over the enumerated universe only; tree options and the site layer are drawn at random per element",
                       "times are integer-valued so branch lengths are exact", "coordinates through monotone maps",
                       "traversal orders are checked relative to the child order the tree reports"]
    return chk.finish()


if __name__ == "__main__":
    common.assert_imports()
    common.main_wrapper(run)
