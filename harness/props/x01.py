"""X01 - spec growth beyond the listed properties (not registered in MANIFEST.json; run with ./check X01).

 code -> spec: TableCollection.link_ancestors, EdgeTable.squash, TreeSequence.individuals_time / individuals_population and
 TreeSequence.samples(population=, time=) are recorded on random tree sequences and validated by TLC against the positional
 definitions of TskExtras.tla."""
import copy
import random

import numpy as np
import tskit

from harness import common, gen
from harness.common import QUICK, SEED, Check

NANV = 900001


def rows_of(edges):
    return [dict(left=int(e.left), right=int(e.right), parent=int(e.parent), child=int(e.child)) for e in edges]


def one_case(rng):
    a = gen.random_abstract(rng, N=rng.randint(3, 7), K=rng.randint(1, 5), max_edges=12, nsites=0, nmuts=0, p_internal_sample=rng.choice([0.0, 0.2]))
    N = len(a["time"])
    t = gen.build_tables(a)
    # individuals / populations on the nodes
    nind = rng.randint(0, 3)
    npop = rng.randint(1, 2)
    for _ in range(npop):
        t.populations.add_row()
    for _ in range(nind):
        t.individuals.add_row()
    ind = [rng.randint(-1, nind - 1) if nind else -1 for _ in range(N)]
    pop = [rng.randint(-1, npop - 1) for _ in range(N)]
    if rng.random() < 0.6:      # make most individuals consistent
        for i in range(nind):
            us = [u for u in range(N) if ind[u] == i]
            for u in us[1:]:
                if a["time"][u] != a["time"][us[0]]:
                    ind[u] = -1
                pop[u] = pop[us[0]]
    t.nodes.set_columns(flags=t.nodes.flags, time=t.nodes.time, population=np.array(pop, dtype=np.int32), individual=np.array(ind, dtype=np.int32))
    ts = t.tree_sequence()
    rec = dict(L=a["L"], time=a["time"], flags=a["flags"], edges=a["edges"], sites=[], muts=[], ind=ind, pop=pop, nind=nind)
    calls = []
    S = rng.sample(range(N), rng.randint(1, min(3, N)))
    A = rng.sample(range(N), rng.randint(1, min(4, N)))
    calls.append(dict(kind="link", samples=S, ancestors=A, rows=rows_of(t.link_ancestors(S, A))))
    # squash: the edge table cut into unit pieces / random pieces, shuffled
    et = tskit.EdgeTable()
    pieces = []
    for e in a["edges"]:
        x = e["left"]
        while x < e["right"]:
            y = rng.randint(x + 1, e["right"])
            pieces.append((x, y, e["parent"], e["child"]))
            x = y
    rng.shuffle(pieces)
    for l, r, p, c in pieces:
        et.add_row(l, r, p, c)
    before = rows_of(et)
    et.squash()
    calls.append(dict(kind="squash", before=before, after=rows_of(et)))
    c = dict(kind="ind_arrays", time_raised=0, pop_raised=0, times=[], pops=[])
    try:
        c["times"] = [NANV if x != x else int(x) for x in ts.individuals_time]
    except tskit.LibraryError:
        c["time_raised"] = 1
    try:
        c["pops"] = [int(x) for x in ts.individuals_population]
    except tskit.LibraryError:
        c["pop_raised"] = 1
    calls.append(c)
    p = rng.choice([-2, -1, 0, 1])
    has_time = rng.random() < 0.5
    tt = rng.choice(a["time"])
    kw = {}
    if p != -2:
        kw["population"] = p
    if has_time:
        kw["time"] = float(tt)
    calls.append(dict(kind="samples", pop=p, has_time=1 if has_time else 0, t=tt, result=[int(u) for u in ts.samples(**kw)]))
    # whole-sequence properties, on the same tables with coordinates mapped through a monotone map
    cm = gen.CMap(rng.choice(["id", "third", "half", "big"]))
    tmk = rng.choice(["id", "id", "third", "half", "big"])
    toff = rng.choice([0, 0, -7, -1000000, -7.25])
    tm = gen.CMap(tmk, offset=toff)
    ts2 = gen.build_tables(a, cm, tm).tree_sequence()
    try:
        mrt = tm.back(ts2.max_root_time)
    except ValueError:
        mrt = -1
    calls.append(dict(kind="ts_props", cmap=cm.kind, max_root_time=mrt, min_time=tm.back(ts2.min_time), max_time=tm.back(ts2.max_time),
                      discrete_genome=1 if ts2.discrete_genome else 0, num_trees=int(ts2.num_trees),
                      tmap=tmk, toff_int=1 if toff == int(toff) else 0, toff=int(toff), discrete_time=1 if ts2.discrete_time else 0))
    return dict(ts=rec, calls=calls)


def run():
    chk = Check("X01", level="model_checking")
    rng = random.Random(SEED * 7919 + 101)
    cases = [one_case(rng) for _ in range(600 if QUICK else 20000)]
    corrupted = []
    for c in cases[:40]:
        d = copy.deepcopy(c)
        rows = d["calls"][0]["rows"]
        if rows:
            rows[0]["child"], rows[0]["parent"] = rows[0]["parent"], rows[0]["child"]
            corrupted.append(d)
        d = copy.deepcopy(c)
        if d["calls"][1]["after"]:
            d["calls"][1]["after"] = d["calls"][1]["after"][:-1]
            corrupted.append(d)
    cv, _ = common.tlc_validate("Trace_Extras", corrupted, chunks=4)
    acc = sum(1 for d in corrupted if not cv[d["id"]])
    chk.extra["binding_selftest"] = dict(corrupted=len(corrupted), rejected=len(corrupted) - acc)
    if acc:
        raise common.MachineryError("Trace_Extras accepted %d corrupted traces" % acc)
    verdicts, st = common.tlc_validate("Trace_Extras", cases, timeout=3000)
    chk.add_tlc(st)
    for c in cases:
        chk.note_case(dict(ts=c["ts"], S=c["calls"][0]["samples"], A=c["calls"][0]["ancestors"]), len(c["calls"][0]["rows"]) >= 1)
        f = verdicts[c["id"]]
        if f:
            chk.violation("trace rejected by Trace_Extras: %s %s" % (sorted(f), st["eval_errors"].get(c["id"], "")[-300:]), c,
                          signature="max-root-time-counts-dead-branches" if set(f) == {"ts_props:max_root_time"} else None)
        else:
            chk.traces += 1
    chk.sample(dict(ts=cases[0]["ts"], link=cases[0]["calls"][0]))
    chk.rule = ("random tree sequences (3-7 nodes) with individuals/populations on the nodes; link_ancestors over random sample / ancestor lists "
                "of any nodes; squash of the edge table cut into shuffled pieces; individuals_time / individuals_population; samples(population, time); "
                "non-trivial = link_ancestors returned at least one row")
    chk.assumptions = ["beyond-property coverage: not listed in MANIFEST.json"]
    return chk.finish()


if __name__ == "__main__":
    common.assert_imports()
    common.main_wrapper(run)
