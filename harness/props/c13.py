"""C13 - tables behave like a list of rows; tree sequences never change.

 (1) MC of the row-list machine (TableOps) for the two classes with self references.
 (2) spec -> code: TLC-simulated operation histories with expected contents replayed on real tables.
 (3) code -> spec: random operation histories on all eight table classes validated by TLC.
 (4) immutability: an alphabet of TreeSequence / Tree / Variant calls; after every call the
     tables digest must be unchanged and every ndarray handed out must be read-only or a copy
     (the harness attempts the write); TLC checks the recorded trace against the action
     property tables' = tables (Trace_Immutable)."""
import copy
import dataclasses
import json
import random
import zlib

import numpy as np
import tskit

from harness import common, gen
from harness.common import QUICK, SEED, Check

UNK = 900002
CLASSES = {
    "individuals": tskit.IndividualTable, "nodes": tskit.NodeTable, "edges": tskit.EdgeTable,
    "migrations": tskit.MigrationTable, "sites": tskit.SiteTable, "mutations": tskit.MutationTable,
    "populations": tskit.PopulationTable, "provenances": tskit.ProvenanceTable,
}
FLOATS = {"time", "left", "right", "position"}
STRS = {"ancestral_state", "derived_state", "timestamp", "record"}
RAGGED = {"individuals": ["location", "parents", "metadata"], "nodes": ["metadata"], "edges": ["metadata"],
          "migrations": ["metadata"], "sites": ["ancestral_state", "metadata"],
          "mutations": ["derived_state", "metadata"], "populations": ["metadata"], "provenances": ["timestamp", "record"]}


# optional columns of set_columns / append_columns and the value a row gets when the column is left out
OPTIONAL = {"nodes": {"population": -1, "individual": -1, "metadata": []}, "edges": {"metadata": []}, "migrations": {"metadata": []},
            "sites": {"metadata": []}, "mutations": {"parent": -1, "time": UNK, "metadata": []},
            "individuals": {"location": [], "parents": [], "metadata": []}}


# flag words beyond 31 bits travel as tokens (TLC integers are 32 bit): 2**31 and 2**32 - 1
BIGFLAG = {900031: 2 ** 31, 900032: 2 ** 32 - 1}
BIGFLAG_INV = {v: k for k, v in BIGFLAG.items()}


def to_kwargs(cls, rec):
    kw = {}
    for f, v in rec.items():
        if f == "flags":
            kw[f] = BIGFLAG.get(v, v)
        elif f in FLOATS:
            kw[f] = tskit.UNKNOWN_TIME if v == UNK else float(v)
        elif f == "location":
            kw[f] = [float(x) for x in v]
        elif f == "metadata":
            kw[f] = bytes(v)
        elif f in STRS:
            kw[f] = "".join(chr(c) for c in v)
        elif f == "parents":
            kw[f] = list(v)
        else:
            kw[f] = v
    return kw


def fnum(x):
    if tskit.is_unknown_time(x):
        return UNK
    return int(x) if float(x) == int(x) else -12345


def to_rec(cls, row):
    d = dataclasses.asdict(row)
    rec = {}
    for f, v in d.items():
        if f in FLOATS:
            rec[f] = fnum(v)
        elif f == "location":
            rec[f] = [fnum(x) for x in v]
        elif f == "metadata":
            rec[f] = list(v)
        elif f in STRS:
            rec[f] = [ord(c) for c in v]
        elif f == "parents":
            rec[f] = [int(x) for x in v]
        elif f == "id":
            continue
        elif f == "flags":
            rec[f] = BIGFLAG_INV.get(int(v), int(v))
        else:
            rec[f] = int(v)
    return rec


def content(cls, t):
    return [to_rec(cls, r) for r in t]


def rb(rng):
    return [rng.randrange(256) for _ in range(rng.choice([0, 0, 1, 3]))]


def rs(rng):
    return [rng.choice([65, 67, 71, 84]) for _ in range(rng.choice([0, 1, 1, 3]))]


def mkrow(cls, rng, n):
    ref = lambda: rng.randint(-1, max(n - 1, -1))
    if cls == "individuals":
        return dict(flags=rng.choice([0, 1, 2, 3, 3, 900031, 900032]), location=[rng.randint(-2, 2) for _ in range(rng.choice([0, 1, 3]))],
                    parents=[ref() for _ in range(rng.choice([0, 1, 2]))], metadata=rb(rng))
    if cls == "nodes":
        return dict(flags=rng.choice([0, 1, 2, 2, 900031, 900032]), time=rng.randint(-2, 5), population=rng.randint(-1, 2), individual=rng.randint(-1, 2), metadata=rb(rng))
    if cls == "edges":
        return dict(left=rng.randint(0, 3), right=rng.randint(3, 6), parent=rng.randint(0, 4), child=rng.randint(0, 4), metadata=rb(rng))
    if cls == "migrations":
        return dict(left=rng.randint(0, 3), right=rng.randint(3, 6), node=rng.randint(0, 4), source=rng.randint(0, 2),
                    dest=rng.randint(0, 2), time=rng.randint(0, 4), metadata=rb(rng))
    if cls == "sites":
        return dict(position=rng.randint(0, 9), ancestral_state=rs(rng), metadata=rb(rng))
    if cls == "mutations":
        return dict(site=rng.randint(0, 3), node=rng.randint(0, 3), derived_state=rs(rng), parent=ref(), metadata=rb(rng),
                    time=rng.choice([0, 2, 5, UNK]))
    if cls == "populations":
        return dict(metadata=rb(rng))
    if cls == "provenances":
        return dict(timestamp=rs(rng), record=rs(rng))


def as_array(vals, dtype, form):
    """the same values as a contiguous array (forms 0, 1), a strided view of a longer array (2, 3), a column of a 2-D array (4, 5)
    or a reversed view (6, 7): indexing semantics do not depend on the memory layout of the argument"""
    a = np.array(vals, dtype=dtype)
    if form in (2, 3):
        b = np.zeros(2 * len(a), dtype=dtype)
        b[::2] = a
        return b[::2]
    if form in (4, 5):
        b = np.zeros((len(a), 3), dtype=dtype)
        b[:, 1] = a
        return b[:, 1]
    if form in (6, 7):
        return np.array(a[::-1])[::-1]
    return a


def apply_real(cls, t, ev):
    """apply one event to the real table; returns (ok, ret, new_table_handle)"""
    op = ev["op"]
    try:
        if op == "add_row":
            return 1, [int(t.add_row(**to_kwargs(cls, ev["row"])))], t
        if op == "append":
            rowobj = t.row_class(**to_kwargs(cls, ev["row"]))
            return 1, [int(t.append(rowobj))], t
        if op == "setitem":
            t[ev["j"]] = t.row_class(**to_kwargs(cls, ev["row"]))
            return 1, [], t
        if op == "getitem":
            return 1, [to_rec(cls, t[ev["j"]])], t
        if op == "truncate":
            t.truncate(ev["n"])
            return 1, [], t
        if op == "clear":
            t.clear()
            return 1, [], t
        if op in ("set_columns", "append_columns"):
            o = CLASSES[cls]()
            for r in ev["rows"]:
                o.add_row(**to_kwargs(cls, r))
            d = o.asdict()
            d.pop("metadata_schema", None)
            for col in ev.get("omit", []):       # optional columns left out: the library fills in the documented default
                d.pop(col, None)
                d.pop(col + "_offset", None)
            getattr(t, op)(**d)
            return 1, [], t
        if op == "append_stray":
            o = CLASSES[cls]()
            d = o.asdict()
            d.pop("metadata_schema", None)
            col = ev["col"]
            k_ = ev["k"]
            d[col] = np.zeros(k_, dtype=d[col].dtype)
            d[col + "_offset"] = np.array([k_], dtype=d[col + "_offset"].dtype)
            t.append_columns(**d)
            return 1, [], t
        if op == "setattr":
            col, vals = ev["col"], ev["vals"]
            dt = getattr(t, col).dtype
            if col in FLOATS:
                arr = np.array([tskit.UNKNOWN_TIME if v == UNK else float(v) for v in vals], dtype=dt)
            else:
                arr = np.array(vals, dtype=dt)
            setattr(t, col, arr)
            return 1, [], t
        if op == "packset":
            col, vals = ev["col"], ev["vals"]
            if col == "metadata":
                t.packset_metadata([bytes(v) for v in vals])
            elif col in ("location",):
                t.packset_location([np.array(v, dtype=np.float64) for v in vals])
            elif col == "parents":
                t.packset_parents([np.array(v, dtype=np.int32) for v in vals])
            else:
                getattr(t, "packset_" + col)(["".join(chr(c) for c in v) for v in vals])
            return 1, [], t
        if op == "drop_metadata":
            t.drop_metadata()
            return 1, [], t
        if op == "slice":
            return 1, content(cls, t[ev["a"]:ev["b"]]), t
        if op == "mask":
            return 1, content(cls, t[as_array(ev["mask"], bool, ev.get("form", 0))]), t
        if op == "ids":
            return 1, content(cls, t[as_array(ev["ids"], [np.int64, np.int32][ev.get("form", 0) % 2], ev.get("form", 0))]), t
        if op == "keep_rows":
            m = t.keep_rows(as_array(ev["keep"], bool, ev.get("form", 0)))
            return 1, [int(x) for x in m], t
        if op == "copy":
            return 1, [], t.copy()
    except (tskit.LibraryError, ValueError, IndexError, TypeError) as e:
        return 0, [], t
    except Exception as e:      # not one of the documented exception families
        return -1, [], t
    raise ValueError(op)


def random_history(rng, cls, nops):
    t = CLASSES[cls](max_rows_increment=1) if rng.random() < 0.3 else CLASSES[cls]()
    ops = []
    has_meta = "metadata" in RAGGED[cls]
    scal = [f for f in mkrow(cls, rng, 1) if f not in RAGGED[cls]]
    for _ in range(nops):
        n = len(t)
        choices = ["add_row", "add_row", "append", "setitem", "getitem", "truncate", "clear", "set_columns", "append_columns",
                   "setattr", "packset", "slice", "mask", "ids", "keep_rows", "copy", "append_stray"] + (["drop_metadata"] if has_meta else [])
        op = rng.choice(choices)
        ev = dict(op=op)
        if op in ("add_row", "append"):
            ev["row"] = mkrow(cls, rng, n)
        elif op == "setitem":
            ev["j"] = rng.randint(-n - 1, n)
            ev["row"] = mkrow(cls, rng, n)
        elif op == "getitem":
            ev["j"] = rng.randint(-n - 1, n)
        elif op == "truncate":
            ev["n"] = rng.randint(0, n + 1)
        elif op in ("set_columns", "append_columns"):
            ev["rows"] = [mkrow(cls, rng, n) for _ in range(rng.randint(0, 3))]
            ev["omit"] = [c_ for c_ in OPTIONAL.get(cls, {}) if rng.random() < 0.35]
            for r in ev["rows"]:
                for c_ in ev["omit"]:
                    r[c_] = copy.deepcopy(OPTIONAL[cls][c_])
        elif op == "append_stray":
            ev["col"] = rng.choice(RAGGED[cls])
            ev["k"] = rng.randint(1, 3)
        elif op == "setattr":
            if not scal:
                continue
            ev["col"] = rng.choice(scal)
            ev["vals"] = [mkrow(cls, rng, n)[ev["col"]] for _ in range(n)]
        elif op == "packset":
            ev["col"] = rng.choice(RAGGED[cls])
            ev["vals"] = [mkrow(cls, rng, n)[ev["col"]] for _ in range(n)]
        elif op == "slice":
            a = rng.randint(0, n)
            ev["a"], ev["b"] = a, rng.randint(a, n)
        elif op == "mask":
            ev["mask"] = [rng.randint(0, 1) for _ in range(n)]
            ev["form"] = rng.randrange(8)
        elif op == "ids":
            if n == 0:
                continue
            ev["ids"] = [rng.randrange(-n, n) for _ in range(rng.randint(0, 4))]
            ev["form"] = rng.randrange(8)
        elif op == "keep_rows":
            ev["keep"] = [1 if rng.random() < 0.65 else 0 for _ in range(n)]
            ev["form"] = rng.randrange(8)
        ok, ret, t = apply_real(cls, t, ev)
        ev["ok"] = ok
        ev["ret"] = ret
        ev["after"] = content(cls, t)
        ops.append(ev)
    return dict(cls=cls, ops=ops)


def replay_behaviour(b):
    cls = b["cls"]
    t = CLASSES[cls]()
    for i, h in enumerate(b["hist"]):
        ev = h["ev"]
        ok, ret, t = apply_real(cls, t, ev)
        got = content(cls, t)
        if ok != h["ok"]:
            return "step %d %s: ok=%d expected %d" % (i, ev, ok, h["ok"])
        if got != h["after"]:
            return "step %d %s: content %s expected %s" % (i, ev, got, h["after"])
        if ok and ev["op"] in ("add_row", "keep_rows") and ret != list(h["ret"]):
            return "step %d %s: returned %s expected %s" % (i, ev, ret, h["ret"])
        if ok and ev["op"] in ("slice", "getitem", "mask", "ids") and ret != list(h["ret"]):
            return "step %d %s: %s returned %s expected %s" % (i, ev, ev["op"], ret, h["ret"])
    return None


# ------------------------------------------------------------------ immutability
def digest(ts):
    d = ts.dump_tables()
    d.drop_index()
    acc = 0
    for name, tab in d.table_name_map.items():
        for col, arr in tab.asdict().items():
            if isinstance(arr, np.ndarray):
                acc = zlib.crc32(arr.tobytes(), acc)
            else:
                acc = zlib.crc32(repr(arr).encode(), acc)
    acc = zlib.crc32(repr((d.sequence_length, d.time_units, repr(d.metadata), d.metadata_schema.__repr__())).encode(), acc)
    return acc & 0x3FFFFFFF


def harvest_arrays(obj, out, depth=0):
    if isinstance(obj, np.ndarray):
        out.append(obj)
    elif isinstance(obj, (list, tuple)) and depth < 3 and len(obj) < 50:
        for x in obj:
            harvest_arrays(x, out, depth + 1)
    elif dataclasses.is_dataclass(obj) and depth < 2:
        for f in dataclasses.fields(obj):
            harvest_arrays(getattr(obj, f.name, None), out, depth + 1)


def try_write(arr):
    """attempt to modify the array in place; returns 1 if the write succeeded"""
    if arr.size == 0:
        return 0
    try:
        flat = arr.reshape(-1)
        old = flat[0].copy() if hasattr(flat[0], "copy") else flat[0]
        if arr.dtype.kind in "iuf":
            flat[0] = old + 1
        elif arr.dtype.kind == "b":
            flat[0] = not old
        else:
            return 0
        return 1
    except (ValueError, TypeError):
        return 0


def immut_case(rng, a):
    tables = gen.build_tables(a, metadata=True)
    tables.populations.add_row(metadata=b"p0")
    tables.individuals.add_row(flags=1, location=[1.0, 2.0], metadata=b"i0")
    ind = np.full(tables.nodes.num_rows, -1, dtype=np.int32)
    pop = np.full(tables.nodes.num_rows, -1, dtype=np.int32)
    if len(ind):
        ind[0] = 0
        pop[0] = 0
    tables.nodes.individual = ind
    tables.nodes.population = pop
    ts = tables.tree_sequence()
    d0 = digest(ts)
    events = []
    S = [int(u) for u in ts.samples()]
    N = ts.num_nodes

    class Hang(BaseException):
        pass

    def on_alarm(signum, frame):
        raise Hang()
    dead = []

    def record(name, fn):
        # a call that does not come back (an object damaged by an earlier write makes an iteration endless) is a verdict, not a stuck check:
        # the event carries a digest nothing equals and the rest of the case is skipped
        if dead:
            return
        import signal
        old = signal.signal(signal.SIGALRM, on_alarm)
        signal.setitimer(signal.ITIMER_REAL, 60)
        try:
            record_(name, fn)
        except Hang:
            dead.append(name)
            events.append(dict(call=name, raised=0, digest="NO-RETURN-WITHIN-60s", arrays=[], refetch_same=0))
        finally:
            signal.setitimer(signal.ITIMER_REAL, 0)
            signal.signal(signal.SIGALRM, old)

    def record_(name, fn):
        try:
            ret = fn()
            raised = 0
        except Exception as e:   # any documented error is fine here; immutability is what matters
            ret = None
            raised = 1
        arrs = []
        harvest_arrays(ret, arrs)
        arecs = []
        originals = [np.array(arr, copy=True) for arr in arrs[:6]]
        for arr in arrs[:6]:
            w = 1 if arr.flags.writeable else 0
            wrote = try_write(arr)
            arecs.append(dict(writeable=w, wrote=wrote, digest_after_write=digest(ts)))
        # "either copies or not writeable": after the writes the same call must still give what it gave before
        refetch_same = 1
        if any(x["wrote"] for x in arecs) and not raised and not name.startswith(("auto:TreeSequence.split_polytomies", "auto:Tree.split_polytomies")):
            try:
                again = []
                harvest_arrays(fn(), again)
                for o_, a_ in zip(originals, again[:6]):
                    if o_.shape != a_.shape or not np.array_equal(o_, a_, equal_nan=(o_.dtype.kind == "f")):
                        refetch_same = 0
            except Exception:
                refetch_same = 0
        events.append(dict(call=name, raised=raised, digest=digest(ts), arrays=arecs, refetch_same=refetch_same))
        if not refetch_same or events[-1]["digest"] != d0:
            dead.append(name)       # the object was changed through what it handed out: the verdict is in; nothing more is asked of a damaged object
    # --- TreeSequence attributes that are arrays / properties
    names = [n for n in dir(ts) if not n.startswith("_")]
    rng.shuffle(names)
    for n in names:
        try:
            v = getattr(type(ts), n, None)
        except Exception:
            v = None
        if isinstance(v, property):
            record("ts." + n, lambda n=n: getattr(ts, n))
    # --- methods with simple arguments
    calls = {
        "simplify": lambda: ts.simplify(S[:2] if len(S) >= 2 else None), "dump_tables": lambda: ts.dump_tables(),
        "tables_nodes_time": lambda: ts.tables.nodes.time, "tables_edges_left": lambda: ts.tables.edges.left,
        "genotype_matrix": lambda: ts.genotype_matrix(), "samples": lambda: ts.samples(),
        "breakpoints": lambda: ts.breakpoints(as_array=True), "delete_sites": lambda: ts.delete_sites([0]) if ts.num_sites else None,
        "keep_intervals": lambda: ts.keep_intervals([[0, 1]]), "delete_intervals": lambda: ts.delete_intervals([[0, 1]]),
        "trim": lambda: ts.keep_intervals([[0, 1]]).trim(), "subset": lambda: ts.subset(list(range(N))[::-1]),
        "decapitate": lambda: ts.decapitate(1), "split_edges": lambda: ts.split_edges(1),
        "diversity": lambda: ts.diversity(), "afs": lambda: ts.allele_frequency_spectrum(),
        "divergence_matrix": lambda: ts.divergence_matrix(), "first": lambda: ts.first().parent_array,
        "mean_descendants": lambda: ts.mean_descendants([S]) if S else None,
        "ibd": lambda: ts.ibd_segments(store_pairs=True), "tables_mut": lambda: ts.tables.mutations.node,
        "individuals_nodes": lambda: ts.individual(0).nodes, "individual_location": lambda: ts.individual(0).location,
        "individuals_location": lambda: ts.individuals_location, "map_mut": lambda: ts.first().map_mutations(np.zeros(len(S), dtype=np.int8), ["A"]) if S else None,
        "union_self": lambda: ts.union(ts, np.arange(N, dtype=np.int32)), "extend": lambda: ts.extend_haplotypes(),
        "kc": lambda: ts.first().kc_distance(ts.first()) if len(S) > 1 else None,
        "haplotypes": lambda: list(ts.haplotypes()), "asdict": lambda: ts.dump_tables().asdict()["nodes"]["time"],
        "edge_array": lambda: ts.edges_left, "nodes_flags": lambda: ts.nodes_flags, "sites_position": lambda: ts.sites_position,
        "mutations_node": lambda: ts.mutations_node, "indexes": lambda: ts.indexes_edge_insertion_order,
    }
    keys = list(calls)
    rng.shuffle(keys)
    for kname in keys:
        record(kname, calls[kname])
    # --- Tree objects
    tree = ts.first(sample_lists=True)
    for n in [x for x in dir(tree) if x.endswith("_array")]:
        record("tree." + n, lambda n=n: getattr(tree, n))
    for nm in ["preorder", "postorder", "timeasc", "timedesc"]:
        record("tree." + nm, lambda nm=nm: getattr(tree, nm)())
    tree.next()
    record("tree.after_next", lambda: tree.parent_array)
    # --- Variant objects
    if ts.num_sites:
        v = next(ts.variants())
        record("variant.genotypes", lambda: v.genotypes)
        record("variant.samples", lambda: v.samples)
        record("variant.counts", lambda: list(v.counts().values()))
        v2 = tskit.Variant(ts)
        v2.decode(0)
        record("variant2.genotypes", lambda: v2.genotypes)
        record("variant.copy", lambda: v2.copy().genotypes)
    # --- every public method of TreeSequence / Tree / Variant that can be called with benign arguments (signatures discovered from the
    # implementation, defaults from the C09 harness): whatever it returns, the tree sequence stays the same and returned arrays are safe
    import inspect
    from harness.props import c09
    objs = dict(TreeSequence=ts, Tree=ts.first(sample_lists=True))
    if ts.num_sites:
        vv = tskit.Variant(ts)
        vv.decode(0)
        objs["Variant"] = vv
    auto = []
    for cn, obj in objs.items():
        for n, m in inspect.getmembers(type(obj), predicate=inspect.isfunction):
            if n.startswith("_") or n in c09.SKIP_METHODS or n in ("dump", "dump_text"):
                continue
            try:
                params = list(inspect.signature(m).parameters.values())[1:]
                kw = c09.default_args(ts, cn, obj, params, S, n)
            except Exception:
                kw = None
            if kw is not None:
                auto.append((cn, n, kw))
    rng.shuffle(auto)
    for cn, n, kw in auto[:60]:
        def fn(cn=cn, n=n, kw=kw):
            r = getattr(objs[cn], n)(**kw)
            if inspect.isgenerator(r) or hasattr(r, "__next__"):
                r = [x for _, x in zip(range(20), r)]
            return r
        record("auto:%s.%s" % (cn, n), fn)
    return dict(digest0=d0, events=events, ts=a)


def run():
    chk = Check("C13")
    rng = random.Random(SEED * 7919 + 13)
    # (1) MC
    for cls in ("mutations", "individuals"):
        mc = common.tlc_mc("MC_TableOps", cfg="MC_TableOps_" + cls, timeout=3000,
                           constants=None)
        chk.add_tlc(mc)
        chk.extra["mc_" + cls] = dict(states=mc["states"], transitions=mc["transitions"], completed=mc["ok"])
        if not mc["ok"]:
            if "Assert" in mc["out"] or "violated" in mc["out"]:
                chk.violation("TLC: TableOps design assertion failed\n" + mc["out"][-2000:], dict(kind="mc", out=mc["out"][-4000:]))
            else:
                raise common.MachineryError("MC_TableOps failed:\n" + mc["out"][-3000:])
    chk.exhaustive = True
    # (2) spec -> code
    nb = 0
    s2c_ops = {}
    for cls in CLASSES:
        beh, _ = common.tlc_simulate_json("MC_TableOps", cfg="Sim_TableOps_" + cls, num=(30 if cls in ("mutations", "individuals") else 6) if QUICK else 200,
                                          depth=9, seed=SEED + 3)
        if not beh:
            raise common.MachineryError("no behaviours from MC_TableOps sim")
        beh = list({json.dumps(b, sort_keys=True): b for b in beh}.values())
        for b in beh:
            for h in b["hist"]:
                k = "%s:%s:%d" % (cls, h["ev"]["op"], h["ok"])
                s2c_ops[k] = s2c_ops.get(k, 0) + 1
            err = replay_behaviour(b)
            nb += 1
            chk.note_case(dict(s2c=b), any(h["ev"]["op"] == "keep_rows" and h["ok"] for h in b["hist"]))
            if err:
                chk.violation("spec->code replay (%s): %s" % (cls, err), b)
            else:
                chk.traces += 1
    chk.extra["s2c_behaviours"] = nb
    chk.extra["s2c_steps_per_class_op_outcome"] = s2c_ops
    # (3) code -> spec
    cases = []
    for i in range(800 if QUICK else 12000):
        cls = list(CLASSES)[i % 8]
        cases.append(random_history(rng, cls, rng.randint(3, 25)))
    corrupted = []
    for c in cases[:80]:
        if len(corrupted) >= 8:
            break
        idx = [i for i, e in enumerate(c["ops"]) if e["after"]]
        if not idx:
            continue
        d = copy.deepcopy(c)
        e = d["ops"][rng.choice(idx)]
        r = e["after"][rng.randrange(len(e["after"]))]
        f = rng.choice(sorted(r))
        r[f] = (r[f] + [1]) if isinstance(r[f], list) else r[f] + 1
        corrupted.append(d)
    cv, _ = common.tlc_validate("Trace_TableOps", corrupted, chunks=4)
    if any(not cv[d["id"]] for d in corrupted):
        raise common.MachineryError("Trace_TableOps accepted corrupted traces")
    chk.extra["binding_selftest"] = dict(corrupted=len(corrupted), rejected=len(corrupted))
    verdicts, st = common.tlc_validate("Trace_TableOps", cases)
    chk.add_tlc(st)
    nops = 0
    for c in cases:
        nops += len(c["ops"])
        ops = [e["op"] for e in c["ops"]]
        chk.note_case(dict(cls=c["cls"], ops=[{k: v for k, v in e.items() if k not in ("after", "ret")} for e in c["ops"]]),
                      len(set(ops)) >= 3 and any(e["after"] for e in c["ops"]))
        f = verdicts[c["id"]]
        if f:
            chk.violation("trace rejected by Trace_TableOps (%s): %s %s" % (c["cls"], f, st["eval_errors"].get(c["id"], "")[-400:]), c)
        else:
            chk.traces += 1
    chk.extra["c2s"] = dict(histories=len(cases), operations=nops)
    # (4) immutability
    icases = []
    for i in range(12 if QUICK else 150):
        a = gen.random_abstract(rng, N=rng.randint(3, 7), K=rng.randint(2, 5), max_edges=10, nsites=3, nmuts=3, nalleles=4)
        icases.append(immut_case(rng, a))
    iv, ist = common.tlc_validate("Trace_Immutable", icases, chunks=8)
    chk.add_tlc(ist)
    ncalls = 0
    narr = 0
    for c in icases:
        ncalls += len(c["events"])
        narr += sum(len(e["arrays"]) for e in c["events"])
        chk.note_case(dict(immut=c["ts"]), True)
        f = iv[c["id"]]
        if f:
            badcalls = [e["call"] for e in c["events"] if e["digest"] != c["digest0"] or any(x["digest_after_write"] != c["digest0"] for x in e["arrays"])]
            chk.violation("immutability trace rejected: %s; offending calls %s" % (f, badcalls[:5]), dict(ts=c["ts"], calls=badcalls))
        else:
            chk.traces += 1
    chk.extra["immutability"] = dict(tree_sequences=len(icases), calls=ncalls, arrays_written_to=narr)
    c = cases[0]
    chk.sample(dict(cls=c["cls"], ops=[{k: v for k, v in e.items() if k != "after"} for e in c["ops"][:6]]))
    chk.rule = ("random histories of 16 row/column operations on each of the 8 table classes (max_rows_increment=1 in 30%); "
                "TLC-simulated histories for mutations/individuals; immutability: every public property plus ~40 method calls "
                "on TreeSequence/Tree/Variant with write attempts on every returned ndarray; non-trivial = >=3 distinct ops on a non-empty table")
    chk.assumptions = ["row values are small integers / short byte strings; float columns hold integral values or UNKNOWN_TIME",
                       "tables digest = crc32 over all columns (harness), compared as an integer by TLC"]
    return chk.finish()


if __name__ == "__main__":
    common.assert_imports()
    common.main_wrapper(run)
