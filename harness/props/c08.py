"""C08 - statistics equal their definitions, are additive over windows and thread-independent.

 MC: the thread fan-out / combine protocol (PlusCal, Fanout.tla) is model-checked over all interleavings
 for several (items, threads) combinations, together with the numpy.array_split chunking rule.
 spec -> code: the chunking functions _chunk_windows / _chunk_sequence_by_tree are replayed for every
 (number of windows or trees <= 7, num_chunks <= 9) against the ArraySplit rule.
 code -> spec: named statistics (diversity, segregating_sites, Y1, divergence, Y2, f2, Y3, f3, f4),
 sample_count_stat with the numerator as summary function (polarised and not), divergence_matrix, in site /
 branch / node mode, with arbitrary integer windows, 'trees'/'sites' windows, span_normalise on and off,
 are recorded as exact integers (value * denominator * span) and validated by TLC against the naive
 definitions (TskStats); the window refinement law and equality across num_threads are clauses of the trace spec."""
import copy
import itertools
import random
from fractions import Fraction

import numpy as np
import tskit

from harness import common, gen
from harness.common import QUICK, SEED, Check

ARITY = dict(diversity=1, segregating_sites=1, Y1=1, divergence=2, Y2=2, f2=2, Y3=3, f3=3, f4=4)


def num(stat, x, n):
    if stat == "diversity":
        return x[0] * (n[0] - x[0])
    if stat == "segregating_sites":
        return (n[0] - x[0]) if x[0] > 0 else 0
    if stat == "Y1":
        return x[0] * (n[0] - x[0]) * (n[0] - x[0] - 1)
    if stat == "divergence":
        return x[0] * (n[1] - x[1])
    if stat == "Y2":
        return x[0] * (n[1] - x[1]) * (n[1] - x[1] - 1)
    if stat == "f2":
        return x[0] * (x[0] - 1) * (n[1] - x[1]) * (n[1] - x[1] - 1) - x[0] * (n[0] - x[0]) * (n[1] - x[1]) * x[1]
    if stat == "Y3":
        return x[0] * (n[1] - x[1]) * (n[2] - x[2])
    if stat == "f3":
        return x[0] * (x[0] - 1) * (n[1] - x[1]) * (n[2] - x[2]) - x[0] * (n[0] - x[0]) * (n[1] - x[1]) * x[2]
    if stat == "f4":
        return x[0] * x[2] * (n[1] - x[1]) * (n[3] - x[3]) - x[0] * x[3] * (n[1] - x[1]) * (n[2] - x[2])


def den(stat, n):
    return dict(diversity=lambda: n[0] * (n[0] - 1), segregating_sites=lambda: n[0], Y1=lambda: n[0] * (n[0] - 1) * (n[0] - 2),
                divergence=lambda: n[0] * n[1], Y2=lambda: n[0] * n[1] * (n[1] - 1), f2=lambda: n[0] * (n[0] - 1) * n[1] * (n[1] - 1),
                Y3=lambda: n[0] * n[1] * n[2], f3=lambda: n[0] * (n[0] - 1) * n[1] * n[2], f4=lambda: n[0] * n[1] * n[2] * n[3])[stat]()


def scaled(v, d, span):
    y = float(v) * d * span
    r = round(y)
    if abs(y - r) > 1e-6 * max(1.0, abs(y)):
        return -987654321
    return int(r)


def min_sizes(stat):
    return dict(diversity=[2], segregating_sites=[1], Y1=[3], divergence=[1, 1], Y2=[1, 2], f2=[2, 2], Y3=[1, 1, 1], f3=[2, 1, 1], f4=[1, 1, 1, 1])[stat]


def make_sets(rng, S, k):
    pool = S[:]
    rng.shuffle(pool)
    sets = [[] for _ in range(k)]
    for i, u in enumerate(pool):
        sets[rng.randrange(k)].append(u)
    return [sorted(s) for s in sets]


def random_windows(rng, L):
    pts = sorted(set([0, L] + [rng.randrange(1, L) for _ in range(rng.randint(0, 3))])) if L > 1 else [0, L]
    return pts


def refine(rng, w, L):
    extra = [x for x in range(1, L) if x not in w and rng.random() < 0.5]
    return sorted(set(w) | set(extra))


def one_call(ts, a, rng, S):
    stat = rng.choice(list(ARITY))
    ar = ARITY[stat]
    nsets = rng.randint(ar, ar + 1) if ar > 1 else rng.randint(1, 2)
    need = min_sizes(stat)
    for _ in range(30):
        sets = make_sets(rng, S, nsets)
        if ar == 1:
            indexes = [[j] for j in range(nsets)]
        else:
            indexes = [list(p) for p in rng.sample(list(itertools.permutations(range(nsets), ar)), 1 + (rng.random() < 0.5))] \
                if nsets >= ar else None
        if indexes and all(len(sets[idx[t]]) >= need[t] for idx in indexes for t in range(ar)) and all(len(s) >= 1 for s in sets):
            break
    else:
        return None
    L = a["L"]
    mode = rng.choice(["site", "branch", "node"])
    sn = rng.random() < 0.6
    wkind = rng.choice(["int", "int", "trees", "sites", "none"])
    if wkind == "int":
        windows = random_windows(rng, L)
        warg = [float(x) for x in windows]
    elif wkind == "trees":
        windows = sorted({0, L} | {e["left"] for e in a["edges"]} | {e["right"] for e in a["edges"]})
        warg = "trees"
    elif wkind == "sites":
        pos = sorted({s["pos"] for s in a["sites"]})
        windows = sorted(set([0] + pos[1:] + [L])) if pos else [0, L]
        warg = "sites"
    else:
        windows = [0, L]
        warg = None
    use_general = rng.random() < 0.4
    polarised = use_general and rng.random() < 0.5

    def run(warg_, windows_):
        spans = [windows_[i + 1] - windows_[i] for i in range(len(windows_) - 1)]
        if use_general:
            nn = [[len(sets[j]) for j in idx] for idx in indexes]

            def f(x):
                return np.array([num(stat, [x[j] for j in idx], n_) for idx, n_ in zip(indexes, nn)], dtype=float)
            r = ts.sample_count_stat(sets, f, len(indexes), windows=warg_, polarised=polarised, mode=mode, span_normalise=sn, strict=False)
            dens = [1] * len(indexes)
        else:
            fn = getattr(ts, stat)
            if ar == 1:
                r = fn(sets, windows=warg_, mode=mode, span_normalise=sn)
            else:
                r = fn(sets, indexes=[tuple(i) for i in indexes], windows=warg_, mode=mode, span_normalise=sn)
            dens = [den(stat, [len(sets[j]) for j in idx]) for idx in indexes]
        r = np.array(r, dtype=float)
        nw = len(windows_) - 1
        if mode == "node":
            r = r.reshape((nw, ts.num_nodes, len(indexes)))
            return [[[scaled(r[w][u][i], dens[i], spans[w] if sn else 1) for i in range(len(indexes))] for u in range(ts.num_nodes)] for w in range(nw)]
        r = r.reshape((nw, len(indexes)))
        return [[scaled(r[w][i], dens[i], spans[w] if sn else 1) for i in range(len(indexes))] for w in range(nw)]
    res = run(warg, windows)
    call = dict(stat=stat, mode=mode, polarised=1 if polarised else 0, span_normalise=1 if sn else 0, sets=sets, indexes=indexes, windows=windows,
                result=res, fine_windows=[], fine_result=[], threaded=[], general=1 if use_general else 0, wkind=wkind)
    if mode != "node" and L > 1 and rng.random() < 0.6:
        fw = refine(rng, windows, L)
        call["fine_windows"] = fw
        call["fine_result"] = run([float(x) for x in fw], fw)
    return call


def divmat_call(ts, a, rng, S):
    """divergence_matrix with num_threads in {0,1,2,3,5,8}: identical results; values through the divergence definition"""
    k = rng.randint(2, min(3, len(S)))
    sets = [s for s in make_sets(rng, S, k) if s]
    if len(sets) < 2:
        return None
    L = a["L"]
    mode = rng.choice(["site", "branch"])
    sn = rng.random() < 0.5
    windows = random_windows(rng, L) if rng.random() < 0.6 else None
    outs = []
    for nt in (0, 1, 2, 3, 5, 8):
        D = ts.divergence_matrix(sets, windows=None if windows is None else [float(x) for x in windows], num_threads=nt, mode=mode, span_normalise=sn)
        D = np.array(D, dtype=float)
        flat = []
        for v in D.reshape(-1):
            fr = Fraction(float(v)).limit_denominator(10 ** 6) if np.isfinite(v) else Fraction(-1, 7)
            flat.append([fr.numerator, fr.denominator])
        outs.append(flat)
    w = windows if windows is not None else [0, L]
    D0 = np.array(ts.divergence_matrix(sets, windows=[float(x) for x in w], mode=mode, span_normalise=sn), dtype=float).reshape((len(w) - 1, len(sets), len(sets)))
    pairs = [(i, j) for i in range(len(sets)) for j in range(len(sets)) if i != j]
    spans = [w[i + 1] - w[i] for i in range(len(w) - 1)]
    res = [[scaled(D0[q][i][j], len(sets[i]) * len(sets[j]), spans[q] if sn else 1) for (i, j) in pairs] for q in range(len(w) - 1)]
    return dict(stat="divergence", mode=mode, polarised=0, span_normalise=1 if sn else 0, sets=sets, indexes=[list(p) for p in pairs], windows=w,
                result=res, fine_windows=[], fine_result=[], threaded=outs, general=0, wkind="divmat")


def chunk_replay(chk):
    """spec -> code: the chunking helpers follow the array_split rule for every small (n, k)"""
    bad = 0
    n_checked = 0
    for n in range(1, 8):
        for k in range(1, 10):
            windows = np.arange(n + 1, dtype=float)
            got = tskit.TreeSequence._chunk_windows(windows, k)
            kk = min(n, k)
            sizes = [n // kk + (1 if j < n % kk else 0) for j in range(kk)]
            exp = []
            start = 0
            for s in sizes:
                exp.append(list(range(start, start + s + 1)))
                start += s
            n_checked += 1
            chk.note_case(dict(chunk=[n, k]), True)
            if [list(map(int, c)) for c in got] != exp:
                chk.violation("_chunk_windows(%d windows, %d chunks) = %s, array_split rule gives %s" % (n, k, [list(c) for c in got], exp), dict(n=n, k=k))
            else:
                chk.traces += 1
    return n_checked


def run():
    chk = Check("C08")
    rng = random.Random(SEED * 7919 + 8)
    for cfg in (["Fanout_4_3", "Fanout_5_2", "Fanout_2_4"] if QUICK else ["Fanout_4_3", "Fanout_5_2", "Fanout_2_4", "Fanout_3_5", "Fanout_6_3"]):
        mc = common.tlc_mc("Fanout", cfg=cfg, timeout=900)
        chk.add_tlc(mc)
        chk.extra.setdefault("fanout_mc", {})[cfg] = dict(states=mc["states"], completed=mc["ok"])
        if not mc["ok"]:
            if mc["violated"] or "violated" in mc["out"]:
                chk.violation("TLC: Fanout protocol violates %s" % mc["violated"], dict(out=mc["out"][-3000:]))
            else:
                raise common.MachineryError("Fanout MC failed:\n" + mc["out"][-2000:])
    chk.exhaustive = True
    nchunk = chunk_replay(chk)
    cases = []
    for i in range(2500 if QUICK else 30000):
        a = gen.random_abstract(rng, N=rng.randint(3, 7), K=rng.randint(1, 6), max_edges=12, nsites=4, nmuts=4, nalleles=3,
                                p_internal_sample=rng.choice([0.0, 0.15]))
        S = [u for u in range(len(a["time"])) if a["flags"][u]]
        if len(S) < 2:
            continue
        ts = gen.build_tables(a).tree_sequence()
        # chunking by tree for this ts
        for kk in (1, 2, 3, 8):
            ch = ts._chunk_sequence_by_tree(kk)
            bps = [int(x) for x in ts.breakpoints()]
            nt = ts.num_trees
            m = min(nt, kk)
            sizes = [nt // m + (1 if j < nt % m else 0) for j in range(m)]
            exp = []
            st = 0
            for s_ in sizes:
                exp.append((bps[st], bps[st + s_]))
                st += s_
            if [(int(l), int(r)) for l, r in ch] != exp:
                chk.violation("_chunk_sequence_by_tree(%d) = %s, expected %s" % (kk, ch, exp), dict(a=a, k=kk))
        calls = []
        for _ in range(3):
            c = one_call(ts, a, rng, S)
            if c:
                calls.append(c)
        if rng.random() < 0.5:
            c = divmat_call(ts, a, rng, S)
            if c:
                calls.append(c)
        if calls:
            cases.append(dict(ts=dict(L=a["L"], time=a["time"], flags=a["flags"], edges=a["edges"], sites=a["sites"], muts=a["muts"]), calls=calls))
    corrupted = []
    for c in cases:
        if len(corrupted) >= 8:
            break
        d = copy.deepcopy(c)
        cl = d["calls"][0]
        if cl["mode"] == "node":
            cl["result"][0][0][0] += 1
        else:
            cl["result"][0][0] += 1
        corrupted.append(d)
    cv, _ = common.tlc_validate("Trace_Stats", corrupted, chunks=4)
    acc = sum(1 for d in corrupted if not cv[d["id"]])
    chk.extra["binding_selftest"] = dict(corrupted=len(corrupted), rejected=len(corrupted) - acc)
    if acc:
        raise common.MachineryError("Trace_Stats accepted %d corrupted traces" % acc)
    verdicts, st = common.tlc_validate("Trace_Stats", cases, timeout=3000)
    chk.add_tlc(st)
    hist = {}
    for c in cases:
        for cl in c["calls"]:
            key = "%s/%s/%s" % (cl["stat"], cl["mode"], "general" if cl["general"] else "named")
            hist[key] = hist.get(key, 0) + 1
        chk.note_case(dict(ts=c["ts"], calls=[[x["stat"], x["mode"], x["polarised"], x["span_normalise"], x["sets"], x["indexes"], x["windows"]] for x in c["calls"]]),
                      any(any(v != 0 for row in x["result"] for v in (row if x["mode"] != "node" else [q for r in row for q in r])) for x in c["calls"]))
        f = verdicts[c["id"]]
        if f:
            chk.violation("trace rejected by Trace_Stats: %s %s" % (sorted(f), st["eval_errors"].get(c["id"], "")[-300:]), c)
        else:
            chk.traces += 1
    chk.extra.update(cases=len(cases), calls=sum(len(c["calls"]) for c in cases), call_kinds=len(hist), chunk_layouts=nchunk,
                     threaded_calls=sum(1 for c in cases for x in c["calls"] if x["threaded"]),
                     refinement_checks=sum(1 for c in cases for x in c["calls"] if x["fine_windows"]))
    c = cases[0]
    chk.sample(dict(ts=c["ts"], call={k: v for k, v in c["calls"][0].items() if k not in ("fine_result",)}))
    chk.rule = ("random ts (3-7 nodes, integer coordinates and times, multiallelic / recurrent sites, multiple roots, internal samples) x 9 named statistics "
                "and sample_count_stat (polarised or not) x site/branch/node x integer / 'trees' / 'sites' / no windows x span_normalise, random window "
                "refinements, divergence_matrix with num_threads in {0,1,2,3,5,8}; non-trivial = some non-zero result")
    chk.assumptions = ["integer coordinates and times make every result an exact rational with the documented denominator; the harness scales and rounds, "
                       "asserting exactness", "races inside C code are only visible as differing results between thread counts (no TSan build)",
                       "Fanout model bounded to <=6 items / <=5 threads"]
    return chk.finish()


if __name__ == "__main__":
    common.assert_imports()
    common.main_wrapper(run)
