"""C08 - statistics equal their definitions, are additive over windows and thread-independent.

 MC: the thread fan-out / combine protocol (PlusCal, Fanout.tla) is model-checked over all interleavings
 for several (items, threads) combinations, together with the numpy.array_split chunking rule.
 spec -> code: the chunking functions _chunk_windows / _chunk_sequence_by_tree are replayed for every
 (number of windows or trees <= 7, num_chunks <= 9) against the ArraySplit rule.
 code -> spec: named statistics (diversity, segregating_sites, Y1, divergence, Y2, f2, Y3, f3, f4),
 sample_count_stat with the numerator as summary function (polarised and not), divergence_matrix, in site /
 branch / node mode, with arbitrary integer windows, 'trees'/'sites' windows, span_normalise on and off,
 are recorded as exact integers (value * denominator * span) and validated by TLC against the naive
 definitions (TskStats); the window refinement law and equality across num_threads are clauses of the trace spec."""
import copy
import itertools
import random
from fractions import Fraction

import numpy as np
import tskit

from harness import common, gen
from harness.common import QUICK, SEED, Check

PREFIX_ALLELES = ["AT", "A", "", "ATT", "G", "ATTA", "é", "AA"]
ARITY = dict(diversity=1, segregating_sites=1, Y1=1, divergence=2, Y2=2, f2=2, Y3=3, f3=3, f4=4)


def num(stat, x, n):
    if stat == "diversity":
        return x[0] * (n[0] - x[0])
    if stat == "segregating_sites":
        return (n[0] - x[0]) if x[0] > 0 else 0
    if stat == "Y1":
        return x[0] * (n[0] - x[0]) * (n[0] - x[0] - 1)
    if stat == "divergence":
        return x[0] * (n[1] - x[1])
    if stat == "Y2":
        return x[0] * (n[1] - x[1]) * (n[1] - x[1] - 1)
    if stat == "f2":
        return x[0] * (x[0] - 1) * (n[1] - x[1]) * (n[1] - x[1] - 1) - x[0] * (n[0] - x[0]) * (n[1] - x[1]) * x[1]
    if stat == "Y3":
        return x[0] * (n[1] - x[1]) * (n[2] - x[2])
    if stat == "f3":
        return x[0] * (x[0] - 1) * (n[1] - x[1]) * (n[2] - x[2]) - x[0] * (n[0] - x[0]) * (n[1] - x[1]) * x[2]
    if stat == "f4":
        return x[0] * x[2] * (n[1] - x[1]) * (n[3] - x[3]) - x[0] * x[3] * (n[1] - x[1]) * (n[2] - x[2])


def den(stat, n):
    return dict(diversity=lambda: n[0] * (n[0] - 1), segregating_sites=lambda: n[0], Y1=lambda: n[0] * (n[0] - 1) * (n[0] - 2),
                divergence=lambda: n[0] * n[1], Y2=lambda: n[0] * n[1] * (n[1] - 1), f2=lambda: n[0] * (n[0] - 1) * n[1] * (n[1] - 1),
                Y3=lambda: n[0] * n[1] * n[2], f3=lambda: n[0] * (n[0] - 1) * n[1] * n[2], f4=lambda: n[0] * n[1] * n[2] * n[3])[stat]()


def scaled(v, d, span):
    y = float(v) * d * span
    r = round(y)
    if abs(y - r) > 1e-6 * max(1.0, abs(y)):
        return -987654321
    return int(r)


def min_sizes(stat):
    return dict(diversity=[2], segregating_sites=[1], Y1=[3], divergence=[1, 1], Y2=[1, 2], f2=[2, 2], Y3=[1, 1, 1], f3=[2, 1, 1], f4=[1, 1, 1, 1])[stat]


def make_sets(rng, S, k):
    pool = S[:]
    rng.shuffle(pool)
    sets = [[] for _ in range(k)]
    for i, u in enumerate(pool):
        sets[rng.randrange(k)].append(u)
    return [sorted(s) for s in sets]


def random_windows(rng, L):
    pts = sorted(set([0, L] + [rng.randrange(1, L) for _ in range(rng.randint(0, 3))])) if L > 1 else [0, L]
    return pts


def refine(rng, w, L):
    extra = [x for x in range(1, L) if x not in w and rng.random() < 0.5]
    return sorted(set(w) | set(extra))


def one_call(ts, a, rng, S):
    stat = rng.choice(list(ARITY))
    ar = ARITY[stat]
    nsets = rng.randint(ar, ar + 1) if ar > 1 else rng.randint(1, 2)
    need = min_sizes(stat)
    for _ in range(30):
        sets = make_sets(rng, S, nsets)
        if ar == 1:
            indexes = [[j] for j in range(nsets)]
        else:
            indexes = [list(p) for p in rng.sample(list(itertools.permutations(range(nsets), ar)), 1 + (rng.random() < 0.5))] \
                if nsets >= ar else None
        if indexes and all(len(sets[idx[t]]) >= need[t] for idx in indexes for t in range(ar)) and all(len(s) >= 1 for s in sets):
            break
    else:
        return None
    L = a["L"]
    mode = rng.choice(["site", "branch", "node"])
    sn = rng.random() < 0.6
    wkind = rng.choice(["int", "int", "trees", "sites", "none"])
    if wkind == "int":
        windows = random_windows(rng, L)
        warg = [float(x) for x in windows]
    elif wkind == "trees":
        windows = sorted({0, L} | {e["left"] for e in a["edges"]} | {e["right"] for e in a["edges"]})
        warg = "trees"
    elif wkind == "sites":
        pos = sorted({s["pos"] for s in a["sites"]})
        windows = sorted(set([0] + pos[1:] + [L])) if pos else [0, L]
        warg = "sites"
    else:
        windows = [0, L]
        warg = None
    use_general = rng.random() < 0.4
    polarised = use_general and rng.random() < 0.5

    def run(warg_, windows_):
        spans = [windows_[i + 1] - windows_[i] for i in range(len(windows_) - 1)]
        if use_general:
            nn = [[len(sets[j]) for j in idx] for idx in indexes]

            def f(x):
                return np.array([num(stat, [x[j] for j in idx], n_) for idx, n_ in zip(indexes, nn)], dtype=float)
            r = ts.sample_count_stat(sets, f, len(indexes), windows=warg_, polarised=polarised, mode=mode, span_normalise=sn, strict=False)
            dens = [1] * len(indexes)
        else:
            fn = getattr(ts, stat)
            if ar == 1:
                r = fn(sets, windows=warg_, mode=mode, span_normalise=sn)
            else:
                r = fn(sets, indexes=[tuple(i) for i in indexes], windows=warg_, mode=mode, span_normalise=sn)
            dens = [den(stat, [len(sets[j]) for j in idx]) for idx in indexes]
        r = np.array(r, dtype=float)
        nw = len(windows_) - 1
        if mode == "node":
            r = r.reshape((nw, ts.num_nodes, len(indexes)))
            return [[[scaled(r[w][u][i], dens[i], spans[w] if sn else 1) for i in range(len(indexes))] for u in range(ts.num_nodes)] for w in range(nw)]
        r = r.reshape((nw, len(indexes)))
        return [[scaled(r[w][i], dens[i], spans[w] if sn else 1) for i in range(len(indexes))] for w in range(nw)]
    res = run(warg, windows)
    call = dict(stat=stat, mode=mode, polarised=1 if polarised else 0, span_normalise=1 if sn else 0, sets=sets, indexes=indexes, windows=windows,
                result=res, fine_windows=[], fine_result=[], threaded=[], general=1 if use_general else 0, wkind=wkind, kind="count")
    if mode != "node" and L > 1 and rng.random() < 0.6:
        fw = refine(rng, windows, L)
        call["fine_windows"] = fw
        call["fine_result"] = run([float(x) for x in fw], fw)
    return call


def divmat_call(ts, a, rng, S):
    """divergence_matrix with num_threads in {0,1,2,3,5,8}: identical results; values through the divergence definition"""
    k = rng.randint(2, min(3, len(S)))
    sets = [s for s in make_sets(rng, S, k) if s]
    if len(sets) < 2:
        return None
    L = a["L"]
    mode = rng.choice(["site", "branch"])
    sn = rng.random() < 0.5
    windows = random_windows(rng, L) if rng.random() < 0.6 else None
    outs = []
    for nt in (0, 1, 2, 3, 5, 8):
        D = ts.divergence_matrix(sets, windows=None if windows is None else [float(x) for x in windows], num_threads=nt, mode=mode, span_normalise=sn)
        D = np.array(D, dtype=float)
        flat = []
        for v in D.reshape(-1):
            fr = Fraction(float(v)).limit_denominator(10 ** 6) if np.isfinite(v) else Fraction(-1, 7)
            flat.append([fr.numerator, fr.denominator])
        outs.append(flat)
    w = windows if windows is not None else [0, L]
    D0 = np.array(ts.divergence_matrix(sets, windows=[float(x) for x in w], mode=mode, span_normalise=sn), dtype=float).reshape((len(w) - 1, len(sets), len(sets)))
    pairs = [(i, j) for i in range(len(sets)) for j in range(len(sets)) if i != j]
    spans = [w[i + 1] - w[i] for i in range(len(w) - 1)]
    res = [[scaled(D0[q][i][j], len(sets[i]) * len(sets[j]), spans[q] if sn else 1) for (i, j) in pairs] for q in range(len(w) - 1)]
    return dict(stat="divergence", mode=mode, polarised=0, span_normalise=1 if sn else 0, sets=sets, indexes=[list(p) for p in pairs], windows=w,
                result=res, fine_windows=[], fine_result=[], threaded=outs, general=0, wkind="divmat", kind="count")


# ---------------------------------------------------------------------------------------------------------
# further statistics named by the property (definitions in TskStats, second half)
INEXACT = [123456789, 1]


def frac(v, maxden=10 ** 7):
    """float -> reduced fraction [p, q]; nan -> [0, 0]; a value that is not (to 1e-9) a small fraction is rejected"""
    v = float(v)
    if v != v or v in (float("inf"), float("-inf")):
        return [0, 0]
    fr = Fraction(v).limit_denominator(maxden)
    if abs(float(fr) - v) > 1e-9 * max(1.0, abs(v)):
        return INEXACT
    return [fr.numerator, fr.denominator]


def disjoint_sets(rng, pool, k, min_size=1, cover=False):
    pool = pool[:]
    rng.shuffle(pool)
    if len(pool) < k * min_size:
        return None
    sets = [[pool.pop() for _ in range(min_size)] for _ in range(k)]
    for u in pool:
        if cover or rng.random() < 0.7:
            sets[rng.randrange(k)].append(u)
    return [sorted(x) for x in sets]


def base(kind, stat, mode, **kw):
    d = dict(kind=kind, stat=stat, mode=mode, polarised=0, span_normalise=0, sets=[], indexes=[], windows=[], result=[], fine_windows=[],
             fine_result=[], threaded=[], general=0, wkind=kind)
    d.update(kw)
    return d


def pick_windows(rng, L):
    if rng.random() < 0.3:
        return [0, L], None
    w = random_windows(rng, L)
    return w, [float(x) for x in w]


def afs_call(ts, a, rng, S):
    sets = disjoint_sets(rng, S, rng.randint(1, 2))
    if sets is None:
        return None
    mode = rng.choice(["site", "branch"])
    pol = rng.random() < 0.5
    sn = rng.random() < 0.5
    windows, warg = pick_windows(rng, a["L"])

    def run(w, wa):
        r = np.array(ts.allele_frequency_spectrum(sets, windows=wa, mode=mode, span_normalise=sn, polarised=pol), dtype=float)
        r = r.reshape((len(w) - 1, -1))
        mult = 2 if (mode == "site" and not pol) else 1
        return [[scaled(v, mult, (w[q + 1] - w[q]) if sn else 1) for v in r[q]] for q in range(len(w) - 1)]
    c = base("afs", "afs", mode, polarised=1 if pol else 0, span_normalise=1 if sn else 0, sets=sets, windows=windows, result=run(windows, warg))
    if a["L"] > 1 and rng.random() < 0.6:
        fw = refine(rng, windows, a["L"])
        c["fine_windows"] = fw
        c["fine_result"] = run(fw, [float(x) for x in fw])
    return c


def fst_call(ts, a, rng, S):
    sets = disjoint_sets(rng, S, rng.randint(2, 3), min_size=2)
    if sets is None:
        return None
    k = len(sets)
    indexes = [list(p) for p in rng.sample(list(itertools.permutations(range(k), 2)), rng.randint(1, 2))]
    mode = rng.choice(["site", "branch"])
    sn = rng.random() < 0.5
    windows, warg = pick_windows(rng, a["L"])
    r = np.array(ts.Fst(sets, indexes=[tuple(i) for i in indexes], windows=warg, mode=mode, span_normalise=sn), dtype=float).reshape((len(windows) - 1, len(indexes)))
    return base("fst", "Fst", mode, span_normalise=1 if sn else 0, sets=sets, indexes=indexes, windows=windows,
                result=[[frac(v) for v in row] for row in r])


def relatedness_call(ts, a, rng, S):
    sets = disjoint_sets(rng, S, rng.randint(2, 3))
    if sets is None or any(len(x) > 3 for x in sets):
        return None
    k = len(sets)
    indexes = [list(p) for p in rng.sample(list(itertools.product(range(k), repeat=2)), rng.randint(1, 2))]
    mode = rng.choice(["site", "branch"])
    sn = rng.random() < 0.5
    pol = rng.random() < 0.6
    centre = rng.random() < 0.6
    windows, warg = pick_windows(rng, a["L"])
    n = [len(x) for x in sets]
    P = 1
    for x in n:
        P *= x

    def run(w, wa):
        r = np.array(ts.genetic_relatedness(sets, indexes=[tuple(i) for i in indexes], windows=wa, mode=mode, span_normalise=sn, polarised=pol,
                                            proportion=False, centre=centre), dtype=float).reshape((len(w) - 1, len(indexes)))
        return [[scaled(r[q][i], (k * P) ** 2 if centre else n[indexes[i][0]] * n[indexes[i][1]], (w[q + 1] - w[q]) if sn else 1)
                 for i in range(len(indexes))] for q in range(len(w) - 1)]
    c = base("relatedness", "genetic_relatedness", mode, polarised=1 if pol else 0, centre=1 if centre else 0, span_normalise=1 if sn else 0,
             sets=sets, indexes=indexes, windows=windows, result=run(windows, warg))
    if a["L"] > 1 and rng.random() < 0.5:
        fw = refine(rng, windows, a["L"])
        c["fine_windows"] = fw
        c["fine_result"] = run(fw, [float(x) for x in fw])
    return c


GENF = {"x1": lambda x, T: x[0], "x1cx2": lambda x, T: x[0] * (T[1] - x[1]), "sq": lambda x, T: x[0] * x[0] + x[1]}


def general_call(ts, a, rng, S):
    W = [[rng.randint(-2, 3), rng.randint(-2, 3)] for _ in S]
    T = [sum(r[0] for r in W), sum(r[1] for r in W)]
    fnames = [rng.choice(sorted(GENF)), rng.choice(sorted(GENF))]
    mode = rng.choice(["site", "branch", "node"])
    pol = rng.random() < 0.5
    sn = rng.random() < 0.5
    windows, warg = pick_windows(rng, a["L"])
    form = rng.randrange(4)

    def f(x):
        vals = [GENF[fn](x, T) for fn in fnames]
        if form == 0:
            return np.array(vals, dtype=float)
        if form == 1:
            return vals                       # a plain list
        if form == 2:                         # a strided view of a longer array
            b = np.zeros(2 * len(vals), dtype=float)
            b[::2] = vals
            return b[::2]
        b = np.zeros((len(vals), 3), dtype=float)     # a column of a 2-D table
        b[:, 1] = vals
        return b[:, 1]

    def run(w, wa):
        r = np.array(ts.general_stat(np.array(W, dtype=float), f, 2, windows=wa, mode=mode, span_normalise=sn, polarised=pol, strict=False), dtype=float)
        nw = len(w) - 1
        if mode == "node":
            r = r.reshape((nw, ts.num_nodes, 2))
            return [[[scaled(r[q][u][j], 1, (w[q + 1] - w[q]) if sn else 1) for j in range(2)] for u in range(ts.num_nodes)] for q in range(nw)]
        r = r.reshape((nw, 2))
        return [[scaled(r[q][j], 1, (w[q + 1] - w[q]) if sn else 1) for j in range(2)] for q in range(nw)]
    c = base("general", "general_stat", mode, polarised=1 if pol else 0, span_normalise=1 if sn else 0, windows=windows, weights=W, fnames=fnames,
             result=run(windows, warg))
    if mode != "node" and a["L"] > 1 and rng.random() < 0.5:
        fw = refine(rng, windows, a["L"])
        c["fine_windows"] = fw
        c["fine_result"] = run(fw, [float(x) for x in fw])
    return c


def gnn_call(ts, a, rng, S):
    nodes = list(range(ts.num_nodes))
    pool = S if rng.random() < 0.6 else nodes
    sets = disjoint_sets(rng, pool, rng.randint(1, 3))
    if sets is None:
        return None
    focal = [rng.choice(nodes) for _ in range(rng.randint(1, 4))]
    outs = []
    for nt in (0, 1, 2, 3):
        r = np.array(ts.genealogical_nearest_neighbours(focal, sets, num_threads=nt), dtype=float).reshape((len(focal), len(sets)))
        outs.append([[frac(v) for v in row] for row in r])
    return base("gnn", "gnn", "tree", sets=sets, focal=focal, result=outs[0], threaded=outs)


def meandesc_call(ts, a, rng, S):
    # the documented definition speaks of the *samples* in each sample set: reference sets are drawn from the samples
    sets = disjoint_sets(rng, S, rng.randint(1, 3), cover=rng.random() < 0.5)
    if sets is None:
        return None
    r = np.array(ts.mean_descendants(sets), dtype=float).reshape((ts.num_nodes, len(sets)))
    return base("meandesc", "mean_descendants", "tree", sets=sets, result=[[frac(v) for v in row] for row in r])


def paircoal_call(ts, a, rng, S):
    sets = disjoint_sets(rng, S, rng.randint(1, 3))
    if sets is None:
        return None
    k = len(sets)
    allidx = [(i, j) for i in range(k) for j in range(i, k)]
    indexes = [list(p) for p in rng.sample(allidx, rng.randint(1, min(2, len(allidx))))]
    windows, warg = pick_windows(rng, a["L"])
    sn = rng.random() < 0.5
    r = np.array(ts.pair_coalescence_counts(sets, indexes=[tuple(i) for i in indexes], windows=warg, span_normalise=sn, pair_normalise=False),
                 dtype=float).reshape((len(windows) - 1, len(indexes), ts.num_nodes))
    return base("paircoal", "pair_coalescence_counts", "tree", sets=sets, indexes=indexes, windows=windows, span_normalise=1 if sn else 0,
                result=[[[(frac(v) if sn else scaled(v, 1, 1)) for v in r[q][i]] for i in range(len(indexes))] for q in range(len(windows) - 1)])


def _ancestors(t, u):
    u = t.parent(u)
    while u != tskit.NULL:
        yield u
        u = t.parent(u)


def ts_kc_case(rng):
    """TreeSequence.kc_distance is the span-weighted average of Tree.kc_distance over the intersected trees (a sum of square roots: evaluated
    here in floating point over Tree-level values, which TLC validates through the treedist calls)"""
    n = rng.randint(3, 5)
    K = rng.randint(2, 5)
    out = []
    for _ in range(2):
        for _try in range(20):
            a = gen.coalescent_abstract(rng, nleaves=n, ninternal=n - 1, K=K, p_keep=0.5, p_join=1.0)
            ts = gen.build_tables(a).tree_sequence()
            if all(t.num_roots == 1 and all(t.num_children(u) != 1 for u in t.nodes()) for t in ts.trees()) and ts.num_samples == n:
                break
        else:
            return None
        out.append((a, ts))
    (a1, ts1), (a2, ts2) = out
    ok = 1
    for lam in (0.0, 0.3, 0.5, 1.0):
        got = float(ts1.kc_distance(ts2, lam))
        want = sum(float(ts1.at(x + 0.5, sample_lists=True).kc_distance(ts2.at(x + 0.5, sample_lists=True), lam)) for x in range(K)) / K
        if abs(got - want) > 1e-9 * max(1.0, abs(want)):
            ok = 0
    call = base("derived", "ts_kc_distance", "tree", ok=ok)
    # the Tree-level ingredients of the first tree sequence are validated by TLC
    calls = [call]
    for _ in range(2):
        c = treedist_call(ts1, a1, rng, list(range(n)))
        if c:
            calls.append(c)
    return dict(ts=dict(L=a1["L"], time=a1["time"], flags=a1["flags"], edges=a1["edges"], sites=[], muts=[]), calls=calls)


def relvec_call(ts, a, rng, S):
    """genetic_relatedness_vector(W) = C @ W with C the matrix of genetic_relatedness between the single samples (same mode, centre and
    span normalisation; TLC validates genetic_relatedness itself); evaluated in floating point"""
    if len(S) < 2 or len(S) > 5:
        return None
    W = np.array([[rng.randint(-2, 3), rng.randint(-2, 3)] for _ in S], dtype=float)
    centre = rng.random() < 0.5
    windows, warg = pick_windows(rng, a["L"])
    nw = len(windows) - 1
    pairs = [(i, j) for i in range(len(S)) for j in range(len(S))]
    oks = {}
    for sn in (False, True):
        v = np.array(ts.genetic_relatedness_vector(W, windows=warg, mode="branch", span_normalise=sn, centre=centre), dtype=float).reshape((nw, len(S), 2))
        C = np.array(ts.genetic_relatedness([[s_] for s_ in S], indexes=pairs, windows=warg, mode="branch", span_normalise=sn, centre=centre,
                                            proportion=False), dtype=float).reshape((nw, len(S), len(S)))
        oks[sn] = all(np.allclose(v[q], C[q] @ W, rtol=1e-9, atol=1e-9) for q in range(nw))
    return base("derived", "genetic_relatedness_vector", "branch", centre=1 if centre else 0, windows=windows, ok=1 if (oks[False] and oks[True]) else 0,
                ok_unnormalised=1 if oks[False] else 0, ok_normalised=1 if oks[True] else 0)


def gap_paircoal_case(rng):
    """span-normalised pair coalescence counts with a window boundary strictly inside a stretch of missing sequence (no edges), the
    windows on both sides holding coalescences: the "span of non-missing sequence in the window" must be split between the two windows"""
    K = rng.randint(4, 6)
    a = gen.coalescent_abstract(rng, nleaves=rng.randint(3, 4), ninternal=rng.randint(2, 3), K=K, p_keep=0.6, p_join=1.0)
    g0 = rng.randint(1, K - 3)
    g1 = rng.randint(g0 + 2, K - 1)
    edges = []
    for e in a["edges"]:
        if e["left"] < g0:
            edges.append(dict(e, right=min(e["right"], g0)))
        if e["right"] > g1:
            edges.append(dict(e, left=max(e["left"], g1)))
    edges.sort(key=lambda e: (a["time"][e["parent"]], e["parent"], e["child"], e["left"]))
    a = dict(a, edges=edges)
    ts = gen.build_tables(a).tree_sequence()
    S = [u for u in range(len(a["time"])) if a["flags"][u]]
    cut = rng.randint(g0 + 1, g1 - 1)
    windows = sorted({0, cut, K} | ({rng.randint(1, K - 1)} if rng.random() < 0.4 else set()))
    sets = [S] if rng.random() < 0.5 else [S[:len(S) // 2], S[len(S) // 2:]]
    indexes = [[0, 0]] if len(sets) == 1 else [[0, 1]]
    r = np.array(ts.pair_coalescence_counts(sets, indexes=[tuple(i) for i in indexes], windows=np.array(windows, dtype=float), span_normalise=True,
                                            pair_normalise=False), dtype=float).reshape((len(windows) - 1, len(indexes), ts.num_nodes))
    call = base("paircoal", "pair_coalescence_counts", "tree", sets=sets, indexes=indexes, windows=windows, span_normalise=1,
                result=[[[frac(v) for v in r[q][i]] for i in range(len(indexes))] for q in range(len(windows) - 1)])
    return dict(ts=dict(L=a["L"], time=a["time"], flags=a["flags"], edges=a["edges"], sites=[], muts=[]), calls=[call])


def treedist_call(ts, a, rng, S):
    """rf_distance and kc_distance between two trees of the same tree sequence (both with a single root)"""
    if ts.num_trees < 2:
        return None
    cells = list(range(a["L"]))
    x, y = rng.sample(cells, 2) if len(cells) > 1 else (0, 0)
    t1 = ts.at(x, sample_lists=True)
    t2 = ts.at(y, sample_lists=True)
    if t1.num_roots != 1 or t2.num_roots != 1:
        return None
    rf = int(t1.rf_distance(t2))
    kc = []
    # the KC metric is defined on trees whose labelled nodes are tips of the sample genealogy: a sample that is an ancestor of another
    # sample has no documented treatment (the library leaves such pairs at 0), so those trees are not compared (DESIGN 10.1)
    nested = any(t.parent(u) != tskit.NULL and any(v != u and t.is_sample(v) for v in _ancestors(t, u)) for t in (t1, t2) for u in ts.samples())
    for lam in (0.0, 0.5, 1.0):
        if nested:
            kc.append(-1)
            continue
        try:
            v = float(t1.kc_distance(t2, lam))
            sq = 4 * v * v
            kc.append(int(round(sq)) if abs(sq - round(sq)) < 1e-6 * max(1.0, sq) else -2)
        except tskit.LibraryError:
            kc.append(-1)   # documented refusals: unary nodes
    return base("treedist", "treedist", "tree", x=x, y=y, rx=int(t1.root), ry=int(t2.root), rf=rf, kc0=kc[0], kch=kc[1], kc1=kc[2])


def ld_case(rng):
    """a tree sequence whose sites carry exactly one mutation each (the LdCalculator's infinite-sites requirement)"""
    a = gen.coalescent_abstract(rng, nleaves=rng.randint(3, 5), ninternal=rng.randint(2, 4), K=rng.randint(2, 5), p_internal_sample=rng.choice([0.0, 0.0, 0.3]))
    for s_, x in enumerate(sorted(rng.sample(range(a["L"]), rng.randint(2, a["L"])))):
        a["sites"].append(dict(pos=x, anc=0))
        a["muts"].append(dict(site=s_, node=rng.randrange(len(a["time"])), der=1, parent=-1, time=-1))
    tb_ = gen.build_tables(a)
    if rng.random() < 0.4:
        gen.add_user_flags(tb_, rng)
    ts = tb_.tree_sequence()
    if ts.num_samples < 2:
        return None
    ld = tskit.LdCalculator(ts)
    M1 = np.array(ld.r2_matrix(), dtype=float)
    M2 = np.array(ts.ld_matrix(), dtype=float)
    pairs = []
    for i in range(ts.num_sites):
        for j in range(ts.num_sites):
            if i != j:
                vals = [frac(ld.r2(i, j)), frac(M1[i][j]), frac(M2[i][j])]
                v = vals[0] if all(q == vals[0] for q in vals) else INEXACT + [vals]
                pairs.append([i, j, v[:2]])
    return dict(ts=dict(L=a["L"], time=a["time"], flags=a["flags"], edges=a["edges"], sites=a["sites"], muts=a["muts"]),
                calls=[base("ld", "r2", "site", pairs=pairs)])


def tajd_calls(ts, a, rng, S):
    """Tajima's D is a floating-point function of diversity and segregating_sites: the two ingredients are validated by TLC (count kind),
    the formula itself is evaluated here"""
    sets = disjoint_sets(rng, S, rng.randint(1, 2), min_size=2)
    if sets is None:
        return []
    mode = rng.choice(["site", "branch"])
    windows, warg = pick_windows(rng, a["L"])
    nw = len(windows) - 1
    out = []
    T = np.array(ts.diversity(sets, windows=warg, mode=mode, span_normalise=False), dtype=float).reshape((nw, len(sets)))
    Sg = np.array(ts.segregating_sites(sets, windows=warg, mode=mode, span_normalise=False), dtype=float).reshape((nw, len(sets)))
    for stat, r in (("diversity", T), ("segregating_sites", Sg)):
        out.append(base("count", stat, mode, sets=sets, indexes=[[j] for j in range(len(sets))], windows=windows,
                        result=[[scaled(r[q][j], den(stat, [len(sets[j])]), 1) for j in range(len(sets))] for q in range(nw)]))
    D = np.array(ts.Tajimas_D(sets, windows=warg, mode=mode), dtype=float).reshape((nw, len(sets)))
    ok = 1
    for q in range(nw):
        for j, s_ in enumerate(sets):
            n = len(s_)
            h = sum(1.0 / i for i in range(1, n))
            g = sum(1.0 / i ** 2 for i in range(1, n))
            aa = (n + 1) / (3 * (n - 1) * h) - 1 / h ** 2
            bb = 2 * (n ** 2 + n + 3) / (9 * n * (n - 1)) - (n + 2) / (h * n) + g / h ** 2
            var = aa * Sg[q][j] + (bb / (h ** 2 + g)) * Sg[q][j] * (Sg[q][j] - 1)
            exp = (T[q][j] - Sg[q][j] / h) / np.sqrt(var) if var > 0 else float("nan")
            got = D[q][j]
            if not ((exp != exp and (got != got or abs(got) == float("inf"))) or abs(exp - got) <= 1e-9 * max(1.0, abs(exp))):
                ok = 0
    out.append(base("derived", "Tajimas_D", mode, sets=sets, windows=windows, ok=ok))
    return out


def traitcov_call(ts, a, rng, S):
    n = len(S)
    if n < 2:
        return None
    W = [[rng.randint(-2, 3), rng.randint(-2, 3)] for _ in S]
    mode = rng.choice(["site", "branch"])
    sn = rng.random() < 0.5
    windows, warg = pick_windows(rng, a["L"])
    D = 2 * n * n * (n - 1) * (n - 1) if mode == "branch" else n * n * 2 * (n - 1) * (n - 1)

    def run(w, wa):
        r = np.array(ts.trait_covariance(np.array(W, dtype=float), windows=wa, mode=mode, span_normalise=sn), dtype=float).reshape((len(w) - 1, 2))
        # branch: sum of 2 v^2 / (2 (n-1)^2 n^2) -> x D gives 2 v^2 n^0...; both modes are compared as  value * 2 n^2 (n-1)^2 / (1 or 2)
        return [[scaled(r[q][k], n * n * (n - 1) * (n - 1) * (2 if mode == "site" else 2), (w[q + 1] - w[q]) if sn else 1) for k in range(2)] for q in range(len(w) - 1)]
    c = base("traitcov", "trait_covariance", mode, span_normalise=1 if sn else 0, windows=windows, weights=W, result=run(windows, warg))
    if a["L"] > 1 and rng.random() < 0.5:
        fw = refine(rng, windows, a["L"])
        c["fine_windows"] = fw
        c["fine_result"] = run(fw, [float(x) for x in fw])
    return c


def grw_call(ts, a, rng, S):
    n = len(S)
    W = [[rng.randint(-2, 3), rng.randint(-2, 3)] for _ in S]
    indexes = [list(p) for p in rng.sample([(0, 0), (0, 1), (1, 0), (1, 1)], rng.randint(1, 2))]
    mode = rng.choice(["site", "branch"])
    sn = rng.random() < 0.5
    pol = rng.random() < 0.5
    centre = rng.random() < 0.6
    windows, warg = pick_windows(rng, a["L"])

    def run(w, wa):
        r = np.array(ts.genetic_relatedness_weighted(np.array(W, dtype=float), indexes=[tuple(i) for i in indexes], windows=wa, mode=mode, span_normalise=sn,
                                                     polarised=pol, centre=centre), dtype=float).reshape((len(w) - 1, len(indexes)))
        return [[scaled(r[q][i], n * n if centre else 1, (w[q + 1] - w[q]) if sn else 1) for i in range(len(indexes))] for q in range(len(w) - 1)]
    c = base("grw", "genetic_relatedness_weighted", mode, polarised=1 if pol else 0, centre=1 if centre else 0, span_normalise=1 if sn else 0, windows=windows,
             weights=W, indexes=indexes, result=run(windows, warg))
    if a["L"] > 1 and rng.random() < 0.5:
        fw = refine(rng, windows, a["L"])
        c["fine_windows"] = fw
        c["fine_result"] = run(fw, [float(x) for x in fw])
    return c


EXTRA = [relvec_call, traitcov_call, grw_call, afs_call, afs_call, fst_call, relatedness_call, general_call, general_call, gnn_call, meandesc_call, paircoal_call, treedist_call]


def nonzero(r):
    if isinstance(r, list):
        return any(nonzero(v) for v in r)
    return r not in (0, None)


def chunk_replay(chk):
    """spec -> code: the chunking helpers follow the array_split rule for every small (n, k)"""
    bad = 0
    n_checked = 0
    for n in range(1, 8):
        for k in range(1, 10):
            windows = np.arange(n + 1, dtype=float)
            got = tskit.TreeSequence._chunk_windows(windows, k)
            kk = min(n, k)
            sizes = [n // kk + (1 if j < n % kk else 0) for j in range(kk)]
            exp = []
            start = 0
            for s in sizes:
                exp.append(list(range(start, start + s + 1)))
                start += s
            n_checked += 1
            chk.note_case(dict(chunk=[n, k]), True)
            if [list(map(int, c)) for c in got] != exp:
                chk.violation("_chunk_windows(%d windows, %d chunks) = %s, array_split rule gives %s" % (n, k, [list(c) for c in got], exp), dict(n=n, k=k))
            else:
                chk.traces += 1
    return n_checked


def run():
    chk = Check("C08")
    rng = random.Random(SEED * 7919 + 8)
    for cfg in (["Fanout_4_3", "Fanout_5_2", "Fanout_2_4"] if QUICK else ["Fanout_4_3", "Fanout_5_2", "Fanout_2_4", "Fanout_3_5", "Fanout_6_3"]):
        mc = common.tlc_mc("Fanout", cfg=cfg, timeout=3000)
        chk.add_tlc(mc)
        chk.extra.setdefault("fanout_mc", {})[cfg] = dict(states=mc["states"], completed=mc["ok"])
        if not mc["ok"]:
            if mc["violated"] or "violated" in mc["out"]:
                chk.violation("TLC: Fanout protocol violates %s" % mc["violated"], dict(out=mc["out"][-3000:]))
            else:
                raise common.MachineryError("Fanout MC failed:\n" + mc["out"][-2000:])
    chk.exhaustive = True
    nchunk = chunk_replay(chk)
    cases = []
    for i in range(1400 if QUICK else 20000):
        if i % 2 == 0:
            a = gen.random_abstract(rng, N=rng.randint(3, 7), K=rng.randint(1, 6), max_edges=12, nsites=4, nmuts=4, nalleles=3,
                                    p_internal_sample=rng.choice([0.0, 0.15]))
        else:   # sample-rich, coalescent-like
            a = gen.add_sites(gen.coalescent_abstract(rng, nleaves=rng.randint(3, 5), ninternal=rng.randint(2, 4), K=rng.randint(1, 5),
                                                      p_internal_sample=rng.choice([0.0, 0.0, 0.3])), rng, nsites=4, nmuts=3, nalleles=3)
        if rng.random() < 0.3:
            # a stretch of the genome without any edge (missing sequence), with a fresh site layer on top
            a = gen.add_sites(gen.punch_gap(a, rng), rng, nsites=4, nmuts=3, nalleles=3)
        if i % 3 == 2:       # node ids in no particular order
            a = gen.permute_nodes(a, random.Random(SEED * 1000003 + i))
        S = [u for u in range(len(a["time"])) if a["flags"][u]]
        if len(S) < 2:
            continue
        # allele tokens are rendered either as single letters or as strings that are prefixes of one another (indel-style alleles)
        tb_ = gen.build_tables(a, alleles=gen.ALLELES if rng.random() < 0.5 else PREFIX_ALLELES)
        if rng.random() < 0.4:
            gen.add_user_flags(tb_, rng)      # user flag bits never matter
        ts = tb_.tree_sequence()
        # chunking by tree for this ts
        for kk in (1, 2, 3, 8):
            ch = ts._chunk_sequence_by_tree(kk)
            bps = [int(x) for x in ts.breakpoints()]
            nt = ts.num_trees
            m = min(nt, kk)
            sizes = [nt // m + (1 if j < nt % m else 0) for j in range(m)]
            exp = []
            st = 0
            for s_ in sizes:
                exp.append((bps[st], bps[st + s_]))
                st += s_
            if [(int(l), int(r)) for l, r in ch] != exp:
                chk.violation("_chunk_sequence_by_tree(%d) = %s, expected %s" % (kk, ch, exp), dict(a=a, k=kk))
        calls = []
        for _ in range(3):
            c = one_call(ts, a, rng, S)
            if c:
                calls.append(c)
        if rng.random() < 0.5:
            c = divmat_call(ts, a, rng, S)
            if c:
                calls.append(c)
        for fn in rng.sample(EXTRA, 3):
            c = fn(ts, a, rng, S)
            if c:
                calls.append(c)
        if rng.random() < 0.3:
            calls.extend(tajd_calls(ts, a, rng, S))
        if calls:
            cases.append(dict(ts=dict(L=a["L"], time=a["time"], flags=a["flags"], edges=a["edges"], sites=a["sites"], muts=a["muts"]), calls=calls))
    for _ in range(150 if QUICK else 2000):
        c = ld_case(rng)
        if c:
            cases.append(c)
    for _ in range(40 if QUICK else 1000):
        cases.append(gap_paircoal_case(rng))
    for _ in range(40 if QUICK else 1000):
        c = ts_kc_case(rng)
        if c:
            cases.append(c)
    # sample counts beyond what TLC can hold (harness-evaluated against closed forms): a two-level star with n leaves, site j mutated on a
    # clade of p_j leaves; diversity = sum 2 p (n - p) / (n (n - 1)), segregating sites = number of sites, Tajima's D by its formula in
    # exact / double arithmetic.  Sample counts are chosen around the points where 32-bit products of n wrap (n^2 at 65536, 9 n (n-1) at 21846).
    big_ok = 0
    for n in ([21846, 66000] if QUICK else [1000, 21845, 21846, 30000, 46341, 65536, 66000, 100000]):
        m = n // 3
        tb = tskit.TableCollection(10)
        tb.nodes.set_columns(flags=np.array([1] * n + [0, 0], dtype=np.uint32), time=np.array([0.0] * n + [1.0, 2.0]))
        par = np.array([n] * m + [n + 1] * (n - m) + [n + 1], dtype=np.int32)
        chi = np.array(list(range(n)) + [n], dtype=np.int32)
        tb.edges.set_columns(left=np.zeros(n + 1), right=np.full(n + 1, 10.0), parent=par, child=chi)
        ps = [1, m, 2]
        for j, (x, node) in enumerate([(1.0, 0), (4.0, n), (7.0, m)]):
            tb.sites.add_row(x, "A")
            tb.mutations.add_row(j, node, "T")
        tb.sites.add_row(8.0, "A")
        tb.mutations.add_row(3, m + 1, "T")
        tb.sort()
        tsb = tb.tree_sequence()
        ps = [1, m, 1, 1]
        from fractions import Fraction
        T = sum(Fraction(2 * p * (n - p), n * (n - 1)) for p in ps)
        Sg = len(ps)
        h = sum(1.0 / i for i in range(1, n))
        g = sum(1.0 / (i * i) for i in range(1, n))
        aa = (n + 1) / (3 * (n - 1) * h) - 1 / h ** 2
        bb = 2 * (n * n + n + 3) / (9 * n * (n - 1)) - (n + 2) / (h * n) + g / h ** 2
        expD = (float(T) - Sg / h) / np.sqrt(aa * Sg + (bb / (h ** 2 + g)) * Sg * (Sg - 1))
        chk.note_case(dict(big_n=n), True)
        try:
            gotT = float(tsb.diversity(span_normalise=False))
            gotS = float(tsb.segregating_sites(span_normalise=False))
            gotD = float(tsb.Tajimas_D())
        except Exception as e:  # noqa: BLE001
            chk.violation("statistics on %d samples raised %s: %s" % (n, type(e).__name__, str(e)[:80]), dict(big_n=n))
            continue
        bad = [nm for nm, got, exp in (("diversity", gotT, float(T)), ("segregating_sites", gotS, float(Sg)), ("Tajimas_D", gotD, expD))
               if not abs(got - exp) <= 1e-9 * max(1.0, abs(exp))]
        if bad:
            chk.violation("%s on %d samples differs from its definition: got %s" % (bad, n, dict(T=gotT, S=gotS, D=gotD, expected_D=expD)), dict(big_n=n, m=m))
        else:
            big_ok += 1
            chk.traces += 1
    chk.extra["large_sample_count_cases"] = big_ok
    # binding self-test: one recorded value of one call of each kind is changed; TLC must reject exactly those
    corrupted = []
    seen_kinds = {}
    for c in cases:
        for ci, cl in enumerate(c["calls"]):
            kd = cl["kind"] + ("/node" if cl["mode"] == "node" else "")
            if seen_kinds.get(kd, 0) >= 2 or cl["kind"] == "derived":
                continue
            d = copy.deepcopy(c)
            d["calls"] = [d["calls"][ci]]
            x = d["calls"][0]
            if x["kind"] == "treedist":
                x["rf"] += 1
            elif x["kind"] == "ld":
                x["pairs"][0][2] = [x["pairs"][0][2][0] + 1, max(1, x["pairs"][0][2][1]) + 1]
            elif x["kind"] == "fst":
                # only windows where the ratio is defined are constrained: change every entry that is a proper value other than 1
                hit = [(w, i) for w, row in enumerate(x["result"]) for i, pq in enumerate(row) if pq[1] != 0 and pq[0] != pq[1]]
                if not hit:
                    continue
                for w, i in hit:
                    x["result"][w][i] = [x["result"][w][i][0] + 1, x["result"][w][i][1] + 2]
            elif x["kind"] in ("gnn", "meandesc"):
                x["result"][0][0] = [x["result"][0][0][0] + 1, x["result"][0][0][1] + 2]
            elif x["kind"] == "paircoal" and x["span_normalise"]:
                x["result"][0][0][0] = [x["result"][0][0][0][0] + 1, x["result"][0][0][0][1] + 2]
            elif x["kind"] == "paircoal" or x["mode"] == "node" and x["kind"] in ("count", "general"):
                x["result"][0][0][0] += 1
            else:
                x["result"][0][0] += 1
            x["fine_windows"], x["fine_result"] = [], []
            seen_kinds[kd] = seen_kinds.get(kd, 0) + 1
            corrupted.append(d)
    cv, _ = common.tlc_validate("Trace_Stats", corrupted, chunks=4)
    acc = sum(1 for d in corrupted if not cv[d["id"]])
    chk.extra["binding_selftest"] = dict(corrupted=len(corrupted), rejected=len(corrupted) - acc)
    if acc:
        raise common.MachineryError("Trace_Stats accepted %d corrupted traces" % acc)
    verdicts, st = common.tlc_validate("Trace_Stats", cases, timeout=3000)
    chk.add_tlc(st)
    hist = {}
    for c in cases:
        for cl in c["calls"]:
            key = "%s/%s/%s" % (cl["stat"], cl["mode"], "general" if cl["general"] else cl["kind"])
            hist[key] = hist.get(key, 0) + 1
        chk.note_case(dict(ts=c["ts"], calls=[[x["stat"], x["mode"], x["polarised"], x["span_normalise"], x["sets"], x["indexes"], x["windows"]] for x in c["calls"]]),
                      any(nonzero(x.get("result")) or x["kind"] in ("treedist", "ld", "derived") for x in c["calls"]))
        f = verdicts[c["id"]]
        if f:
            # failing clauses that belong to a listed finding (each decided on the recorded call itself); anything else is new
            known = {}
            if "genetic_relatedness_vector_branch_relation" in f and all(
                    x["ok_unnormalised"] == 1 and x["ok_normalised"] == 0 for x in c["calls"] if x["stat"] == "genetic_relatedness_vector" and x["ok"] == 0):
                known["genetic_relatedness_vector_branch_relation"] = "relatedness-vector-ignores-span-normalise"
            if "mean_descendants_tree_values" in f:
                smp = {u for u, fl in enumerate(c["ts"]["flags"]) if fl}
                if all((not smp <= {u for s_ in x["sets"] for u in s_}) for x in c["calls"] if x["kind"] == "meandesc"):
                    known["mean_descendants_tree_values"] = "mean-descendants-denominator-reference-nodes"
            msg = "trace rejected by Trace_Stats: %s %s" % (sorted(f), st["eval_errors"].get(c["id"], "")[-300:])
            if set(f) <= set(known):
                for sg in sorted(set(known.values())):
                    chk.violation(msg, c, signature=sg)
            else:
                chk.violation(msg, c)
        else:
            chk.traces += 1
    chk.extra.update(cases=len(cases), calls=sum(len(c["calls"]) for c in cases), call_kinds=len(hist), chunk_layouts=nchunk,
                     threaded_calls=sum(1 for c in cases for x in c["calls"] if x["threaded"]),
                     refinement_checks=sum(1 for c in cases for x in c["calls"] if x["fine_windows"]),
                     calls_by_statistic=dict(sorted(hist.items())),
                     kc_compared=sum(1 for c in cases for x in c["calls"] if x["kind"] == "treedist" for q in ("kc0", "kch", "kc1") if x[q] >= 0),
                     ld_pairs=sum(len(x["pairs"]) for c in cases for x in c["calls"] if x["kind"] == "ld"))
    c = cases[0]
    chk.sample(dict(ts=c["ts"], call={k: v for k, v in c["calls"][0].items() if k not in ("fine_result",)}))
    chk.rule = ("random ts (3-7 nodes, integer coordinates and times, multiallelic / recurrent sites, multiple roots, internal samples, gaps) x 9 named "
                "statistics and sample_count_stat (polarised or not) x site/branch/node x integer / 'trees' / 'sites' / no windows x span_normalise, random "
                "window refinements, divergence_matrix with num_threads in {0,1,2,3,5,8}; allele_frequency_spectrum (1-2 sets, site/branch, polarised/folded), "
                "Fst, genetic_relatedness (centre, polarised), trait_covariance and genetic_relatedness_weighted with integer weights, general_stat with integer weights (3 summary functions, site/branch/node), "
                "genealogical_nearest_neighbours (threads 0-3), mean_descendants, pair_coalescence_counts, Tree.rf_distance / kc_distance (lambda 0, 1), "
                "LdCalculator r2 / r2_matrix / ts.ld_matrix on single-mutation sites, Tajimas_D (formula in floating point over TLC-validated ingredients); "
                "non-trivial = some non-zero result")
    chk.assumptions = ["integer coordinates and times make every result an exact rational with the documented denominator; the harness scales and rounds, "
                       "asserting exactness", "races inside C code are only visible as differing results between thread counts (no TSan build)",
                       "Fanout model bounded to <=6 items / <=5 threads",
                       "pair coalescence: a pair joins at u when it comes from two different child subtrees of u (a sample does not coalesce with its own descendants)",
                       "folded spectra: which of two complementary coordinates of equal total holds the mass is not constrained",
                       "not covered: trait_correlation / trait_linear_model, genetic_relatedness_vector, proportion=True, "
                       "time-windowed pair coalescence (floating point / linear algebra; see DESIGN 5)"]
    return chk.finish()


if __name__ == "__main__":
    common.assert_imports()
    common.main_wrapper(run)
