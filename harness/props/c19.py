"""C19 - IBD segments are exactly the maximal shared-path intervals of each sample pair.

 code -> spec: ibd_segments is called on universe-derived and random tree sequences with `within`
 lists of arbitrary nodes or `between` partitions, min_span, max_time (below / at / between / above
 node times) and every store option; segments, per-pair summaries and totals are validated by TLC
 against the positional definition (TskIBD)."""
import copy
import random

import numpy as np
import tskit

from harness import common, gen
from harness.common import QUICK, SEED, Check


def drive(a, rng):
    try:
        return drive_(a, rng)
    except Exception as e:
        import traceback
        return dict(error="%s: %s" % (type(e).__name__, e), tb=traceback.format_exc()[-1200:], a=a)


def drive_(a, rng):
    kind = rng.choice(["id", "big"])
    cmap = gen.CMap(kind)
    scale = 2.0 ** 40 if kind == "big" else 1.0
    tmap = gen.CMap(rng.choice(["id", "third", "big"]), offset=rng.choice([0, 0, 3.5]))
    tables = gen.build_tables(dict(a, sites=[], muts=[]), cmap, tmap)
    if rng.random() < 0.5:
        gen.add_user_flags(tables, rng)
    # scale knob: sometimes the same genealogy is placed after a block of isolated non-sample nodes, so that all
    # node ids are large (pair keys a*N+b beyond 32 bits); results are shifted back before they are recorded
    off = rng.choice([0, 0, 0, 0, 0, 50000, 70001]) if not a.get("_nopad") else 0
    if off:
        t2 = tskit.TableCollection(tables.sequence_length)
        t2.nodes.set_columns(flags=np.concatenate([np.zeros(off, dtype=np.uint32), tables.nodes.flags]),
                             time=np.concatenate([np.zeros(off), tables.nodes.time]))
        t2.edges.set_columns(left=tables.edges.left, right=tables.edges.right, parent=tables.edges.parent + off, child=tables.edges.child + off)
        t2.build_index()
        tables = t2
    ts = tables.tree_sequence()
    N = ts.num_nodes - off
    case = dict(ts=dict(L=a["L"], time=[2 * t for t in a["time"]], flags=a["flags"], edges=a["edges"]))
    if rng.random() < 0.6 or N < 3 or a.get("_wide"):
        within = rng.sample(range(N), rng.randint(2, min(5, N))) if rng.random() < 0.7 and not a.get("_wide") else None
        case["mode"] = "within"
        case["within"] = within if within is not None else [int(u) - off for u in ts.samples()]
        case["between"] = []
        kw = dict(within=None if within is None else gen.arg_form(rng, [u + off for u in within]))
    else:
        nodes = rng.sample(range(N), rng.randint(2, min(6, N)))
        k = rng.randint(2, min(3, len(nodes)))
        groups = [[] for _ in range(k)]
        for u in nodes:
            groups[rng.randrange(k)].append(u)
        groups = [g for g in groups if g]
        if len(groups) < 2:
            groups = [nodes[:1], nodes[1:]]
        case["mode"] = "between"
        case["within"] = []
        case["between"] = groups
        kw = dict(between=[gen.arg_form(rng, [u + off for u in g]) for g in groups])
    ms = rng.choice([0, 0, 0, 1, 2])
    mt2 = rng.choice([-1, -1] + list(range(0, 2 * max(a["time"]) + 3)))
    sp = rng.random() < 0.8
    ss = rng.random() < 0.7
    if ss and not sp and rng.random() < 0.5:
        sp = True
    case["id_offset"] = off
    case.update(min_span=ms, max_time2=mt2, store_pairs=1 if sp else 0, store_segments=1 if ss else 0)
    r = ts.ibd_segments(min_span=ms * scale if ms else (0 if rng.random() < 0.5 else None),
                        max_time=tmap(mt2 / 2) if mt2 != -1 else None, store_pairs=sp, store_segments=ss, **kw)
    def sint(x):
        y = x / scale
        return int(y) if y == int(y) else -999
    case["num_segments"] = int(r.num_segments)
    case["total_span"] = sint(r.total_span)
    case["num_pairs"] = int(r.num_pairs) if (sp or ss) else -1
    pairs = []
    if sp or ss:
        for (x, y), sl in r.items():
            x, y = int(x) - off, int(y) - off
            if x > y:
                x, y = y, x
            rec = dict(a=x, b=y, num=len(sl), span=sint(sl.total_span), segs=[])
            if ss:
                rec["segs"] = [[cmap.back(s.left), cmap.back(s.right), int(s.node) - off] for s in sl]
            pairs.append(rec)
        case["store_pairs"] = 1      # per-pair information is available whenever segments are stored
    case["pairs"] = pairs
    return case


def wide_abstract(rng, n):
    """n sample leaves under one node p, which hangs with one more sample under the root: the edge above p carries n lineages at once
    (per-edge bookkeeping that grows in blocks must not lose the lineage that triggers the growth); in a second cell the extra sample moves under p"""
    K = rng.choice([1, 2])
    p, x, r = n, n + 1, n + 2
    time = [0] * n + [1, 0, 2]
    flags = [1] * n + [0, 1, 0]
    edges = [dict(left=0, right=K, parent=p, child=c) for c in range(n)]
    if K == 2:
        edges.append(dict(left=1, right=2, parent=p, child=x))
    edges.append(dict(left=0, right=K, parent=r, child=p))
    edges.append(dict(left=0, right=1, parent=r, child=x))
    return dict(L=K, time=time, flags=flags, edges=edges, sites=[], muts=[], _wide=1, _nopad=1)


def detour_abstract(r):
    """a lineage that reaches the same ancestor through different children on different stretches of the genome, next to lineages that stay
    where they are: sample 0 sits below A left of a breakpoint and below X right of it (or the other way round), the other samples below A, X
    or P throughout; A and X below P (A perhaps only where it has a child), P perhaps below a root; node ids then in arbitrary order"""
    K = r.randint(2, 4)
    b = r.randint(1, K - 1)
    m = r.randint(2, 4)
    A, X, P = m, m + 1, m + 2
    time = [0] * m + [1, 1, 2]
    flags = [1] * m + [r.choice([0, 0, 1]), 0, r.choice([0, 0, 1])]
    first, second = (A, X) if r.random() < 0.5 else (X, A)
    edges = [dict(left=0, right=b, parent=first, child=0), dict(left=b, right=K, parent=second, child=0)]
    for c in range(1, m):
        edges.append(dict(left=0, right=K, parent=r.choice([A, X, X, P]), child=c))
    for mid in (A, X):
        spans = [(e["left"], e["right"]) for e in edges if e["parent"] == mid]
        if spans:
            lo, hi = (0, K) if r.random() < 0.6 else (min(s_[0] for s_ in spans), max(s_[1] for s_ in spans))
            edges.append(dict(left=lo, right=hi, parent=P, child=mid))
    if r.random() < 0.4:
        time.append(3)
        flags.append(0)
        edges.append(dict(left=0, right=K, parent=P + 1, child=P))
    edges.sort(key=lambda e: (time[e["parent"]], e["parent"], e["child"], e["left"]))
    a = dict(L=K, time=time, flags=flags, edges=edges, sites=[], muts=[])
    return gen.permute_nodes(a, r) if r.random() < 0.7 else a


def run():
    chk = Check("C19")
    rng = random.Random(SEED * 7919 + 19)
    cases = []
    uni, ust = common.tlc_eval_json("Dump_Universe", cfg="Dump_Universe_Q" if QUICK else "Dump_Universe_T")
    chk.add_tlc(ust)
    for a in (rng.sample(uni, 800) if QUICK else uni):
        cases.append(drive(a, rng))
    nuni = len(cases)
    for i in range(1500 if QUICK else 25000):
        a = gen.random_abstract(rng, N=rng.randint(2, 8), K=rng.randint(1, 6), max_edges=14, nsites=0, nmuts=0)
        if i % 3 == 2:       # node ids in no particular order (ids carry no meaning: parents with smaller ids than children, samples anywhere)
            a = gen.permute_nodes(a, random.Random(SEED * 1000003 + i))
        cases.append(drive(a, rng))
    r2 = random.Random(SEED * 1000003 + 19)          # a generator of its own: the draws above stay as they were
    for i in range(200 if QUICK else 5000):
        cases.append(drive(detour_abstract(r2), r2))
    for n in ([65, 130] if QUICK else [63, 64, 65, 66, 127, 128, 129, 130, 200, 257]):
        cases.append(drive(wide_abstract(rng, n), rng))
    for c in [c for c in cases if "error" in c]:
        chk.note_case(c["a"], True)
        chk.violation("ibd_segments (or reading its result) raised on a valid input: %s\n%s" % (c["error"], c["tb"]), c)
    cases = [c for c in cases if "error" not in c]
    corrupted = []
    for c in cases:
        if len(corrupted) >= 8:
            break
        if c["store_segments"] and c["pairs"] and c["pairs"][0]["segs"]:
            d = copy.deepcopy(c)
            s = d["pairs"][0]["segs"][0]
            if rng.random() < 0.5:
                s[2] = (s[2] + 1) % len(d["ts"]["time"])
            else:
                d["num_segments"] += 1
            corrupted.append(d)
    cv, _ = common.tlc_validate("Trace_IBD", corrupted, chunks=4)
    acc = sum(1 for d in corrupted if not cv[d["id"]])
    chk.extra["binding_selftest"] = dict(corrupted=len(corrupted), rejected=len(corrupted) - acc)
    if acc:
        raise common.MachineryError("Trace_IBD accepted %d corrupted traces" % acc)
    verdicts, st = common.tlc_validate("Trace_IBD", cases)
    chk.add_tlc(st)
    # boundary adjudication: a rejected case whose max_time equals a node time is re-validated under the
    # *inclusive* reading (max_time + half a grid step); if it then passes, it is the known boundary finding
    # "ancestors with time == max_time are kept", otherwise it is a new violation
    retry = []
    for c in cases:
        if verdicts[c["id"]] and c["max_time2"] != -1 and c["max_time2"] in c["ts"]["time"]:
            d = copy.deepcopy(c)
            d["max_time2"] = c["max_time2"] + 1
            d["orig"] = c["id"]
            retry.append(d)
    inclusive_ok = set()
    if retry:
        rv, rst = common.tlc_validate("Trace_IBD", retry, chunks=8)
        chk.add_tlc(rst)
        inclusive_ok = {d["orig"] for d in retry if not rv[d["id"]]}
    nseg = 0
    for c in cases:
        nseg += c["num_segments"]
        chk.note_case(dict(ts=c["ts"], w=c["within"], b=c["between"], f=[c["min_span"], c["max_time2"]], s=[c["store_pairs"], c["store_segments"]]),
                      c["num_segments"] >= 2)
        f = verdicts[c["id"]]
        if f:
            boundary = c["max_time2"] != -1 and c["max_time2"] in c["ts"]["time"]
            chk.violation("trace rejected by Trace_IBD: %s (min_span=%s max_time2=%s%s) %s" % (
                sorted(f), c["min_span"], c["max_time2"], " = a node time" if boundary else "", st["eval_errors"].get(c["id"], "")[-300:]), c,
                signature="ibd-max_time-boundary-inclusive" if c["id"] in inclusive_ok else None)
        else:
            chk.traces += 1
    chk.extra.update(universe_cases=nuni, random_cases=len(cases) - nuni, segments_reported=nseg,
                     boundary_max_time_cases=sum(1 for c in cases if c["max_time2"] in c["ts"]["time"]))
    c = cases[-1]
    chk.sample({k: v for k, v in c.items() if k != "id"})
    chk.rule = ("universe elements + random ts x within lists of arbitrary nodes / between partitions x min_span in {0,1,2} x max_time on a doubled "
                "time grid (incl. exactly a node time) x store options; non-trivial = >=2 segments reported")
    chk.assumptions = ["integer cells; spans exact (coordinate maps id / 2^40)"]
    chk.exhaustive = not QUICK
    return chk.finish()


if __name__ == "__main__":
    common.assert_imports()
    common.main_wrapper(run)
