"""C17 - text table dumps reload to the same tree sequence.

 spec -> code: TLC enumerates, for each of the seven parsers, every subset of optional columns, with and
 without an unknown column, in many column orders, with the table the parser must return
 (Dump_TextCols); the harness renders each layout as text and calls the real parse_* function.
 code -> spec: dump_text -> load_text round trips (Base64 metadata, strict mode, sufficient precision) of
 random tree sequences with binary metadata on every row, individuals with ragged location / parents,
 populations, migrations, known / unknown mutation times, empty and multi-character states; TLC checks
 every listed field table by table (Trace_Text)."""
import base64
import copy
import io
import random

import numpy as np
import tskit

from harness import common, gen, tcgen
from harness.common import QUICK, SEED, Check

UNKT = -1
PARSERS = dict(nodes=tskit.parse_nodes, edges=tskit.parse_edges, sites=tskit.parse_sites, mutations=tskit.parse_mutations,
               individuals=tskit.parse_individuals, populations=tskit.parse_populations, migrations=tskit.parse_migrations)


def render(col, v):
    if col == "metadata":
        return base64.b64encode(bytes(v)).decode()
    if col in ("ancestral_state", "derived_state"):
        return "".join(chr(c) for c in v)
    if col == "location":
        return ",".join("%d.0" % x for x in v)
    if col == "parents":
        return ",".join(str(x) for x in v)
    if col == "time" and v == UNKT:
        return "unknown"
    if col == "zzz_unknown":
        return "junk"
    return str(v)


def fnum(x):
    if tskit.is_unknown_time(x):
        return UNKT
    return int(x) if float(x) == int(x) else -12345


def table_rows(kind, t, limbs=False):
    """limbs: 32-bit flags as two 16-bit limbs (TLC integers are 32-bit signed; the round-trip clauses only compare for equality)"""
    out = []
    for r in t:
        if kind == "nodes":
            out.append(dict(is_sample=int(r.flags & 1), time=fnum(r.time), population=int(r.population), individual=int(r.individual), metadata=list(r.metadata)))
        elif kind == "edges":
            out.append(dict(left=fnum(r.left), right=fnum(r.right), parent=int(r.parent), child=int(r.child)))
        elif kind == "sites":
            out.append(dict(position=fnum(r.position), ancestral_state=[ord(c) for c in r.ancestral_state], metadata=list(r.metadata)))
        elif kind == "mutations":
            out.append(dict(site=int(r.site), node=int(r.node), derived_state=[ord(c) for c in r.derived_state], time=fnum(r.time),
                            parent=int(r.parent), metadata=list(r.metadata)))
        elif kind == "individuals":
            out.append(dict(flags=[int(r.flags) >> 16, int(r.flags) & 0xFFFF] if limbs else int(r.flags), location=[fnum(x) for x in r.location], parents=[int(x) for x in r.parents], metadata=list(r.metadata)))
        elif kind == "populations":
            out.append(dict(metadata=list(r.metadata)))
        elif kind == "migrations":
            out.append(dict(left=fnum(r.left), right=fnum(r.right), node=int(r.node), source=int(r.source), dest=int(r.dest), time=fnum(r.time),
                            metadata=list(r.metadata)))
    return out


def layout_case(rec):
    kind = rec["kind"]
    header = list(rec["header"])
    lines = ["\t".join(header)]
    for row in rec["rows"]:
        lines.append("\t".join(render(c, row.get(c, 0)) for c in header))
    text = "\n".join(lines) + "\n"
    case = dict(mode="layout", kind=kind, header=header, expected=rec["expected"], raised=0, error="", got=[])
    try:
        t = PARSERS[kind](io.StringIO(text), strict=True)
        case["got"] = table_rows(kind, t)
    except Exception as e:
        case["raised"] = 1
        case["error"] = "%s" % type(e).__name__
    return case


def rb(rng):
    return bytes(rng.randrange(256) for _ in range(rng.randint(0, 4)))


def roundtrip_case(rng):
    a = gen.random_abstract(rng, N=rng.randint(2, 7), K=rng.randint(1, 6), max_edges=12, nsites=4, nmuts=4)
    tc = tcgen.from_abstract(a, rng, rich=False)
    if tc["muts"] and rng.random() < 0.5:
        tcgen.known_times(tc, a)
    t = tcgen.build_tc(tc, gen.CMap("id"), gen.CMap("id"), alleles=["", "A", "ACG", "T", "TT", "G", "GA", "C"])
    P = rng.randint(0, 2)
    I = rng.randint(0, 3)
    for _ in range(P):
        t.populations.add_row(metadata=rb(rng))
    for j in range(I):
        t.individuals.add_row(flags=rng.choice([0, 1, 2, 3, 1 << 16, (1 << 31) - 1, 1 << 31, (1 << 32) - 1]), location=[float(rng.randint(-3, 3)) for _ in range(rng.randint(0, 2))],
                              parents=[rng.choice([p for p in range(-1, I) if p != j]) for _ in range(rng.randint(0, 2))], metadata=rb(rng))
    N = len(t.nodes)
    t.nodes.population = np.array([rng.randint(-1, P - 1) for _ in range(N)], dtype=np.int32)
    t.nodes.individual = np.array([rng.randint(-1, I - 1) for _ in range(N)], dtype=np.int32)
    for name in ("nodes", "sites", "mutations"):
        tab = getattr(t, name)
        tab.packset_metadata([rb(rng) for _ in range(len(tab))])
    if P > 0 and rng.random() < 0.5:
        for _ in range(rng.randint(1, 5)):
            l = rng.randrange(a["L"])
            t.migrations.add_row(l, rng.randint(l + 1, a["L"]), rng.randrange(N), rng.randrange(P), rng.randrange(P), float(rng.randint(0, 2)), metadata=rb(rng))
    t.sort()
    if len(t.migrations) > 1:
        # any order of migrations with equal times is valid: permute the ties
        rows = list(t.migrations)
        groups = {}
        for r in rows:
            groups.setdefault(r.time, []).append(r)
        t.migrations.clear()
        for tm_ in sorted(groups):
            g = groups[tm_]
            rng.shuffle(g)
            for r in g:
                t.migrations.append(r)
    ts = t.tree_sequence()
    kinds = ["nodes", "edges", "sites", "mutations", "individuals", "populations", "migrations"]
    bufs = {k: io.StringIO() for k in kinds}
    ts.dump_text(**bufs, precision=rng.choice([0, 3, 6]))
    for b in bufs.values():
        b.seek(0)
    case = dict(mode="roundtrip", raised=0, error="")
    A = ts.dump_tables()
    case["a"] = {k: table_rows(k, getattr(A, k), limbs=True) for k in kinds}
    case["a"]["L"] = int(A.sequence_length)
    try:
        ts2 = tskit.load_text(**bufs, sequence_length=ts.sequence_length, strict=True, base64_metadata=True)
        B = ts2.dump_tables()
        case["b"] = {k: table_rows(k, getattr(B, k), limbs=True) for k in kinds}
        case["b"]["L"] = int(B.sequence_length)
    except Exception as e:
        case["raised"] = 1
        case["error"] = "%s" % type(e).__name__
        case["b"] = case["a"]
    return case


def run():
    chk = Check("C17")
    rng = random.Random(SEED * 7919 + 17)
    recs, st0 = common.tlc_eval_json("Dump_TextCols")
    chk.add_tlc(st0)
    chk.states += len(recs)
    chk.transitions += len(recs)
    cases = [layout_case(r) for r in recs]
    nlay = len(cases)
    for i in range(600 if QUICK else 50000):
        cases.append(roundtrip_case(rng))
    corrupted = []
    d = copy.deepcopy(cases[5])
    if d["got"]:
        col = sorted(d["got"][0])[0]
        d["got"][0][col] = [99] if isinstance(d["got"][0][col], list) else d["got"][0][col] + 1
        corrupted.append(d)
    for c in cases[nlay:nlay + 30]:
        if c["b"]["nodes"] and not c["raised"]:
            d = copy.deepcopy(c)
            d["b"]["nodes"][0]["metadata"] = d["b"]["nodes"][0]["metadata"] + [1]
            corrupted.append(d)
            break
    cv, _ = common.tlc_validate("Trace_Text", corrupted, chunks=2)
    acc = sum(1 for d in corrupted if not cv[d["id"]])
    chk.extra["binding_selftest"] = dict(corrupted=len(corrupted), rejected=len(corrupted) - acc)
    if acc:
        raise common.MachineryError("Trace_Text accepted corrupted traces")
    verdicts, st = common.tlc_validate("Trace_Text", cases)
    chk.add_tlc(st)
    for c in cases:
        if c["mode"] == "layout":
            chk.note_case(dict(k=c["kind"], h=c["header"]), True)
        else:
            chk.note_case(dict(a=c["a"]), len(c["a"]["mutations"]) >= 1 and len(c["a"]["edges"]) >= 2)
        f = verdicts[c["id"]]
        if f:
            chk.violation("trace rejected by Trace_Text (%s%s): %s %s" % (c["mode"], " " + c["kind"] + " header=" + str(c["header"]) if c["mode"] == "layout" else "",
                                                                       sorted(f), st["eval_errors"].get(c["id"], "")[-300:]), c)
        else:
            chk.traces += 1
    chk.exhaustive = True
    chk.extra.update(layouts=nlay, roundtrips=len(cases) - nlay)
    chk.sample(dict(kind=cases[0]["kind"], header=cases[0]["header"], expected=cases[0]["expected"][:1]))
    chk.rule = ("layouts: per parser every subset of optional columns x {no, one} unknown column x column orders (all permutations <=5 columns, else rotations, "
                "reversals, adjacent swaps); round trips: random ts with binary metadata everywhere, ragged individuals, populations, migrations, "
                "known/unknown times, empty and multi-character states; non-trivial round trip = >=1 mutation and >=2 edges")
    chk.assumptions = ["rendering a value as text (str, base64, comma-joined lists) is trusted harness code", "integer coordinates/times so that any precision is sufficient",
                       "edge metadata is not part of the text format (no such column) and is not compared"]
    return chk.finish()


if __name__ == "__main__":
    common.assert_imports()
    common.main_wrapper(run)
