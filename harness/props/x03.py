"""X03 - spec growth beyond the listed properties, part 3 (not registered in MANIFEST.json; run with ./check X03).

 TableLifecycle.tla: the life cycle of a TableCollection's edge index as a state machine (one action per public call).
   * TLC checks the design properties exhaustively (an index is only built over sorted edges; sort / clear / simplify leave no index;
     build_index leaves a fresh one) and shows the blind spot - has_index holding with a stale index - to be reachable.
   * spec -> code: behaviours drawn by `tlc -simulate` (and every behaviour of the exhaustive graph up to depth 4) are replayed into a real
     TableCollection; after every step the edge table, has_index() and the outcome of the call must be what the model says."""
import json
import os
import tempfile

import numpy as np
import tskit

from harness import common
from harness.common import QUICK, SEED, Check

L = 10.0
TOK = {1: (2, 0), 2: (2, 1), 3: (3, 2)}
INV = {v: k for k, v in TOK.items()}


def fresh():
    t = tskit.TableCollection(L)
    add_nodes(t)
    return t


def add_nodes(t):
    t.nodes.add_row(flags=1, time=0)
    t.nodes.add_row(flags=1, time=0)
    t.nodes.add_row(flags=0, time=1)
    t.nodes.add_row(flags=0, time=2)


def tokens(t):
    out = []
    for e in t.edges:
        k = INV.get((int(e.parent), int(e.child)))
        out.append(k if k is not None and e.left == 0 and e.right == L else -1)
    return out


def apply(t, ev):
    """-> outcome string as the model names it"""
    op = ev["op"]
    try:
        if op == "add_edge":
            p, c = TOK[ev["t"]]
            t.edges.add_row(0, L, p, c)
        elif op == "truncate":
            t.edges.truncate(ev["n"])
        elif op == "clear_edges":
            t.edges.clear()
        elif op == "replace_last":
            p, c = TOK[ev["t"]]
            t.edges[-1] = t.edges[-1].replace(parent=p, child=c)
        elif op == "drop_index":
            t.drop_index()
        elif op == "build_index":
            t.build_index()
        elif op == "sort":
            t.sort()
        elif op == "clear":
            t.clear()
            add_nodes(t)           # the model keeps the four nodes: re-adding them is part of the composite step
        elif op == "simplify":
            t.simplify([0, 1], filter_nodes=False)
        elif op == "tree_sequence":
            t.tree_sequence()
        elif op == "subset_all":
            t.subset([0, 1, 2, 3], record_provenance=False)
        elif op == "delete_older":
            t.delete_older(1.5)
        elif op == "union_self":
            t.union(t.copy(), np.arange(4, dtype=np.int32), record_provenance=False)
        elif op == "set_columns_same":
            e = t.edges
            e.set_columns(left=e.left, right=e.right, parent=e.parent, child=e.child)
        elif op == "deduplicate_sites":
            t.deduplicate_sites()
        elif op == "compute_mutation_parents":
            t.compute_mutation_parents()
        elif op == "copy":
            return "with_index" if t.copy().has_index() else "without_index"
        elif op == "dump_load":
            with tempfile.TemporaryDirectory(prefix="x03_") as d:
                t.dump(os.path.join(d, "t.trees"))
                return "with_index" if tskit.TableCollection.load(os.path.join(d, "t.trees")).has_index() else "without_index"
        else:
            raise common.MachineryError("unknown op " + op)
        return "ok"
    except tskit.LibraryError:
        return "error"


def replay(beh):
    """-> list of (step, clause, expected, got)"""
    t = fresh()
    bad = []
    for i, st in enumerate(beh):
        got = apply(t, st["ev"])
        if st["ok"] != "any" and got != st["ok"]:
            bad.append((i, "outcome:" + st["ev"]["op"], st["ok"], got))
        if tokens(t) != list(st["es"]):
            bad.append((i, "edges_after:" + st["ev"]["op"], list(st["es"]), tokens(t)))
        hi = 1 if t.has_index() else 0
        if hi != st["has_index"]:
            bad.append((i, "has_index_after:" + st["ev"]["op"], st["has_index"], hi))
        if bad:
            break
    return bad


# ---- the model's transition function in Python, used only to enumerate the exhaustive behaviours of small depth in the same format;
# ---- it is cross-checked against TLC's own simulated behaviours (every simulated step must agree with it)
NOIDX = None


def model_step(es, idx, ev):
    srt = all(es[i] < es[i + 1] for i in range(len(es) - 1))
    has = idx is not NOIDX and len(idx) == len(es)
    op = ev["op"]
    if op == "add_edge":
        return es + [ev["t"]], idx, "ok"
    if op == "truncate":
        return es[:ev["n"]], idx, "ok"
    if op == "clear_edges":
        return [], idx, "ok"
    if op == "replace_last":
        return es[:-1] + [ev["t"]], idx, "ok"
    if op == "drop_index":
        return es, NOIDX, "ok"
    if op == "build_index":
        return (es, list(es), "ok") if srt else (es, idx, "error")
    if op == "sort":
        return sorted(es), NOIDX, "ok"
    if op == "clear":
        return [], NOIDX, "ok"
    if op == "simplify":
        return (([1, 2] if {1, 2} <= set(es) else []), NOIDX, "ok") if srt else (es, idx, "error")
    if op == "tree_sequence":
        if has:
            return es, idx, ("ok" if idx == es else "any")
        return (es, list(es), "ok") if srt else (es, idx, "error")
    if op == "subset_all":
        return sorted(es), NOIDX, "ok"
    if op == "delete_older":
        return [t for t in es if t != 3], idx, "ok"
    if op == "union_self":
        return sorted(es), sorted(es), "ok"
    if op in ("set_columns_same", "deduplicate_sites"):
        return es, idx, "ok"
    if op == "compute_mutation_parents":
        if not has:
            return es, idx, "error"
        return es, idx, ("ok" if idx == es else "any")
    if op in ("copy", "dump_load"):
        return es, idx, ("with_index" if has else "without_index")
    raise common.MachineryError(op)


def events(es):
    evs = [dict(op="add_edge", t=t) for t in (1, 2, 3) if t not in es]
    evs += [dict(op="truncate", n=n) for n in range(len(es) + 1)]
    if es:
        evs += [dict(op="replace_last", t=t) for t in (1, 2, 3) if t not in es[:-1]]
    evs += [dict(op=o) for o in ("clear_edges", "drop_index", "build_index", "sort", "clear", "simplify", "tree_sequence", "copy", "dump_load",
                                "subset_all", "delete_older", "union_self", "set_columns_same", "deduplicate_sites", "compute_mutation_parents")]
    return evs


def exhaustive(depth):
    out = []

    def rec(es, idx, beh):
        if len(beh) == depth:
            out.append(beh)
            return
        for ev in events(es):
            e2, i2, ok = model_step(es, idx, ev)
            has = i2 is not NOIDX and len(i2) == len(e2)
            rec(e2, i2, beh + [dict(ev=ev, ok=ok, es=e2, has_index=1 if has else 0)])
    rec([], NOIDX, [])
    return out


def run():
    chk = Check("X03", level="model_checking")
    mc = common.tlc_mc("TableLifecycle", cfg="MC_TableLifecycle", timeout=3000, coverage=True)
    if not mc["ok"]:
        if mc["violated"]:
            chk.violation("TLC: design property %s of TableLifecycle violated" % mc["violated"], dict(out=mc["out"][-3000:]))
        else:
            raise common.MachineryError("TLC failed on MC_TableLifecycle:\n" + mc["out"][-2000:])
    chk.states += mc["states"]
    chk.transitions += mc["transitions"]
    stale = common.tlc_mc("TableLifecycle", cfg="MC_TableLifecycle_stale", timeout=3000, workers=1)
    chk.extra["stale_index_reachable"] = stale["violated"] == "NeverStale"
    if stale["violated"] != "NeverStale":
        raise common.MachineryError("the stale-index witness was not produced by TLC:\n" + stale["out"][-1500:])
    beh, _ = common.tlc_simulate_json("TableLifecycle", cfg="Sim_TableLifecycle", num=300 if QUICK else 6000, depth=11, seed=SEED + 1)
    if len(beh) < 50:
        raise common.MachineryError("too few simulated behaviours: %d" % len(beh))
    # the Python copy of the transition function must agree with every step TLC produced
    for b in beh:
        es, idx = [], NOIDX
        for st in b:
            e2, i2, ok = model_step(es, idx, st["ev"])
            has = 1 if (i2 is not NOIDX and len(i2) == len(e2)) else 0
            if (e2, ok, has) != (list(st["es"]), st["ok"], st["has_index"]):
                raise common.MachineryError("Python transition function disagrees with TLC at %s: %s vs %s" % (st["ev"], (e2, ok, has), st))
            es, idx = e2, i2
    ex = exhaustive(3 if QUICK else 4)
    chk.extra["behaviours"] = dict(simulated=len(beh), exhaustive=len(ex))
    ops_seen = {}
    for b in beh + ex:
        stale_seen = any(st["ok"] == "any" for st in b)
        chk.note_case(b, stale_seen or any(st["ok"] == "error" for st in b))
        for st in b:
            ops_seen[st["ev"]["op"]] = ops_seen.get(st["ev"]["op"], 0) + 1
        bad = replay(b)
        if bad:
            chk.violation("replay of a TableLifecycle behaviour diverged at step %d: %s expected %s got %s" % bad[0], dict(behaviour=b, diverged=bad))
        else:
            chk.traces += 1
    chk.extra["steps_per_op"] = ops_seen
    # binding self-test: a behaviour with one expectation flipped must be rejected
    rej = tot = 0
    for b in beh[:40]:
        d = json.loads(json.dumps(b))
        d[-1]["has_index"] = 1 - d[-1]["has_index"]
        tot += 1
        rej += 1 if replay(d) else 0
    chk.extra["binding_selftest"] = dict(corrupted=tot, rejected=rej)
    if rej != tot and not chk.violations:
        raise common.MachineryError("replay accepted %d corrupted behaviours" % (tot - rej))
    chk.sample(dict(behaviour=beh[0]))
    chk.rule = ("TableLifecycle.tla model-checked (TypeOK, IndexOverSorted, WholesaleDropsIndex, BuildIsFresh; NeverStale shown violated on purpose); "
                "behaviours from tlc -simulate (depth 10) and every behaviour of depth <= 3/4 replayed into a real TableCollection comparing edge table, "
                "has_index() and outcome after every call; non-trivial = the behaviour contains a refused call or a stale index")
    chk.assumptions = ["beyond-property coverage: not listed in MANIFEST.json",
                       "the outcome of tree_sequence() with a stale index of the right length is left open by the model"]
    return chk.finish()


if __name__ == "__main__":
    common.assert_imports()
    common.main_wrapper(run)
