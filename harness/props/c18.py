"""C18 - Newick, Nexus and FASTA exports encode the trees and sequences faithfully.

 code -> spec: as_newick is called on every root (and arbitrary subtree roots) of random trees with
 polytomies, unary and internal-sample nodes, large / fractional / negative node times, with
 precision None/0/1/3/17, default / custom / no labels and with / without branch lengths (both the
 fast C path and the general Python path); write_nexus and write_fasta on the same tree sequences.
 The text is tokenised by the harness (a 40-line Newick parser) and TLC validates the structure,
 labels and branch lengths against the tree definition (Exports.tla)."""
import copy
import io
import random
import re
from decimal import Decimal

import numpy as np
import tskit

from harness import common, gen
from harness.common import QUICK, SEED, Check

NOLEN = -999999
NOTEXACT = -888888


def parse_newick(s):
    """-> nested (label, lengthstring or None, [children])"""
    assert s.endswith(";"), s
    s = s[:-1]
    pos = 0

    def node():
        nonlocal pos
        ch = []
        if pos < len(s) and s[pos] == "(":
            pos += 1
            while True:
                ch.append(node())
                if s[pos] == ",":
                    pos += 1
                    continue
                assert s[pos] == ")", (s, pos)
                pos += 1
                break
        m = re.match(r"[^:,()]*", s[pos:])
        label = m.group(0)
        pos += len(label)
        ln = None
        if pos < len(s) and s[pos] == ":":
            m = re.match(r":(-?[0-9.eE+-]+)", s[pos:])
            ln = m.group(1)
            pos += len(m.group(0))
        return (label, ln, ch)
    r = node()
    assert pos == len(s), (s, pos)
    return r


def preorder(n, out):
    out.append(n)
    for c in n[2]:
        preorder(c, out)
    return out


class TimeScale:
    """node time = (k + offset) * 10^-d : exactly representable as a decimal"""

    def __init__(self, rng):
        self.d = rng.choice([0, 0, 1, 3])
        self.offset = rng.choice([0, 0, -7, -1000000, 123456789])
        # large units make long branch-length tokens (13-16 integer digits + 17 decimals: beyond 30 characters)
        self.mult = rng.choice([1, 1, 1000, 10 ** 12, 10 ** 15]) if self.d == 0 else 1
        if self.mult > 1000:
            self.offset = rng.choice([0, -7])

    def __call__(self, k):
        return float(Decimal((k + self.offset) * self.mult) / (Decimal(10) ** self.d))


def tokenise(nw_text, prec_eff, ts_scale, labels_mode):
    tree = parse_newick(nw_text)
    pre = preorder(tree, [])
    toks = []
    close = 1
    for (label, ln, ch) in pre:
        if label == "":
            lt = -1
        elif labels_mode == "custom":
            lt = 1000 + int(label[1:])
        else:
            lt = int(label[1:])
        if ln is None:
            units, ndec = NOLEN, 0
        else:
            ndec = len(ln.split(".")[1]) if "." in ln else 0
            val = Decimal(ln)
            u = val * (Decimal(10) ** ts_scale.d) / ts_scale.mult
            if prec_eff >= ts_scale.d and abs(u - u.to_integral_value()) < Decimal("1e-6"):
                units = int(u.to_integral_value())
            elif prec_eff >= ts_scale.d:
                units = -777777       # should have been an integer number of time units
            else:
                units = NOTEXACT
        toks.append([lt, units, ndec, len(ch)])
    return toks


def drive(a, rng):
    cmap = gen.CMap(rng.choice(["id", "id", "half", "third"]))
    tscale = TimeScale(rng)
    tm = gen.CMap("id")
    tm.__call__ = None
    tables = gen.build_tables(dict(a, sites=a["sites"], muts=a["muts"]), cmap, lambda k: tscale(k))
    if rng.random() < 0.4:
        gen.add_user_flags(tables, rng)      # user flag bits never matter
    ts = tables.tree_sequence()
    N = ts.num_nodes
    case = dict(ts=dict(L=a["L"], time=a["time"], flags=a["flags"], edges=a["edges"]), trees=[], scale=[tscale.d, tscale.offset, tscale.mult])
    for tree in ts.trees():
        x = cmap.back(tree.interval.left)
        tr = dict(x=x, kids=[[int(c) for c in tree.children(u)] for u in range(N)], newicks=[])
        roots = [int(r) for r in tree.roots]
        cand = roots + [rng.randrange(N) for _ in range(2)]
        plan = [(root, None, None, None) for root in cand[:4]]
        if a.get("_all_default"):      # every precision with default labels and lengths, from the tree's root: the C fast path at its fullest
            plan = [(roots[0], pr_, "default", True) for pr_ in (None, 0, 1, 3, 17)] + plan[:1]
        for root, f_prec, f_labels, f_len in plan:
            prec = rng.choice([None, None, 0, 1, 3, 17]) if f_labels is None else f_prec
            labels = rng.choice(["default", "default", "custom", "none"]) if f_labels is None else f_labels
            withlen = (rng.random() < 0.8) if f_len is None else f_len
            kw = dict(root=root, precision=prec)
            labelled = []
            if labels == "custom":
                labelled = rng.sample(range(N), rng.randint(0, N))
                kw["node_labels"] = {u: "L%d" % u for u in labelled}
            elif labels == "none":
                kw["node_labels"] = {}
            if not withlen:
                kw["include_branch_lengths"] = False
            # whether times are discrete is decided here from the columns, not asked of the library: the default precision depends on it
            mt = tables.mutations.time
            discrete = bool(all(float(x) == int(x) for x in tables.nodes.time) and all(tskit.is_unknown_time(x) or float(x) == int(x) for x in mt))
            prec_eff = (0 if discrete else 17) if prec is None else prec
            rec = dict(root=root, labels=labels, labelled=labelled, withlen=1 if withlen else 0, prec_effective=prec_eff, raised=0, pre=[], close=1)
            try:
                text = tree.as_newick(**kw)
                try:
                    rec["pre"] = tokenise(text, prec_eff, tscale, labels)
                    parsed = preorder(parse_newick(text), [])
                except Exception:  # noqa: BLE001 - text that is not Newick at all: a value no expectation equals, not a harness failure
                    rec["pre"] = [[-99, -99, -99, -99]]
                    rec["close"] = 0
                    rec["malformed"] = text[:200]
                    parsed = []
                # numeric closeness of every printed length to the true time difference (trusted: Decimal arithmetic)
                order = [int(u) for u in tree.nodes(root, order="preorder")]
                if withlen and len(parsed) == len(order):
                    for (lab, ln, ch), u in zip(parsed, order):
                        if u == root or ln is None:
                            continue
                        true = Decimal((a["time"][tree.parent(u)] - a["time"][u]) * tscale.mult) / (Decimal(10) ** tscale.d)
                        # branch lengths are obtained by subtracting two doubles: allow the rounding at the
                        # printed precision plus a few ulps of the larger node time
                        big = max(abs(ts.node(int(tree.parent(u))).time), abs(ts.node(u).time), 1.0)
                        tol = Decimal(5) / (Decimal(10) ** (prec_eff + 1)) + Decimal(big) * Decimal("1e-15") + Decimal("1e-15")
                        if abs(Decimal(ln) - true) > tol:
                            rec["close"] = 0
            except tskit.LibraryError as e:
                rec["raised"] = 1
                rec["error"] = str(e)[:80]
            except ValueError as e:
                # only legal when no root given and multiple roots - we always pass a root
                rec["raised"] = 1
                rec["error"] = str(e)[:80]
            tr["newicks"].append(rec)
        # no explicit root: allowed exactly when the tree has a single root
        case_single = len(roots) == 1
        try:
            t0 = tree.as_newick()
        except ValueError:
            ok = not case_single
        except tskit.LibraryError:
            ok = False
        else:
            try:
                ok = case_single and parse_newick(t0) is not None
            except Exception:  # noqa: BLE001 - not Newick
                ok = False
        tr["noroot_ok"] = 1 if ok else 0
        case["trees"].append(tr)
    # Nexus
    nx = dict(skip=1, intervals=[], taxa=[], same_newick=1, data_ok=1)
    fa = dict(skip=1, names=[], seqs_ok=1, wrap_ok=1)
    if all(t.has_single_root for t in ts.trees()) and cmap.kind == "id":
        out = io.StringIO()
        try:
            nxp = rng.choice([None, None, 0, 1, 3])       # the precision argument applies to the embedded Newick strings
            ts.write_nexus(out, include_alignments=False, **({} if nxp is None else {"precision": nxp}))
            text = out.getvalue()
            nx["skip"] = 0
            m = re.search(r"TAXLABELS (.*);", text)
            nx["taxa"] = [int(x[1:]) for x in m.group(1).split()] if m and m.group(1).strip() else []
            trees = re.findall(r"TREE t(-?[0-9.]+)\^(-?[0-9.]+) = \[&R\] (.*)", text)
            nx["intervals"] = [[cmap.back(float(l)), cmap.back(float(r))] for l, r, _ in trees]
            nws = [t.as_newick(**({} if nxp is None else {"precision": nxp})) for t in ts.trees()]
            nx["same_newick"] = 1 if [x[2] for x in trees] == nws else 0
        except tskit.LibraryError as e:
            nx["skip"] = 0
            nx["same_newick"] = 0
    case["nexus"] = nx
    case["fasta"] = fa
    return case


def fasta_case(rng):
    """FASTA / Nexus DATA: sequences equal alignments(), wrapped at the requested width"""
    a = gen.random_abstract(rng, N=rng.randint(2, 6), K=rng.randint(2, 9), max_edges=10, nsites=4, nmuts=3, nalleles=4, p_nonsample_leaf=0.0)
    ts = gen.build_tables(a).tree_sequence()
    case = dict(ts=dict(L=a["L"], time=a["time"], flags=a["flags"], edges=a["edges"]), trees=[],
                nexus=dict(skip=1, intervals=[], taxa=[], same_newick=1, data_ok=1), fasta=dict(skip=1, names=[], seqs_ok=1, wrap_ok=1))
    ref = "".join(rng.choice("acgt") for _ in range(a["L"]))
    try:
        want = list(ts.alignments(reference_sequence=ref))
    except ValueError:
        return None
    w = rng.choice([0, 1, 2, 3, 60])
    out = io.StringIO()
    ts.write_fasta(out, wrap_width=w, reference_sequence=ref)
    names, seqs, cur, wrap_ok = [], [], None, 1
    lines = out.getvalue().splitlines()
    blocks = []
    for ln in lines:
        if ln.startswith(">"):
            names.append(int(ln[2:]))
            blocks.append([])
        else:
            blocks[-1].append(ln)
    for b in blocks:
        seqs.append("".join(b))
        if w > 0 and (any(len(x) != w for x in b[:-1]) or (b and not (1 <= len(b[-1]) <= w))):
            wrap_ok = 0
        if w == 0 and len(b) > 1:
            wrap_ok = 0
    case["fasta"] = dict(skip=0, names=names, seqs_ok=1 if seqs == want else 0, wrap_ok=wrap_ok)
    out = io.StringIO()
    ts.write_nexus(out, include_trees=False, include_alignments=True, reference_sequence=ref)
    rows = re.findall(r"^\s+n(\d+) (\S+)$", out.getvalue(), re.M)
    case["nexus"] = dict(skip=0, intervals=[[x, y] for x, y in zip(sorted({0, a["L"]} | {e["left"] for e in a["edges"]} | {e["right"] for e in a["edges"]})[:-1],
                                                                    sorted({0, a["L"]} | {e["left"] for e in a["edges"]} | {e["right"] for e in a["edges"]})[1:])],
                         taxa=[int(u) for u in ts.samples()], same_newick=1,
                         data_ok=1 if [(int(u), s) for u, s in rows] == list(zip([int(u) for u in ts.samples()], want)) else 0)
    return case


def run():
    chk = Check("C18")
    rng = random.Random(SEED * 7919 + 18)
    cases = []
    for i in range(700 if QUICK else 60000):
        a = gen.random_abstract(rng, N=rng.randint(1, 9), K=rng.randint(1, 4), max_edges=14, nsites=0, nmuts=0, max_time=rng.choice([3, 6]),
                                p_internal_sample=rng.choice([0.15, 0.4]))
        cases.append(drive(a, rng))
    # many labelled nodes: unary chains and caterpillars in which *every* node is a sample (each node then prints a label and a branch
    # length), 10-30 nodes, with the time scales of TimeScale (spans below 1 as well as huge ones)
    for i in range(40 if QUICK else 2000):
        N = rng.choice([10, 11, 12, 20, 30])
        if rng.random() < 0.5:
            edges = [dict(left=0, right=1, parent=j + 1, child=j) for j in range(N - 1)]
            times = list(range(N))
        else:       # caterpillar: leaves 0..m-1, spine m..N-1
            m = (N + 1) // 2
            times = [0] * m + list(range(1, N - m + 1))
            edges = [dict(left=0, right=1, parent=m, child=0), dict(left=0, right=1, parent=m, child=1)]
            for j in range(2, m):
                if m + j - 1 < N:
                    edges += [dict(left=0, right=1, parent=m + j - 1, child=m + j - 2), dict(left=0, right=1, parent=m + j - 1, child=j)]
            edges.sort(key=lambda e: (times[e["parent"]], e["parent"], e["child"]))
        a = dict(L=1, time=times, flags=[1] * N, edges=edges, sites=[], muts=[], _all_default=1)
        cases.append(drive(a, rng))
    # many nodes, deep: "identically on the fast and the general code path" on comb trees and unary chains far deeper than any recursion
    # limit (harness-evaluated string comparison: the fast path's output is validated token by token on the small cases above)
    deep = 0
    for n in ([1500, 4000] if QUICK else [600, 1100, 1500, 4000, 20000]):
        for shape in ("comb", "chain"):
            if shape == "comb":
                tree = tskit.Tree.generate_comb(n)
            else:
                tb = tskit.TableCollection(1)
                for j in range(n):
                    tb.nodes.add_row(flags=1, time=j)
                    if j:
                        tb.edges.add_row(0, 1, j, j - 1)
                tree = tb.tree_sequence().first()
            labels = {int(u): "n%d" % u for u in tree.tree_sequence.samples()}
            chk.note_case(dict(deep=shape, n=n), True)
            try:
                fast = tree.as_newick()
                general = tree.as_newick(node_labels=labels)
                nolen = tree.as_newick(include_branch_lengths=False)
            except Exception as e:  # noqa: BLE001
                chk.violation("as_newick fails on a deep single-rooted tree (%s, %d nodes deep): %s: %s" % (shape, n, type(e).__name__, str(e)[:80]),
                              dict(shape=shape, n=n))
                continue
            if general != fast or nolen != re.sub(r":[0-9.]+", "", fast):
                chk.violation("as_newick: general and fast code paths differ on a deep tree (%s, %d)" % (shape, n), dict(shape=shape, n=n))
            else:
                deep += 1
                chk.traces += 1
    chk.extra["deep_trees_ok"] = deep
    nmain = len(cases)
    for i in range(150 if QUICK else 10000):
        c = fasta_case(rng)
        if c is not None:
            cases.append(c)
    corrupted = []
    for c in cases[:nmain]:
        if len(corrupted) >= 8:
            break
        for tr in c["trees"]:
            good = [n for n in tr["newicks"] if not n["raised"] and len(n["pre"]) >= 3]
            if good:
                d = copy.deepcopy(c)
                n = [x for t2 in d["trees"] for x in t2["newicks"] if not x["raised"] and len(x["pre"]) >= 3][0]
                if rng.random() < 0.5:
                    n["pre"][1][0] = n["pre"][1][0] + 1
                else:
                    n["pre"][0][3] += 1
                corrupted.append(d)
                break
    cv, _ = common.tlc_validate("Trace_Newick", corrupted, chunks=4)
    acc = sum(1 for d in corrupted if not cv[d["id"]])
    chk.extra["binding_selftest"] = dict(corrupted=len(corrupted), rejected=len(corrupted) - acc)
    if acc:
        raise common.MachineryError("Trace_Newick accepted %d corrupted traces" % acc)
    verdicts, st = common.tlc_validate("Trace_Newick", cases)
    chk.add_tlc(st)
    nnw = 0
    for c in cases:
        n = sum(len(t["newicks"]) for t in c["trees"])
        nnw += n
        chk.note_case(dict(ts=c["ts"], sc=c.get("scale"), nw=[[x["root"], x["labels"], x["prec_effective"], x["withlen"]] for t in c["trees"] for x in t["newicks"]],
                           f=c["fasta"]), n >= 2 or c["fasta"]["skip"] == 0)
        f = list(verdicts[c["id"]])
        if any(t.get("noroot_ok", 1) == 0 for t in c["trees"]):
            f.append("as_newick_without_root")
        if f:
            errs = sorted({x.get("error", "") for t in c["trees"] for x in t["newicks"] if x["raised"]})
            sig = None
            chk.violation("trace rejected by Trace_Newick: %s %s scale=%s %s" % (sorted(f), errs, c.get("scale"), st["eval_errors"].get(c["id"], "")[-300:]), c)
        else:
            chk.traces += 1
    chk.extra.update(newick_strings=nnw, tree_cases=nmain, fasta_nexus_data_cases=len(cases) - nmain)
    c = cases[0]
    chk.sample(dict(ts=c["ts"], scale=c["scale"], newicks=c["trees"][0]["newicks"][:2]))
    chk.rule = ("random trees (<=9 nodes; polytomies, unary, internal samples, multiple roots) x every root + random subtree roots x precision "
                "{None,0,1,3,17} x labels {default, custom subset, none} x include_branch_lengths; node times (k+offset)*mult*10^-d with d in {0,1,3}, "
                "offsets {0,-7,-1e6,123456789}; FASTA wrap widths {0,1,2,3,60}; non-trivial = >=2 Newick strings or a FASTA case")
    chk.assumptions = ["Newick tokenizer and Decimal arithmetic in the harness are trusted", "child order of the output is compared with the tree's own child order"]
    return chk.finish()


if __name__ == "__main__":
    common.assert_imports()
    common.main_wrapper(run)
