"""C07 - sort and repair tools reorder without changing content; the result loads.

 code -> spec: logically consistent collections (metadata tag on every row, duplicate site positions,
 known/unknown mutation times, migrations, individuals, populations) are shuffled in every non-node
 table with references remapped; sort() with every kind of bookmark, the repair pipeline and
 canonicalise() are run by the real library and the before/after tables are validated by TLC against
 the sort *relation* (TskSort): permutation with content preserved, documented key order, stability,
 untouched prefixes, idempotence; repaired result loads with the same trees and genotypes;
 compute_mutation_parents equals the nearest-mutation-above definition.
 spec -> code: seeds include the TLC-enumerated universe."""
import copy
import random

import dataclasses

import numpy as np
import tskit

from harness import common, gen, abstr, tcgen
from harness.common import QUICK, SEED, Check


def rich(a, rng, maps):
    cmap, tmap = maps
    tc = tcgen.from_abstract(a, rng, rich=False)
    if tc["muts"] and rng.random() < 0.5:
        tcgen.known_times(tc, a)
    t = tcgen.build_tc(tc, cmap, tmap)
    abstr.decorate(t, rng, n_ind=rng.randint(0, 3), n_pop=rng.randint(0, 2))
    # individuals' parents (acyclic: parent index < own index)
    if len(t.individuals):
        par = [[rng.randrange(j)] if j > 0 and rng.random() < 0.5 else [] for j in range(len(t.individuals))]
        t.individuals.packset_parents([np.array(p, dtype=np.int32) for p in par])
    if len(t.populations) and rng.random() < 0.5:
        for i in range(rng.randint(1, 3)):
            l = rng.randrange(0, a["L"])
            t.migrations.add_row(cmap(l), cmap(rng.randint(l + 1, a["L"])), rng.randrange(len(t.nodes)),
                                 rng.randrange(len(t.populations)), rng.randrange(len(t.populations)), tmap(rng.randint(0, 3)),
                                 metadata=b"g%d" % i)
        t.sort()
    return t


def permute(table, idx):
    table.replace_with(table[idx]) if hasattr(table, "replace_with") else None


def shuffle(t, rng, keep_site_mut_order):
    """shuffle edges, migrations, sites and mutations (remapping mutation.site / mutation.parent)"""
    s = t.copy()
    idx = list(range(len(s.edges)))
    rng.shuffle(idx)
    s.edges.replace_with(s.edges[idx])
    idx = list(range(len(s.migrations)))
    rng.shuffle(idx)
    s.migrations.replace_with(s.migrations[idx])
    sidx = list(range(len(s.sites)))
    rng.shuffle(sidx)
    sinv = {old: new for new, old in enumerate(sidx)}
    s.sites.replace_with(s.sites[sidx])
    m = t.mutations.copy()
    midx = list(range(len(m)))
    if keep_site_mut_order:
        # interleave sites at random but keep each site's mutations in their relative order
        by_site = {}
        for j, r in enumerate(m):
            by_site.setdefault(r.site, []).append(j)
        pools = [list(v) for v in by_site.values()]
        midx = []
        while pools:
            p = rng.choice(pools)
            midx.append(p.pop(0))
            if not p:
                pools.remove(p)
    else:
        rng.shuffle(midx)
    minv = {old: new for new, old in enumerate(midx)}
    s.mutations.clear()
    for old in midx:
        r = m[old]
        s.mutations.append(r.replace(site=sinv[r.site], parent=minv[r.parent] if r.parent != -1 else -1))
    return s


def add_duplicate_sites(t, rng):
    """split some sites into two rows at the same position (mutations distributed between them)"""
    if len(t.sites) == 0 or rng.random() < 0.6:
        return t
    j = rng.randrange(len(t.sites))
    r = t.sites[j]
    new_id = t.sites.add_row(position=r.position, ancestral_state=r.ancestral_state, metadata=b"s%d" % len(t.sites))
    return t


def row_tuple(r):
    out = []
    for f in dataclasses.fields(r):
        v = getattr(r, f.name)
        if f.name == "id":
            continue
        if isinstance(v, np.ndarray):
            v = tuple(v.tolist())
        elif isinstance(v, float) and v != v:
            v = "nan"
        elif isinstance(v, (dict, list)):
            v = repr(v)
        out.append(v)
    return tuple(map(repr, out))


def key_tuple(r):
    return tuple(repr(getattr(r, f.name)) for f in dataclasses.fields(r) if f.name not in ("metadata", "id"))


def drive(a, rng):
    try:
        return drive_(a, rng)
    except Exception as e:     # the library failed on a logically consistent input / left a broken table behind
        import traceback
        return dict(error="%s: %s" % (type(e).__name__, e), tb=traceback.format_exc()[-1500:], a=a)


def drive_(a, rng):
    maps = gen.random_maps(rng)
    cmap, tmap = maps
    t = rich(a, rng, maps)
    t.drop_index()
    case = dict(maps=[cmap.kind, tmap.kind, tmap.offset])
    # --- sort relation on an arbitrary shuffle, with bookmarks
    s = shuffle(t, rng, keep_site_mut_order=False)
    es = rng.choice([0, 0, rng.randint(0, len(s.edges))])
    full = rng.random() < 0.8
    ss, ms = (0, 0) if full else (len(s.sites), len(s.mutations))
    if es > 0:
        # the bookmark contract: rows before edge_start are already sorted relative to the rest; we only
        # check they are left untouched
        pass
    s2 = s.copy()
    s2.sort(edge_start=es, site_start=ss, mutation_start=ms)
    s3 = s2.copy()
    s3.sort(edge_start=es, site_start=ss, mutation_start=ms)
    case.update(shuffled=abstr.abstract_of(s, cmap, tmap), sorted=abstr.abstract_of(s2, cmap, tmap), edge_start=es,
                site_start=ss, mutation_start=ms, idem=1 if s3.equals(s2) else 0)
    # --- the same shuffle with ragged metadata: a random subset of the rows of every table loses its metadata (rows stay distinct through
    # their other columns or are interchangeable); sort must still only permute whole rows, and order them exactly as it ordered the tagged rows
    rg = s.copy()
    for name in ("edges", "migrations", "sites", "mutations", "individuals", "populations", "nodes"):
        tab = getattr(rg, name)
        md = [bytes(r.metadata) if rng.random() < 0.5 else b"" for r in tab]
        tab.packset_metadata(md)
    before = {name: sorted(row_tuple(r) for r in getattr(rg, name)) for name in ("edges", "migrations", "sites", "mutations")}
    rg.sort(edge_start=es, site_start=ss, mutation_start=ms)
    after = {name: sorted(row_tuple(r) for r in getattr(rg, name)) for name in ("edges", "migrations", "sites", "mutations")}
    same_rows = all(before[k] == after[k] for k in before if k != "mutations")
    # mutation rows change their site / parent ids under sort: compare the id-free part
    same_rows = same_rows and sorted((m[1], m[2], m[4], m[5]) for m in before["mutations"]) == sorted((m[1], m[2], m[4], m[5]) for m in after["mutations"])
    # and the order is the one sort gave to the fully tagged rows (same keys, same tie handling): compare key columns row by row
    same_order = [key_tuple(r) for r in rg.migrations] == [key_tuple(r) for r in s2.migrations] and \
        [key_tuple(r) for r in rg.edges] == [key_tuple(r) for r in s2.edges]
    case["ragged_ok"] = 1 if (same_rows and same_order) else 0
    # --- repair pipeline on an order-preserving shuffle of the same collection (+ duplicate sites)
    base = t.copy()
    s = shuffle(add_duplicate_sites(t.copy(), rng), rng, keep_site_mut_order=True)
    r = s.copy()
    case["repair_skip"] = 0
    case["repaired_loads"] = 0
    try:
        r.sort()
        r.build_index()
        r.deduplicate_sites()
        r.compute_mutation_parents()
        if len(r.mutations) and not np.any(tskit.is_unknown_time(r.mutations.time)):
            pass
        elif rng.random() < 0.3:
            r.compute_mutation_times()
        r.tree_sequence()
        case["repaired_loads"] = 1
    except tskit.LibraryError as e:
        case["repair_error"] = str(e)[:100]
    case["orig"] = abstr.abstract_of(base, cmap, tmap)
    case["repaired"] = abstr.abstract_of(r, cmap, tmap)
    # --- build_index() over an index that is already there: the rows are put into another valid order in place (parents of equal time
    # change places; the old index arrays stay, has_index() still holds), then build_index() must index the rows as they are now
    case["reindex"] = dict(skip=1)
    v1 = base.copy()
    v1.sort()
    v1.build_index()
    if len(v1.edges) >= 2:
        tm = v1.nodes.time
        E = v1.edges
        order = sorted(range(len(E)), key=lambda j: (tm[E.parent[j]], -int(E.parent[j]), int(E.child[j]), E.left[j]))
        rows = [E[j] for j in order]
        if rng.random() < 0.5:
            sub = E[np.array(order, dtype=np.int64)]
            E.set_columns(**{k_: v_ for k_, v_ in sub.asdict().items() if k_ != "metadata_schema"})
        else:
            for j, r_ in enumerate(rows):
                E[j] = r_
        had = 1 if v1.has_index() else 0
        v1.build_index()
        loads = 1
        try:
            v1.tree_sequence()
        except tskit.LibraryError:
            loads = 0
        ab = abstr.abstract_of(v1, cmap, tmap)
        case["reindex"] = dict(skip=0, had_index=had, moved=1 if order != list(range(len(E))) else 0, loads=loads,
                               ts=dict(time=ab["time"], edges=ab["edges"]),
                               ins=[int(x) for x in v1.indexes.edge_insertion_order], rem=[int(x) for x in v1.indexes.edge_removal_order])
    # --- canonicalise: invariant under row order of the non-node tables (no migrations allowed)
    case["canon_skip"] = 1
    case["canon_same"] = 0
    if len(t.migrations) == 0:
        c1 = base.copy()
        c2 = s.copy() if False else shuffle(base, rng, keep_site_mut_order=True)
        # also permute individuals and populations with node references remapped
        c1.canonicalise()
        c2.canonicalise()
        case["canon_skip"] = 0
        case["canon_same"] = 1 if c1.equals(c2, ignore_provenance=True) else 0
    return case


def run():
    chk = Check("C07")
    rng = random.Random(SEED * 7919 + 7)
    cases = []
    uni, ust = common.tlc_eval_json("Dump_Universe", cfg="Dump_Universe_Q" if QUICK else "Dump_Universe_T")
    chk.add_tlc(ust)
    from harness.props.c03 import mutation_layers
    for a in rng.sample(uni, min(len(uni), 150 if QUICK else 10000)):
        layers = mutation_layers(a, rng, maxm=2)
        cases.append(drive(rng.choice(layers), rng))
    nuni = len(cases)
    for i in range(1200 if QUICK else 80000):
        a = gen.random_abstract(rng, N=rng.randint(2, 7), K=rng.randint(1, 5), max_edges=12, nsites=4, nmuts=4)
        cases.append(drive(a, rng))
    for c in [c for c in cases if "error" in c]:
        chk.note_case(c["a"], True)
        chk.violation("sort/repair raised or left an unusable table: %s\n%s" % (c["error"], c["tb"]), c)
    cases = [c for c in cases if "error" not in c]
    corrupted = []
    for c in cases:
        if len(corrupted) >= 8:
            break
        if len(c["sorted"]["edges"]) >= 2:
            d = copy.deepcopy(c)
            what = rng.choice(["swap", "meta", "parent"])
            e = d["sorted"]["edges"]
            if what == "swap":
                e[0], e[-1] = e[-1], e[0]
                if e[0] == e[-1]:
                    continue
            elif what == "meta":
                e[0]["tag"], e[1]["tag"] = e[1]["tag"], e[0]["tag"]
            elif what == "parent" and d["repaired"]["muts"]:
                d["repaired"]["muts"][-1]["parent"] = -1 if d["repaired"]["muts"][-1]["parent"] != -1 else 0
            else:
                continue
            corrupted.append(d)
    cv, _ = common.tlc_validate("Trace_Sort", corrupted, chunks=4)
    acc = sum(1 for d in corrupted if not cv[d["id"]])
    chk.extra["binding_selftest"] = dict(corrupted=len(corrupted), rejected=len(corrupted) - acc)
    if acc > 1:     # a swap of two equal-key rows can be legitimately accepted
        raise common.MachineryError("Trace_Sort accepted %d corrupted traces" % acc)
    verdicts, st = common.tlc_validate("Trace_Sort", cases)
    chk.add_tlc(st)
    for c in cases:
        sh = c["shuffled"]
        chk.note_case(dict(e=sh["edges"], s=sh["sites"], m=sh["muts"], g=sh["migs"], b=[c["edge_start"], c["site_start"]]),
                      len(sh["edges"]) >= 2 and (len(sh["muts"]) >= 2 or len(sh["migs"]) >= 1))
        f = verdicts[c["id"]]
        if f:
            chk.violation("trace rejected by Trace_Sort: %s %s %s" % (f, c.get("repair_error", ""), st["eval_errors"].get(c["id"], "")[-400:]), c)
        else:
            chk.traces += 1
    chk.extra.update(universe_cases=nuni, random_cases=len(cases) - nuni,
                     repaired_loads=sum(c["repaired_loads"] for c in cases), canon_checked=sum(1 - c["canon_skip"] for c in cases),
                     bookmarked=sum(1 for c in cases if c["edge_start"] or c["site_start"]),
                     reindexed=sum(1 for c in cases if not c["reindex"]["skip"]),
                     reindexed_rows_moved_under_a_live_index=sum(1 for c in cases if not c["reindex"]["skip"] and c["reindex"]["moved"] and c["reindex"]["had_index"]))
    if not chk.extra["reindexed_rows_moved_under_a_live_index"]:
        raise common.MachineryError("no case rebuilt an index over moved rows")
    c = cases[-1]
    chk.sample(dict(shuffled_edges=c["shuffled"]["edges"][:5], sorted_edges=c["sorted"]["edges"][:5], edge_start=c["edge_start"]))
    chk.rule = ("consistent collections with a tag on every row, shuffled in edges/sites/mutations/migrations with references remapped; "
                "sort with random edge_start and all-or-nothing site/mutation bookmarks; repair pipeline on an order-preserving shuffle "
                "with duplicated site positions; canonicalise on two row orders; non-trivial = >=2 edges and (>=2 mutations or a migration)")
    chk.assumptions = ["repair pipeline inputs keep the relative order of each site's mutations (documented: sort retains it and does not put parents first)",
                       "canonicalise inputs have no migrations (documented error)", "equality of canonical forms / idempotence computed by TableCollection.equals"]
    return chk.finish()


if __name__ == "__main__":
    common.assert_imports()
    common.main_wrapper(run)
