"""X05 - spec growth beyond the listed properties, part 5 (not registered in MANIFEST.json; run with ./check X05).

 VariantMachine.tla: the variant decoder (tsk_variant_init / tsk_variant_decode / restricted_copy and the Python Variant on top) as a
 state machine with the buffers the code keeps between calls.
   (1) model checking: for a few base tree sequences TLC enumerates *every* site/mutation layer (<= 2 sites, <= 2 mutations, 3 allele
       tokens) x isolated_as_missing x sample lists x user allele lists and every reachable decoder state; invariants VarOK, ErrIff,
       AlleleOrder, UserKept, action properties CopiesFrozen and HistoryFree.
   (2) spec -> code: behaviours from `tlc -simulate` over richer harness-generated tree sequences (decode in any order, copies, decode on
       a copy) are replayed on real tskit.Variant objects; after every step alleles, genotypes, has_missing_data, site, the derived views
       (num_alleles, num_missing, counts, frequencies, states) and every copy made so far are compared."""
import collections
import json
import os
import random
import shutil
import tempfile

import numpy as np
import tskit

from harness import common, gen
from harness.common import QUICK, SEED, Check

TOK = gen.ALLELES


def rich_base(rng):
    """a 4-node, L=3 base with at least two trees and three edges (internal samples and isolated stretches welcome)"""
    while True:
        a = gen.random_abstract(rng, N=4, K=3, max_edges=4, nsites=0, nmuts=0, p_internal_sample=0.3)
        bps = {e["left"] for e in a["edges"]} | {e["right"] for e in a["edges"]} | {0, 3}
        if len(a["edges"]) >= 3 and len(bps) >= 3 and sum(a["flags"]) >= 2:
            return a


def sim_ts(rng):
    while True:
        a = gen.random_abstract(rng, N=rng.choice([5, 6, 7]), K=4, max_edges=10, nsites=3, nmuts=4, nalleles=3,
                                p_internal_sample=0.25)
        if a["sites"] and sum(a["flags"]) >= 1:
            return a


def observe(var):
    g = [int(x) for x in var.genotypes]
    return dict(site=int(var.site.id), alleles=list(var.alleles), geno=g, hm=bool(var.has_missing_data))


def expected(exp, user):
    al = [TOK[x] for x in exp["alleles"]]
    if exp["hm"]:
        al.append(None)
    return dict(site=exp["site"], alleles=al, geno=list(exp["geno"]), hm=bool(exp["hm"]))


def derived_views(var, want, dup):
    """the Python views computed from (alleles, genotypes): harness-side arithmetic over the model's expectation"""
    bad = []
    al, g = want["alleles"], want["geno"]
    nmiss = sum(1 for x in g if x == -1)
    if int(var.num_missing) != nmiss:
        bad.append(("num_missing", nmiss, int(var.num_missing)))
    if int(var.num_alleles) != len(al) - (1 if want["hm"] else 0):
        bad.append(("num_alleles", len(al) - (1 if want["hm"] else 0), int(var.num_alleles)))
    if not dup:
        cnt = collections.Counter()
        for a in al:
            cnt[a] = 0
        for x in g:
            cnt[None if x == -1 else al[x]] += 1
        if want["hm"] is False:
            cnt.pop(None, None)
        got = var.counts()
        if dict(got) != dict(cnt):
            bad.append(("counts", dict(cnt), dict(got)))
        tot = len(g) - nmiss
        if tot > 0:
            fr = {a: cnt[a] / tot for a in al if a is not None}
            gotf = var.frequencies(remove_missing=True)
            if set(gotf) != set(fr) or any(abs(gotf[k] - fr[k]) > 1e-12 for k in fr):
                bad.append(("frequencies", fr, gotf))
        if all(a is None or len(a) > 0 for a in al):
            st = [("N" if x == -1 else al[x]) for x in g]
            try:
                gots = [str(s) for s in var.states(missing_data_string="N")]
            except Exception as e:  # noqa: BLE001
                gots = "%s: %s" % (type(e).__name__, e)
            if gots != st:
                bad.append(("states", st, gots))
    return bad


def replay(b, rng, corrupt=None):
    a = dict(b["ts"])
    cmap, tmap = gen.random_maps(rng)
    tables = gen.build_tables(a, cmap, tmap)
    if rng.random() < 0.5:
        gen.add_user_flags(tables, rng)
    ts = tables.tree_sequence()
    o = b["opt"]
    kw = dict(isolated_as_missing=bool(o["iam"]))
    if o["alt"]:
        kw["samples"] = gen.arg_form(rng, list(o["samples"]))
    user = list(o["user"])
    if user:
        kw["alleles"] = tuple(TOK[x] for x in user)
    dup = len(set(user)) != len(user)
    try:
        var = tskit.Variant(ts, **kw)
    except Exception as e:  # noqa: BLE001
        return [(-1, "init_raised", "a Variant", "%s: %s" % (type(e).__name__, str(e)[:100]))]
    copies, frozen = [], []
    for i, ev in enumerate(b["hist"]):
        op, arg, exp = ev["op"], ev["arg"], ev["exp"]
        if corrupt is not None and corrupt[0] == i:
            exp = json.loads(json.dumps(exp))
            corrupt[1](exp)
        if op == "decode":
            try:
                var.decode(arg)
                raised = ""
            except tskit.LibraryError as e:
                raised = str(e)
            if exp["err"]:
                if not raised:
                    return [(i, "decode_should_raise", exp["err"], "no exception")]
                continue
            if raised:
                return [(i, "decode_raised", "no exception", raised[:100])]
            got, want = observe(var), expected(exp, user)
            if got != want:
                diff = [k for k in want if got[k] != want[k]]
                return [(i, "decode:" + ",".join(diff), {k: want[k] for k in diff}, {k: got[k] for k in diff})]
            dv = derived_views(var, want, dup)
            if dv:
                return [(i, "view:" + dv[0][0], dv[0][1], dv[0][2])]
        elif op == "copy":
            c = var.copy()
            copies.append(c)
            frozen.append(expected(exp, user))
        elif op == "decode_copy":
            c = copies[arg[0]]
            try:
                c.decode(arg[1])
                return [(i, "decode_on_copy_accepted", "an error", "no exception")]
            except (tskit.LibraryError, ValueError):
                pass
        for k, c in enumerate(copies):
            got = observe(c)
            if got != frozen[k]:
                return [(i, "copy_changed:%d" % k, frozen[k], got)]
    return []


def run():
    chk = Check("X05", level="model_checking")
    rng = random.Random(SEED * 7919 + 505)
    tmpd = tempfile.mkdtemp(prefix="x05_")
    try:
        # (1) model checking over TLC-enumerated site layers
        bases = [rich_base(rng) for _ in range(1 if QUICK else 5)]
        bf = os.path.join(tmpd, "bases.ndjson")
        with open(bf, "w") as fh:
            for a in bases:
                fh.write(json.dumps(a) + "\n")
        mc = common.tlc_mc("VariantMachine", cfg="MC_VariantMachine" if QUICK else "MC_VariantMachine_thorough", timeout=6000, env={"SIMTS": bf})
        if not mc["ok"]:
            if mc["violated"]:
                chk.violation("TLC: design property %s of VariantMachine violated" % mc["violated"], dict(out=mc["out"][-3000:], bases=bases))
            else:
                raise common.MachineryError("TLC failed on MC_VariantMachine:\n" + mc["out"][-2000:])
        chk.add_tlc(mc)
        chk.exhaustive = mc["ok"]
        chk.extra["mc"] = dict(states=mc["states"], transitions=mc["transitions"], bases=bases, wall=round(mc["wall"], 1))
        # (2) spec -> code
        full = [sim_ts(rng) for _ in range(40 if QUICK else 400)]
        ff = os.path.join(tmpd, "full.ndjson")
        with open(ff, "w") as fh:
            for a in full:
                fh.write(json.dumps(a) + "\n")
        beh, _ = common.tlc_simulate_json("VariantMachine", cfg="Sim_VariantMachine", num=400 if QUICK else 6000, depth=9, seed=SEED + 1,
                                          timeout=3000, env={"SIMTS": ff})
    finally:
        shutil.rmtree(tmpd, ignore_errors=True)
    if len(beh) < 100:
        raise common.MachineryError("too few simulated behaviours: %d" % len(beh))
    seen = collections.Counter()
    for b in beh:
        ops = [e["op"] for e in b["hist"]]
        sites = [e["arg"] for e in b["hist"] if e["op"] == "decode"]
        chk.note_case(b, len(set(sites)) >= 2 and any(x > y for x, y in zip(sites, sites[1:])))
        for e in b["hist"]:
            seen[e["op"] + (":err" if e["exp"]["err"] else "")] += 1
        seen["opt:iam=%d,alt=%d,user=%d" % (b["opt"]["iam"], b["opt"]["alt"], len(b["opt"]["user"]))] += 1
        bad = replay(b, rng)
        if bad:
            chk.violation("replay of a VariantMachine behaviour diverged at step %d: %s expected %s got %s" % bad[0], dict(behaviour=b, diverged=bad))
        else:
            chk.traces += 1
    chk.extra["steps_per_event"] = dict(seen)
    for need in ("decode", "decode:err", "copy", "decode_copy:err"):
        if not seen[need]:
            raise common.MachineryError("no simulated behaviour contains %s" % need)
    # binding self-test: one expected value of a successful decode is changed; the replay must diverge there
    rej = tot = 0
    for b in beh:
        idx = [i for i, e in enumerate(b["hist"]) if e["op"] == "decode" and not e["exp"]["err"] and e["exp"]["geno"]]
        if not idx:
            continue
        i = idx[-1]

        def flip(exp):
            exp["geno"][0] = 0 if exp["geno"][0] != 0 else (1 if len(exp["alleles"]) > 1 else -1)
        tot += 1
        rej += 1 if replay(b, rng, corrupt=(i, flip)) else 0
        if tot >= 40:
            break
    chk.extra["binding_selftest"] = dict(corrupted=tot, rejected=rej)
    if (rej != tot or tot == 0) and not chk.violations:      # (on a library that already diverges the self-test says nothing)
        raise common.MachineryError("replay accepted %d corrupted behaviours" % (tot - rej))
    chk.sample(dict(behaviour=beh[0]))
    chk.rule = ("VariantMachine.tla model-checked over every site/mutation layer (<=2 sites, <=2 mutations, 3 allele tokens) of the base tree "
                "sequences x options (VarOK, ErrIff, AlleleOrder, UserKept, CopiesFrozen, HistoryFree); behaviours from tlc -simulate (depth 9) "
                "over harness-generated tree sequences replayed on tskit.Variant: alleles (exact order), genotypes, has_missing_data, site, "
                "num_alleles / num_missing / counts / frequencies / states and all copies compared after every step; non-trivial = at least "
                "two different sites decoded with a backward step")
    chk.assumptions = ["beyond-property coverage: not listed in MANIFEST.json",
                       "the decoder's private tree is abstracted to the marginal tree at the site's position (MC_TreeCursor covers the seeks)"]
    return chk.finish()


if __name__ == "__main__":
    common.assert_imports()
    common.main_wrapper(run)
