"""C10 - truncated or corrupted files are rejected, never loaded as something else.

 MC (MC_Kastore): exhaustive fault enumeration on the abstract container with exact 64-bit
 wrap-around arithmetic: every proper prefix is rejected; an interpreted-field substitution is
 accepted by the container exactly in the characterised blind-spot classes (same byte extent).
 Fault enumeration on real bytes (sanitizer build, isolated workers): for real dumps, every
 prefix length, every byte of the header / descriptor / key regions x {0x00, 0xFF, +1, -1,
 0x20, 0x40, 0x80}, whole-field substitutions (boundary and wrap-around values, the MC
 blind-spot classes) and random data-region substitutions; both TableCollection.load and
 tskit.load, eager and skip_tables / skip_reference_sequence paths, second object of a stream.
 code -> spec: every (file layout, fault, real outcome) is validated by TLC (Trace_Kastore):
 the layout function classifies the byte, the Reader model gives the container verdict."""
import json
import os
import random
import struct
import tempfile

import numpy as np
import tskit

from harness import common, gen, isolate
from harness.common import QUICK, SEED, Check
from harness.props import c05

SHM = "/dev/shm" if os.path.isdir("/dev/shm") else None
# items the tskit file format declares optional (c/tskit/tables.c: TSK_COL_OPTIONAL and the top-level properties)
# items whose absence *on its own* the tskit file format accepts (c/tskit/tables.c: TSK_COL_OPTIONAL columns without a paired column, and
# the top-level properties).  Paired items (x and x_offset, the two index columns) are optional only together: losing one of them must raise.
OPTIONAL_KEYS = {"metadata", "metadata_schema", "time_units", "reference_sequence/data", "reference_sequence/url",
                 "reference_sequence/metadata", "reference_sequence/metadata_schema", "mutations/time"} | {t + "/metadata_schema" for t in (
                     "nodes", "edges", "sites", "mutations", "migrations", "individuals", "populations")}


def parse(data):
    n_items = struct.unpack("<I", data[12:16])[0]
    fsize = struct.unpack("<Q", data[16:24])[0]
    items = []
    for j in range(n_items):
        d = data[64 + 64 * j:64 + 64 * (j + 1)]
        ty = d[0]
        ks, kl, as_, al = struct.unpack("<QQQQ", d[8:40])
        items.append(dict(type=ty, ks=ks, kl=kl, **{"as": as_}, al=al, key=data[ks:ks + kl].decode()))
    return dict(nitems=n_items, fsize=fsize, items=items)


def limbs(v):
    v &= (1 << 64) - 1
    return [v & 0xFFFF, (v >> 16) & 0xFFFF, (v >> 32) & 0xFFFF, (v >> 48) & 0xFFFF]


def store_of(t):
    """byte-level content of a table collection: the kastore items of a fresh dump (key -> type, raw
    bytes), without the per-file uuid.  Avoids any decoding of strings (corrupted data may hold
    arbitrary bytes)."""
    fd, p2 = tempfile.mkstemp(dir=SHM)
    os.close(fd)
    try:
        t.dump(p2)
        data = open(p2, "rb").read()
    finally:
        os.remove(p2)
    lay = parse(data)
    out = {}
    for it in lay["items"]:
        if it["key"] == "uuid":
            continue
        tsz = {0: 1, 1: 1, 2: 2, 3: 2, 4: 4, 5: 4, 8: 4, 6: 8, 7: 8, 9: 8}[it["type"]]
        out[it["key"]] = (it["type"], data[it["as"]:it["as"] + it["al"] * tsz])
    return out


def cols(t):
    return store_of(t)


def ragged_wellformed(c):
    """independent of the library's own loader: every <x>_offset item of the stored object is a non-decreasing sequence from 0 to the length
    of its <x> item, one entry more than the table has rows (all offset columns of one table have the same length)"""
    import struct
    nrows = {}
    for key, (typ, raw) in c.items():
        if not key.endswith("_offset"):
            continue
        tsz = 8 if typ in (6, 7, 9) else 4
        n = len(raw) // tsz
        offs = struct.unpack("<%d%s" % (n, "Q" if tsz == 8 else "I"), raw[:n * tsz])
        datakey = key[:-len("_offset")]
        if datakey not in c:
            return "offset column %s without its data column" % key
        dt, draw = c[datakey]
        dsz = {0: 1, 1: 1, 2: 2, 3: 2, 4: 4, 5: 4, 8: 4, 6: 8, 7: 8, 9: 8}[dt]
        if n == 0 or offs[0] != 0 or offs[-1] != len(draw) // dsz or any(offs[i] > offs[i + 1] for i in range(n - 1)):
            return "ragged column %s is not well formed: offsets %s over %d elements" % (datakey, list(offs)[:8], len(draw) // dsz)
        tab = key.split("/")[0]
        if nrows.setdefault(tab, n) != n:
            return "offset columns of table %s disagree on the number of rows" % tab
    return None


def outcome(path, mode, base_cols, base_ts_ok):
    """load a (corrupted) file; returns (outcome, detail)"""
    try:
        if mode == "tc":
            x = tskit.TableCollection.load(path)
        elif mode == "ts":
            x = tskit.load(path)
        elif mode == "skip_tables":
            x = tskit.TableCollection.load(path, skip_tables=True)
        elif mode == "skip_ref":
            x = tskit.TableCollection.load(path, skip_reference_sequence=True)
        elif mode == "second":
            with open(path, "rb") as f:
                tskit.TableCollection.load(f)
                x = tskit.TableCollection.load(f)
        elif mode in ("pipe_tc", "pipe_ts"):
            # a non-seekable stream: the bytes are fed through an OS pipe
            data = open(path, "rb").read()
            r, w = os.pipe()
            with os.fdopen(w, "wb") as wf:
                wf.write(data)
            with os.fdopen(r, "rb") as rf:
                x = tskit.TableCollection.load(rf) if mode == "pipe_tc" else tskit.load(rf)
    except Exception as e:       # any Python exception counts as "raises"; a crash kills the worker instead
        return "raise", type(e).__name__
    if x is None:
        return "diff_bad", "load returned None"
    if mode in ("ts", "pipe_ts"):
        # load has returned a TreeSequence: from here on an exception is not a rejection of the file but an unusable object
        try:
            x = x.dump_tables()
        except Exception as e:
            return "diff_bad", "tskit.load returned a tree sequence whose tables cannot be copied out: %s" % type(e).__name__
    c = cols(x)
    if c == base_cols[mode]:
        return "same", ""
    bad = ragged_wellformed(c)
    if bad:
        return "diff_bad", bad
    # a different object: is it at least well formed, i.e. does it round-trip through dump and load?
    try:
        fd, p2 = tempfile.mkstemp(dir=SHM)
        os.close(fd)
        try:
            x.dump(p2)
            y = tskit.TableCollection.load(p2)
            ok = cols(y) == c
        finally:
            os.remove(p2)
    except Exception as e:
        ok = False
    diff = sorted(k for k in set(c) | set(base_cols[mode]) if c.get(k) != base_cols[mode].get(k))
    if ok and mode in ("ts", "pipe_ts"):
        # what tskit.load returned must satisfy every validity requirement: its tables must load again under a
        # freshly built index and describe the same trees as the loaded object did
        try:
            # references judged here, not by the library's own gate (which is what let the object through)
            nn, npop, nind, nsite, nmut = len(x.nodes), len(x.populations), len(x.individuals), len(x.sites), len(x.mutations)
            for what, col, hi in (("nodes.population", x.nodes.population, npop), ("nodes.individual", x.nodes.individual, nind),
                                  ("edges.parent", x.edges.parent, nn), ("edges.child", x.edges.child, nn),
                                  ("mutations.site", x.mutations.site, nsite), ("mutations.node", x.mutations.node, nn),
                                  ("mutations.parent", x.mutations.parent, nmut), ("migrations.node", x.migrations.node, nn),
                                  ("migrations.source", x.migrations.source, npop), ("migrations.dest", x.migrations.dest, npop),
                                  ("individuals.parents", x.individuals.parents, nind)):
                lo = -1 if what in ("nodes.population", "nodes.individual", "mutations.parent", "individuals.parents") else 0
                if len(col) and (int(col.min()) < lo or int(col.max()) >= hi):
                    return "diff_bad", "loaded tree sequence has an out-of-range reference in %s" % what
            # the time requirements, judged from the columns: a parent is strictly older than its child; a mutation with a known time is not
            # younger than its node, strictly younger than the parent of its branch at the site, and not older than its parent mutation
            tm = x.nodes.time
            for e in x.edges:
                if not tm[e.parent] > tm[e.child]:
                    return "diff_bad", "loaded tree sequence has an edge whose parent is not older than its child"
            pos = x.sites.position
            for m in x.mutations:
                if tskit.is_unknown_time(m.time):
                    continue
                if not m.time >= tm[m.node]:
                    return "diff_bad", "loaded tree sequence has a mutation younger than its node"
                above = [e.parent for e in x.edges if e.child == m.node and e.left <= pos[m.site] < e.right]
                if above and not m.time < tm[above[0]]:
                    return "diff_bad", "loaded tree sequence has a mutation that is not younger than the parent node of its branch"
                if m.parent != -1 and not tskit.is_unknown_time(x.mutations.time[m.parent]) and not m.time <= x.mutations.time[m.parent]:
                    return "diff_bad", "loaded tree sequence has a mutation older than its parent mutation"
            ts1 = x.tree_sequence()
            t2 = x.copy()
            t2.drop_index()
            t2.build_index()
            ts2 = t2.tree_sequence()
            if ts1.num_trees != ts2.num_trees or any(
                    list(a.parent_array) != list(b.parent_array) or a.interval != b.interval for a, b in zip(ts1.trees(), ts2.trees())):
                return "diff_bad", "loaded tree sequence contradicts its own edge table: " + ",".join(diff[:4])
        except UnicodeDecodeError:
            pass      # corrupted text (schema / units) that Python cannot decode: not a validity requirement
        except Exception as e:
            return "diff_bad", "loaded tree sequence is not valid: %s" % type(e).__name__
    return ("diff_ok" if ok else "diff_bad"), ",".join(diff[:4])


def run_faults(item):
    """worker: item = dict(path of pristine file, mode, faults=[...]); returns outcomes"""
    data = open(item["path"], "rb").read()
    base = {}
    m = item["mode"]
    if m == "tc":
        base[m] = cols(tskit.TableCollection.load(item["path"]))
    elif m == "ts":
        base[m] = cols(tskit.load(item["path"]).dump_tables())
    elif m == "skip_tables":
        base[m] = cols(tskit.TableCollection.load(item["path"], skip_tables=True))
    elif m == "skip_ref":
        base[m] = cols(tskit.TableCollection.load(item["path"], skip_reference_sequence=True))
    elif m == "second":
        with open(item["path"], "rb") as f:
            tskit.TableCollection.load(f)
            base[m] = cols(tskit.TableCollection.load(f))
    elif m == "pipe_tc":
        base[m] = cols(tskit.TableCollection.load(item["path"]))
    elif m == "pipe_ts":
        base[m] = cols(tskit.load(item["path"]).dump_tables())
    out = []
    fd, p = tempfile.mkstemp(dir=SHM, suffix=".trees")
    os.close(fd)
    try:
        for ft in item["faults"]:
            b = bytearray(data)
            if ft["t"] == "prefix":
                b = b[:item["base_off"] + ft["len"]]
            else:
                for off, val in ft["bytes"]:
                    b[item["base_off"] + off] = val
            with open(p, "wb") as f:
                f.write(bytes(b))
            out.append(outcome(p, m, base, True))
    finally:
        os.remove(p)
    return out


def field_bytes(off, v):
    return [[off + i, (v >> (8 * i)) & 0xFF] for i in range(8)]


def make_faults(rng, data, lay, quick):
    """all faults for one stored object (offsets relative to the object's start)"""
    faults = []
    n = lay["nitems"]
    keys_end = lay["items"][-1]["ks"] + lay["items"][-1]["kl"]
    size = lay["fsize"]
    # (a) every prefix
    step = 1
    for ln in range(0, size, step):
        faults.append(dict(t="prefix", len=ln))
    # (b) every structural byte x substitutions
    for off in range(keys_end):
        cur = data[off]
        vals = {0x00, 0xFF, (cur + 1) & 0xFF, (cur - 1) & 0xFF}
        if off >= 64 and off < 64 + 64 * n and (off - 64) % 64 >= 8 and (off - 64) % 64 < 40 and (off - 64) % 8 == 7:
            vals |= {0x20, 0x40, 0x80}        # top byte of a 64-bit field: wrap-around candidates
        if quick and off >= 64 and off < 64 + 64 * n:
            r = (off - 64) % 64
            if r >= 40 or (1 <= r < 8):       # reserved descriptor bytes: one substitution is enough in quick mode
                vals = {0xFF}
        for v in sorted(vals):
            if v != cur:
                faults.append(dict(t="byte", off=off, bytes=[[off, v]]))
    # (c) whole-field substitutions
    M = (1 << 64) - 1
    for j, it in enumerate(lay["items"]):
        base = 64 + 64 * j
        tsz = {0: 1, 1: 1, 2: 2, 3: 2, 4: 4, 5: 4, 8: 4, 6: 8, 7: 8, 9: 8}[it["type"]]
        for kind, foff in (("ks", 8), ("kl", 16), ("as", 24), ("al", 32)):
            orig = it[kind]
            vals = {0, 1, M, M - 7, orig + 1, orig - 1 & M, orig + 8, size, (orig + (1 << 64) // tsz) & M,
                    (orig + 2 * ((1 << 64) // tsz)) & M, 1 << 32, 1 << 63}
            if kind == "al":
                vals |= {orig + d for d in range(-7, 8) if orig + d >= 0}
            if kind == "kl":
                vals |= {orig + d for d in range(-3, 8) if orig + d >= 0}
            for v in sorted(vals):
                if v != orig:
                    faults.append(dict(t="field", kind=kind, j=j, v=limbs(v), bytes=field_bytes(base + foff, v)))
        for v in range(0, 11):
            if v != it["type"]:
                faults.append(dict(t="field", kind="type", j=j, v=v, bytes=[[base, v]]))
    for v in (0, n - 1, n + 1, 1 << 31):
        faults.append(dict(t="field", kind="nitems", j=0, v=min(v, 1 << 24), bytes=[[12 + i, (v >> (8 * i)) & 0xFF] for i in range(4)]))
    for v in (0, 63, 64, size - 1, size + 1, size + 8, M, 1 << 63):
        faults.append(dict(t="field", kind="fsize", j=0, v=limbs(v), bytes=field_bytes(16, v)))
    # (d') targeted data faults: exchange two adjacent elements of every array with >= 2 multi-byte elements
    for it in lay["items"]:
        tsz = {0: 1, 1: 1, 2: 2, 3: 2, 4: 4, 5: 4, 8: 4, 6: 8, 7: 8, 9: 8}[it["type"]]
        if tsz >= 4 and it["al"] >= 2:
            for q in range(min(it["al"] - 1, (40 if it["key"].startswith("indexes/") or it["key"].endswith("_offset") else 6) if quick else 60)):
                o1 = it["as"] + q * tsz
                a1 = data[o1:o1 + tsz]
                a2 = data[o1 + tsz:o1 + 2 * tsz]
                if a1 != a2:
                    faults.append(dict(t="byte", off=o1, bytes=[[o1 + i, a2[i]] for i in range(tsz)] + [[o1 + tsz + i, a1[i]] for i in range(tsz)]))
    # (d'') targeted data faults: the first and the last element of every id column replaced by a large positive id (no table is that long)
    for it in lay["items"]:
        if it["type"] == 4 and it["al"] >= 1 and it["key"] in ("nodes/population", "nodes/individual", "edges/parent", "edges/child", "mutations/site",
                                                                "mutations/node", "mutations/parent", "migrations/node", "migrations/source",
                                                                "migrations/dest", "individuals/parents"):
            for q in sorted({0, it["al"] - 1}):
                o1 = it["as"] + 4 * q
                faults.append(dict(t="byte", off=o1, bytes=[[o1 + i, b] for i, b in enumerate((0x01, 0x00, 0x00, 0x7F))]))
    # (d3) targeted data faults: every time value replaced by every other value that occurs among the node and mutation times (a time equal
    # to that of a related row is what the strict / non-strict requirements are about)
    titems = [it for it in lay["items"] if it["key"] in ("nodes/time", "mutations/time") and it["type"] == 9]
    tvals = sorted({bytes(data[it["as"] + 8 * q:it["as"] + 8 * q + 8]) for it in titems for q in range(it["al"])})
    for it in titems:
        for q in range(min(it["al"], 8 if quick else 60)):
            o1 = it["as"] + 8 * q
            for v in tvals[:8 if quick else 40]:
                if v != bytes(data[o1:o1 + 8]):
                    faults.append(dict(t="byte", off=o1, bytes=[[o1 + i, v[i]] for i in range(8)]))
    # (d) random substitutions in the data region
    for _ in range(150 if quick else 2000):
        off = rng.randrange(keys_end, size)
        v = rng.randrange(256)
        if v != data[off]:
            faults.append(dict(t="byte", off=off, bytes=[[off, v]]))
    return faults


def run():
    chk = Check("C10", level="fault_enumeration")
    rng = random.Random(SEED * 7919 + 10)
    mc = common.tlc_mc("MC_Kastore", cfg="MC_Kastore" if QUICK else "MC_Kastore_thorough", timeout=3000)
    chk.add_tlc(mc)
    chk.extra["mc"] = dict(states=mc["states"], completed=mc["ok"], wall=round(mc["wall"], 1))
    if not mc["ok"]:
        if mc["violated"]:
            chk.violation("TLC: Kastore reader model violates %s\n%s" % (mc["violated"], mc["out"][-2500:]), dict(out=mc["out"][-5000:]))
        else:
            raise common.MachineryError("MC_Kastore failed:\n" + mc["out"][-3000:])
    tmp = tempfile.mkdtemp(prefix="c10_", dir=SHM)
    try:
        files = []
        nfiles = 4 if QUICK else 14
        k = 0
        while len(files) < nfiles:
            if len(files) == 1:
                # a hand-made tree sequence with missing data to the right (sample 2 leaves the tree at 5) and a
                # site layer: the shape on which a stale edge-removal index goes unnoticed by a weakened gate
                t = gen.build_tables(dict(L=10, time=[0, 0, 0, 1, 2], flags=[1, 1, 1, 0, 0],
                                          edges=[dict(left=0, right=10, parent=3, child=0), dict(left=0, right=10, parent=3, child=1),
                                                 dict(left=0, right=5, parent=4, child=2), dict(left=0, right=10, parent=4, child=3)],
                                          sites=[dict(pos=2, anc=0), dict(pos=7, anc=1)],
                                          muts=[dict(site=0, node=3, der=1, parent=-1, time=-1), dict(site=1, node=2, der=0, parent=-1, time=-1)]))
                # ... and a small pedigree: the ragged individuals/parents column with non-trivial offsets
                for par_ in ([], [0], [0, 1]):
                    t.individuals.add_row(parents=par_, location=[1.5] * len(par_), metadata=b"i%d" % len(par_))
                t.nodes.individual = np.array([0, 1, 2, -1, -1], dtype=np.int32)
                # ... and populations with two migration records, so that every id column of the format is present and non-empty
                for _ in range(3):
                    t.populations.add_row()
                t.nodes.population = np.array([0, 1, 2, 0, 0], dtype=np.int32)
                t.migrations.add_row(left=0, right=10, node=1, source=1, dest=0, time=0.5)
                t.migrations.add_row(left=0, right=5, node=2, source=2, dest=0, time=1.5)
                valid = True
            else:
                t, valid = c05.random_collection(rng, valid=True)
            if len(files) != 1 and len(t.individuals) < 3:
                # every stored object carries a small pedigree, so that the ragged parents column has non-trivial offsets
                base_n = len(t.individuals)
                for par_ in ([], [base_n], [base_n, base_n + 1]):
                    t.individuals.add_row(parents=par_, location=[0.5] * len(par_))     # (the table may carry a JSON schema: no metadata)
            if not t.has_index():
                t.build_index()
            if len(t.nodes) < 2:
                continue
            path = os.path.join(tmp, "f%d.trees" % k)
            k += 1
            mode = ["tc", "ts", "skip_tables", "skip_ref", "second", "pipe_tc", "pipe_ts"][len(files) % 7] if not QUICK else ["tc", "ts", "pipe_ts", ["skip_tables", "skip_ref"][SEED % 2]][len(files) % 4]
            if not QUICK and len(files) < 2:
                mode = ["tc", "ts"][len(files)]
            base_off = 0
            if mode == "second":
                t0, _ = c05.random_collection(rng, valid=True)
                with open(path, "wb") as f:
                    t0.dump(f)
                    base_off = f.tell()
                    t.dump(f)
            else:
                t.dump(path)
            data = open(path, "rb").read()[base_off:]
            lay = parse(data)
            faults = make_faults(rng, data, lay, QUICK)
            if mode in ("pipe_tc", "pipe_ts"):
                # non-seekable streams: prefixes (every 7th length in quick mode) and header / descriptor bytes
                faults = [f for f in faults if (f["t"] == "prefix" and (not QUICK or f["len"] % 7 == 0)) or (f["t"] == "byte" and f["off"] < 64 + 64 * lay["nitems"] and len(f["bytes"]) == 1 and f["bytes"][0][1] in (0, 255))]
            if mode in ("skip_tables", "skip_ref", "second") :
                # the lazy / partial read paths: prefixes and descriptor/key bytes only
                faults = [f for f in faults if f["t"] != "byte" or f["off"] < lay["items"][-1]["ks"] + lay["items"][-1]["kl"]]
            files.append(dict(path=path, mode=mode, base_off=base_off, lay=lay, faults=faults, size=len(data)))
        # run all faults in the sanitizer build, isolated
        items = []
        index = []
        B = 60
        for fi, f in enumerate(files):
            for s in range(0, len(f["faults"]), B):
                items.append(dict(path=f["path"], mode=f["mode"], base_off=f["base_off"], faults=f["faults"][s:s + B]))
                index.append((fi, s))
        res = isolate.map_isolated("harness.props.c10:run_faults", items, flavour="san")
        # a crashed batch is re-run fault by fault to attribute the crash
        retry = []
        for ii, r in enumerate(res):
            if isinstance(r, dict) and "crash" in r:
                fi, s = index[ii]
                for q, ft in enumerate(items[ii]["faults"]):
                    retry.append((fi, s + q, dict(path=items[ii]["path"], mode=items[ii]["mode"], base_off=items[ii]["base_off"], faults=[ft])))
        rres = isolate.map_isolated("harness.props.c10:run_faults", [x[2] for x in retry], flavour="san") if retry else []
        for f in files:
            f["out"] = [None] * len(f["faults"])
        for ii, r in enumerate(res):
            fi, s = index[ii]
            if isinstance(r, dict) and "crash" in r:
                continue
            for q, o in enumerate(r):
                files[fi]["out"][s + q] = o
        for (fi, pos, it), r in zip(retry, rres):
            if isinstance(r, dict) and "crash" in r:
                files[fi]["out"][pos] = ["crash", (r.get("stderr") or "")[-1500:]]
            else:
                files[fi]["out"][pos] = r[0]
    finally:
        import shutil
        shutil.rmtree(tmp, ignore_errors=True)
    # code -> spec
    cases = []
    for f in files:
        spec = [dict(type=it["type"], kl=it["kl"], al=it["al"]) for it in f["lay"]["items"]]
        big = any(it["al"] >= (1 << 24) for it in f["lay"]["items"])
        if big:
            raise common.MachineryError("array too long for the model")
        fl = []
        for ft, o in zip(f["faults"], f["out"]):
            d = dict(t=ft["t"], out=o[0])
            if ft["t"] == "prefix":
                d["len"] = ft["len"]
            elif ft["t"] == "byte":
                d["off"] = ft["off"]
            else:
                d["kind"] = ft["kind"]
                d["j"] = ft["j"] + 1
                d["v"] = ft["v"]
            fl.append(d)
        # split into chunks so that TLC validation parallelises
        CH = 1500
        for s in range(0, len(fl), CH):
            cases.append(dict(spec=spec, mode=f["mode"], faults=fl[s:s + CH], file=files.index(f), start=s))
    verdicts, st = common.tlc_validate("Trace_Kastore", cases, timeout=3000)
    chk.add_tlc(st)
    # map per-fault failures back
    total = 0
    counts = {}
    for c in cases:
        f = files[c["file"]]
        fails = verdicts[c["id"]]
        total += len(c["faults"])
        bad = {}
        for name in fails:
            # clause names are "<idx>:<clause>"
            if ":" in name:
                i, cl = name.split(":", 1)
                bad[int(i)] = cl
            else:
                raise common.MachineryError("Trace_Kastore could not evaluate a case: %s %s" % (name, st["eval_errors"].get(c["id"], "")[-1500:]))
        for i, d in enumerate(c["faults"]):
            ft = f["faults"][c["start"] + i]
            o = f["out"][c["start"] + i]
            key = (d["t"], o[0])
            counts[str(key)] = counts.get(str(key), 0) + 1
            chk.note_case(dict(file=c["file"], fault={k: v for k, v in ft.items()}), nontrivial=True)
            if o[0] == "crash":
                chk.extra.setdefault("crashes", []).append(dict(fault={k: v for k, v in ft.items()}, mode=f["mode"], detail=o[1][-1200:],
                                                                 item=[it for it in f["lay"]["items"] if ft["t"] == "byte" and 64 + 64 * f["lay"]["items"].index(it) <= ft["off"] < 128 + 64 * f["lay"]["items"].index(it)][:1]))
                chk.violation("load crashed / sanitizer report on fault %s (mode %s): %s" % ({k: v for k, v in ft.items() if k != "bytes"}, f["mode"], o[1][-800:]),
                              dict(fault=ft, mode=f["mode"], layout=f["lay"]))
                continue
            if (i + 1) in bad:
                cl = bad[i + 1]
                itemkey = ""
                kind = d.get("kind", "")
                if ft["t"] == "byte":
                    off = ft["off"]
                    lay = f["lay"]
                    if 64 <= off < 64 + 64 * lay["nitems"]:
                        itemkey = lay["items"][(off - 64) // 64]["key"]
                        r = (off - 64) % 64
                        kind = "type" if r == 0 else "ks" if 8 <= r < 16 else "kl" if 16 <= r < 24 else "as" if 24 <= r < 32 else "al" if 32 <= r < 40 else "reserved"
                    else:
                        for it in lay["items"]:
                            if it["ks"] <= off < it["ks"] + it["kl"]:
                                itemkey = it["key"]
                                kind = "key"
                        if off < 64:
                            kind = "header"
                elif ft["t"] == "field" and ft["kind"] not in ("nitems", "fsize"):
                    itemkey = f["lay"]["items"][ft["j"]]["key"]
                # known-finding classes (kastore has no integrity check beyond packing); anything else is new
                outc = "same" if o[0] == "same" else "diff" if o[0] == "diff_ok" else o[0]
                if kind == "key":
                    who = "optional" if itemkey in OPTIONAL_KEYS else "required"
                elif kind == "al":
                    who = "any"
                elif kind == "type":
                    # the known blind spot is specific to *offset* columns (uint32 <-> uint64 absorbed by padding); the type of any
                    # other column is checked by tskit against the schema of the table
                    who = "offset" if (itemkey or "").endswith("_offset") else "column:" + (itemkey or "?")
                else:
                    who = itemkey
                skipped_groups = {"skip_tables": ("individuals/", "nodes/", "edges/", "migrations/", "sites/", "mutations/", "populations/",
                                                  "provenances/", "indexes/"), "skip_ref": ("reference_sequence/",)}.get(f["mode"], ())
                if outc == "same" and itemkey and itemkey.startswith(skipped_groups) and kind != "header":
                    # the read path was asked not to read this item: damage to its descriptor / key is invisible to it
                    kind, who = "skipped-item", f["mode"]
                sig = "kastore-no-integrity:%s:%s:%s" % (kind, who, outc) if cl in (
                    "structural_byte_not_rejected", "structural_field_not_rejected") else "%s|%s|%s|%s" % (cl, kind, itemkey, o[0])
                chk.violation("fault %s on %s load: outcome %s (%s) violates clause %s [item %s]" % (
                    {k: v for k, v in ft.items() if k != "bytes"}, f["mode"], o[0], o[1], cl, itemkey),
                    dict(fault=ft, mode=f["mode"], outcome=o, layout=f["lay"]), signature=sig)
            else:
                chk.traces += 1
    chk.extra.update(files=[dict(mode=f["mode"], size=f["size"], items=f["lay"]["nitems"], faults=len(f["faults"])) for f in files],
                     outcomes=counts, faults_total=total)
    f = files[0]
    for ft, o in list(zip(f["faults"], f["out"]))[300:303]:
        chk.sample(dict(fault={k: v for k, v in ft.items() if k != "bytes"}, outcome=o))
    chk.rule = ("for each dumped file: every prefix length, every header/descriptor/key byte x {00,FF,+1,-1,(20,40,80 on top bytes)}, "
                "whole-field boundary and wrap-around substitutions, random data substitutions; distinct by (file, fault); every fault is non-trivial")
    chk.assumptions = ["reserved/padding/minor-version bytes may load an equal object (format declares them ignored)",
                       "files have < 2^24-element arrays", "sanitizer build decides memory safety of the loads"]
    chk.exhaustive = True
    return chk.finish()


if __name__ == "__main__":
    common.assert_imports()
    common.main_wrapper(run)
