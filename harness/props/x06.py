"""X06 - spec growth beyond the listed properties, part 6 (not registered in MANIFEST.json; run with ./check X06).

 RateMapOps.tla / RateMap.tla: tskit.RateMap (python/tskit/intervals.py) on a tick grid.
   (1) model checking: every well-formed map with <= L ticks and rates in {NaN, 0, 1, 3}, every chain of <= 2 slice calls (valid or
       not, trimmed or not): WellFormed, Meaning (a slice integrates and reads like its source inside [l, r) and knows nothing outside),
       Boundaries, ValueIff, CumShape, WholeIsIdentity, Composition, NoNewMass.
   (2) spec -> code: TLC (Dump_RateMap) writes every map with the integral at every tick, the containing interval of every tick and the
       known span, and every slice call with its outcome; each is replayed on a real tskit.RateMap (1 tick = 0.5 units, rate r = r / 4, so
       every expected float is exact): position / rate / left / right / span / mass / missing / counts, get_cumulative_mass (ticks and
       mid-ticks), get_rate, find_index, __getitem__, total_mass, mean_rate, missing_intervals, len / iter, copy, slice() and [l:r]."""
import copy
import math
import random

import numpy as np
import tskit

from harness import common
from harness.common import QUICK, SEED, Check

T = 0.5      # one tick
RS = 0.25    # one rate unit


def real_map(o):
    return tskit.RateMap(position=[p * T for p in o["pos"]], rate=[math.nan if r < 0 else r * RS for r in o["rate"]])


def same_arr(got, want):
    got = np.asarray(got, dtype=float)
    want = np.asarray(want, dtype=float)
    return got.shape == want.shape and bool(np.all((got == want) | (np.isnan(got) & np.isnan(want))))


def compare(rm, o, rng):
    """every view of a real map against the specification's observation o; returns a list of (what, expected, got)"""
    bad = []
    pos = [p * T for p in o["pos"]]
    rate = [math.nan if r < 0 else r * RS for r in o["rate"]]
    n = len(rate)

    def chk(what, got, want):
        if not same_arr(got, want):
            bad.append((what, np.asarray(want).tolist(), np.asarray(got).tolist()))
    chk("position", rm.position, pos)
    chk("rate", rm.rate, rate)
    if bad:
        return bad
    chk("left", rm.left, pos[:-1])
    chk("right", rm.right, pos[1:])
    chk("mid", rm.mid, [(a + b) / 2 for a, b in zip(pos, pos[1:])])
    chk("span", rm.span, [b - a for a, b in zip(pos, pos[1:])])
    chk("mass", rm.mass, [r * (b - a) for r, a, b in zip(rate, pos, pos[1:])])
    chk("missing", rm.missing, [1.0 if r < 0 else 0.0 for r in o["rate"]])
    chk("non_missing", rm.non_missing, [0.0 if r < 0 else 1.0 for r in o["rate"]])
    nmiss = sum(1 for r in o["rate"] if r < 0)
    chk("counts", [rm.num_intervals, rm.num_missing_intervals, rm.num_non_missing_intervals, len(rm)], [n, nmiss, n - nmiss, n - nmiss])
    chk("sequence_length", [rm.sequence_length], [pos[-1]])
    cum = [c * T * RS for c in o["cum"]]
    sl = o["pos"][-1]
    chk("get_cumulative_mass(ticks)", rm.get_cumulative_mass([t * T for t in range(sl + 1)]), cum)
    chk("get_cumulative_mass(mid-ticks)", rm.get_cumulative_mass([(t + 0.5) * T for t in range(sl)]),
        [(a + b) / 2 for a, b in zip(cum, cum[1:])])
    for t in range(sl + 1):
        chk("get_cumulative_mass(scalar %d)" % t, [float(rm.get_cumulative_mass(t * T))], [cum[t]])
    chk("total_mass", [rm.total_mass], [cum[-1]])
    chk("mean_rate", [rm.mean_rate], [cum[-1] / (o["kspan"] * T)])
    for off in (0.0, 0.25):
        chk("find_index(+%s)" % off, [rm.find_index((t + off) * T) for t in range(sl)], o["idx"])
    chk("get_rate", rm.get_rate([(t + 0.25) * T for t in range(sl)]), [rate[i] for i in o["idx"]])
    chk("get_rate(ticks)", rm.get_rate([t * T for t in range(sl)]), [rate[i] for i in o["idx"]])
    for t in range(sl):
        want = rate[o["idx"][t]]
        try:
            got = float(rm[t * T])
        except KeyError:
            got = math.nan
        chk("__getitem__(%d)" % t, [got], [want])
    for x in (-T, sl * T, (sl + 1) * T):
        try:
            rm.find_index(x)
            bad.append(("find_index(%s) raises KeyError" % x, "KeyError", "returned"))
        except KeyError:
            pass
    for x in (-T, (sl + 0.5) * T):
        try:
            rm.get_cumulative_mass([x])
            bad.append(("get_cumulative_mass(%s) raises ValueError" % x, "ValueError", "returned"))
        except ValueError:
            pass
        try:
            rm.get_rate([x])
            bad.append(("get_rate(%s) raises ValueError" % x, "ValueError", "returned"))
        except ValueError:
            pass
    try:
        rm.get_rate([sl * T])
        bad.append(("get_rate(sequence_length) raises ValueError", "ValueError", "returned"))
    except ValueError:
        pass
    chk("missing_intervals", rm.missing_intervals(), np.array([[pos[i], pos[i + 1]] for i in range(n) if o["rate"][i] < 0]).reshape(-1, 2))
    chk("iter", list(rm), [(pos[i] + pos[i + 1]) / 2 for i in range(n) if o["rate"][i] >= 0])
    cp = rm.copy()
    chk("copy.position", cp.position, pos)
    chk("copy.rate", cp.rate, rate)
    d = rm.asdict()
    chk("asdict.position", d["position"], pos)
    chk("asdict.rate", d["rate"], rate)
    for arr in ("position", "rate", "left", "right"):      # the stored arrays and views of them (mid / span / mass are computed afresh)
        try:
            getattr(rm, arr)[0] = 7
            bad.append(("%s is read-only" % arr, "ValueError", "written"))
        except ValueError:
            pass
    return bad


def replay_call(rm, src, c):
    """one slice call on the real map; returns mismatches"""
    l, r, trim = c["l"] * T, c["r"] * T, bool(c["trim"])
    routes = [("slice", lambda: rm.slice(l, r, trim=trim))]
    if not trim:
        routes.append(("[l:r]", lambda: rm[l:r]))
        if c["l"] == 0:
            routes.append(("slice(None, r)", lambda: rm.slice(None, r)))
            routes.append(("[:r]", lambda: rm[:r]))
        if c["r"] == src["pos"][-1]:
            routes.append(("slice(l, None)", lambda: rm.slice(l, None)))
            routes.append(("[l:]", lambda: rm[l:]))
    bad = []
    for name, fn in routes:
        try:
            res = fn()
            out = "ok"
        except KeyError:
            res, out = None, "key"
        except ValueError:
            res, out = None, "value"
        if out != c["out"]:
            bad.append(("%s outcome" % name, c["out"], out))
            continue
        if out == "ok":
            bad.extend(("%s -> %s" % (name, w), e, g) for (w, e, g) in compare(res, c["res"], None))
    # the source is untouched by the call
    bad.extend(("source after slice: %s" % w, e, g) for (w, e, g) in compare(rm, src, None)[:1])
    return bad


def run():
    chk = Check("X06", level="model_checking")
    rng = random.Random(SEED * 7919 + 606)
    mc = common.tlc_mc("RateMap", cfg="MC_RateMap" if QUICK else "MC_RateMap_thorough", timeout=6000)
    if not mc["ok"]:
        if mc["violated"]:
            chk.violation("TLC: design property %s of RateMap violated" % mc["violated"], dict(out=mc["out"][-3000:]))
        else:
            raise common.MachineryError("TLC failed on MC_RateMap:\n" + mc["out"][-2000:])
    chk.add_tlc(mc)
    chk.exhaustive = mc["ok"]
    chk.extra["mc"] = dict(states=mc["states"], transitions=mc["transitions"], wall=round(mc["wall"], 1))
    recs, st = common.tlc_eval_json("Dump_RateMap", cfg="Dump_RateMap" if QUICK else "Dump_RateMap_thorough", timeout=6000)
    if len(recs) < 600:
        raise common.MachineryError("too few maps from Dump_RateMap: %d" % len(recs))
    outcomes = {"ok": 0, "key": 0, "value": 0}
    ncalls = 0
    for rec in recs:
        o = rec["map"]
        chk.note_case(("map", tuple(o["pos"]), tuple(o["rate"])), len(o["rate"]) >= 2 and any(r < 0 for r in o["rate"]))
        rm = real_map(o)
        bad = compare(rm, o, rng)
        if bad:
            chk.violation("RateMap %s: %s expected %s got %s" % ((dict(pos=o["pos"], rate=o["rate"]),) + bad[0]), dict(map=o, diverged=bad),
                          signature="map:" + bad[0][0].split("(")[0])
            continue
        for c in rec["calls"]:
            ncalls += 1
            outcomes[c["out"]] += 1
            bad = replay_call(rm, o, c)
            if bad:
                chk.violation("RateMap %s slice(%s, %s, trim=%s): %s expected %s got %s" % (
                    (dict(pos=o["pos"], rate=o["rate"]), c["l"], c["r"], c["trim"]) + bad[0]), dict(map=o, call=c, diverged=bad),
                    signature="slice:" + bad[0][0].split("(")[0])
            else:
                chk.traces += 1
    chk.evaluations = ncalls
    chk.extra["slice_outcomes"] = outcomes
    if not all(outcomes.values()):
        raise common.MachineryError("a slice outcome was never enumerated: %s" % outcomes)
    # constructor refusals (the complement of WF)
    refusals = [([0], []), ([0, 1], []), ([1, 2], [1]), ([0, 1, 1], [1, 1]), ([0, 2, 1], [1, 1]), ([0, 1], [-1.0]),
                ([0, 1, 2], [math.nan, math.nan]), ([0, 1, 2], [1])]
    for p, r in refusals:
        try:
            tskit.RateMap(position=p, rate=r)
            chk.violation("RateMap(position=%s, rate=%s) accepted" % (p, r), dict(position=p, rate=[str(x) for x in r]), signature="ctor")
        except ValueError:
            pass
    # uniform(L, r) is the one-interval map; a stepped slice is refused
    for sl in (1, 3):
        for r in (0, 1, 3):
            u = tskit.RateMap.uniform(sl * T, r * RS)
            o = dict(pos=[0, sl], rate=[r], cum=[r * t for t in range(sl + 1)], idx=[0] * sl, kspan=sl)
            bad = compare(u, o, rng)
            if bad:
                chk.violation("RateMap.uniform(%s, %s): %s expected %s got %s" % ((sl * T, r * RS) + bad[0]), dict(map=o, diverged=bad),
                              signature="uniform")
    try:
        real_map(recs[-1]["map"])[0:T:1]
        chk.violation("a stepped slice was accepted", dict(map=recs[-1]["map"]), signature="step")
    except TypeError:
        pass
    # binding self-test: one expected value changed; the replay must diverge
    tot = rej = 0
    picks = [rec for rec in recs if len(rec["map"]["rate"]) >= 2]
    for rec in rng.sample(picks, 30):
        ok = [c for c in rec["calls"] if c["out"] == "ok"]
        c = copy.deepcopy(rng.choice(ok))
        k = rng.choice(["cum", "rate", "pos", "idx"])
        if k == "cum":
            c["res"]["cum"][-1] += 1
        elif k == "rate":
            c["res"]["rate"][0] = 2 if c["res"]["rate"][0] != 2 else 1
        elif k == "pos":
            c["res"]["pos"][-1] += 1
        else:
            c["res"]["idx"][0] = 1 if c["res"]["idx"][0] == 0 and len(c["res"]["rate"]) > 1 else c["res"]["idx"][0] - 1
        tot += 1
        rej += 1 if replay_call(real_map(rec["map"]), rec["map"], c) else 0
    chk.extra["binding_selftest"] = dict(corrupted=tot, rejected=rej)
    if rej != tot and not chk.violations:
        raise common.MachineryError("replay accepted %d corrupted slice records" % (tot - rej))
    chk.sample(dict(map=recs[-1]["map"], call=recs[-1]["calls"][5]))
    chk.rule = ("RateMap.tla model-checked over every well-formed map on the tick grid and every chain of <= 2 slice calls (WellFormed, "
                "Meaning, Boundaries, ValueIff, CumShape, WholeIsIdentity, Composition, NoNewMass); every map and every slice call enumerated by "
                "Dump_RateMap replayed on tskit.RateMap with all array views, integrals, lookups, error outcomes and slice routes compared")
    chk.assumptions = ["beyond-property coverage: not listed in MANIFEST.json",
                       "coordinates on a tick grid (0.5 units) and rates in quarter units so that float results are exact; "
                       "read_hapmap and the text / html renderings are not modelled"]
    return chk.finish()


if __name__ == "__main__":
    common.assert_imports()
    common.main_wrapper(run)
