"""X02 - spec growth beyond the listed properties, part 2 (not registered in MANIFEST.json; run with ./check X02).

 code -> spec: Tree.num_lineages, TreeSequence.at / at_index / coiterate / impute_unknown_mutations_time / site(position=),
 Mutation.edge, Site.mutations, Tree.sites() / num_sites / num_mutations and Individual.nodes are recorded on random tree
 sequences and validated by TLC against the positional definitions of TskExtras2.tla."""
import copy
import random

import numpy as np
import tskit

from harness import common, gen
from harness.common import QUICK, SEED, Check


def total(f, default):
    """library calls in recorded observations must not take the driver down: an unexpected exception becomes a recorded value"""
    try:
        return f()
    except Exception as e:  # noqa: BLE001
        return default(e) if callable(default) else default


def one_case(rng):
    if rng.random() < 0.5:
        a = gen.random_abstract(rng, N=rng.randint(3, 7), K=rng.randint(1, 5), max_edges=12, nsites=4, nmuts=3,
                                p_internal_sample=rng.choice([0.0, 0.2]))
    else:
        a = gen.coalescent_abstract(rng, nleaves=rng.randint(2, 4), ninternal=rng.randint(1, 4), K=rng.randint(1, 5))
        gen.add_sites(a, rng, nsites=4, nmuts=3)
    N = len(a["time"])
    K = a["L"]
    # node times doubled so that a known mutation time can sit strictly inside its branch: sites whose mutations all get the time
    # 2*time(node)+1 (below the parent node's 2*time >= 2*time(node)+2, equal for repeated mutations on one node, increasing towards the root)
    a["time"] = [2 * x for x in a["time"]]
    for s in range(len(a["sites"])):
        if rng.random() < 0.5:
            for m in a["muts"]:
                if m["site"] == s:
                    m["time"] = a["time"][m["node"]] + 1
    t = gen.build_tables(a)
    nind = rng.randint(0, 3)
    for _ in range(nind):
        t.individuals.add_row()
    ind = [rng.randint(-1, nind - 1) if nind else -1 for _ in range(N)]
    t.nodes.set_columns(flags=t.nodes.flags, time=t.nodes.time, individual=np.array(ind, dtype=np.int32))
    try:
        ts = t.tree_sequence()
    except tskit.LibraryError:
        # known times that break the parent-before-child time order of mutations: fall back to unknown times
        for m in a["muts"]:
            m["time"] = -1
        t = gen.build_tables(a)
        for _ in range(nind):
            t.individuals.add_row()
        t.nodes.set_columns(flags=t.nodes.flags, time=t.nodes.time, individual=np.array(ind, dtype=np.int32))
        ts = t.tree_sequence()
    rec = dict(L=K, time=a["time"], flags=a["flags"], edges=a["edges"], sites=a["sites"], muts=a["muts"], ind=ind, nind=nind)
    calls = []
    # num_lineages at integer and half-integer times, one query per (tree, time)
    qs = []
    for tree in ts.trees():
        x = int(tree.interval.left)
        for _ in range(2):
            tt = rng.randint(-1, max(a["time"]) + 1)
            qs.append(dict(x=x, t=tt, n=total(lambda: int(tree.num_lineages(float(tt))), -7)))
    calls.append(dict(kind="lineages", queries=qs))
    # at(): the integer cell x and a point strictly inside it
    qs = []
    for _ in range(3):
        x = rng.randrange(K)
        pos = x + rng.choice([0.0, 0.5, 0.999])
        tr = total(lambda: ts.at(pos), None)
        qs.append(dict(x=x, index=-7, left=-7, right=-7) if tr is None else
                  dict(x=x, index=int(tr.index), left=int(tr.interval.left), right=int(tr.interval.right)))
    calls.append(dict(kind="at", queries=qs))
    qs = []
    for _ in range(3):
        i = rng.randint(-ts.num_trees - 1, ts.num_trees)
        try:
            tr = ts.at_index(i)
            qs.append(dict(i=i, raised=0, index=int(tr.index), left=int(tr.interval.left), right=int(tr.interval.right)))
        except IndexError:
            qs.append(dict(i=i, raised=1, index=-7, left=-7, right=-7))
    calls.append(dict(kind="at_index", queries=qs))
    # coiterate with a second tree sequence of the same length
    b = gen.random_abstract(rng, N=rng.randint(2, 5), K=K, max_edges=8, nsites=0, nmuts=0)
    b["L"] = K
    b["edges"] = [e for e in b["edges"] if e["left"] < K]
    for e in b["edges"]:
        e["right"] = min(e["right"], K)
    other = gen.build_tables(b).tree_sequence()
    pieces = total(lambda: [[int(iv.left), int(iv.right), int(t1.index), int(t2.index)] for iv, t1, t2 in ts.coiterate(other)], [[-7, -7, -7, -7]])
    calls.append(dict(kind="coiterate", other=dict(L=K, time=b["time"], flags=b["flags"], edges=b["edges"], sites=[], muts=[]), pieces=pieces))
    calls.append(dict(kind="impute", times=total(lambda: [int(x) for x in ts.impute_unknown_mutations_time()], [-7])))
    calls.append(dict(kind="mut_edge", edges=total(lambda: [int(m.edge) for m in ts.mutations()], [-7])))
    by_pos = []
    for x in range(K):
        try:
            by_pos.append(int(ts.site(position=x).id))
        except ValueError:
            by_pos.append(-1)
    calls.append(dict(kind="site_views", site_muts=total(lambda: [[int(m.id) for m in s.mutations] for s in ts.sites()], [[-7]]), by_pos=by_pos))
    calls.append(dict(kind="tree_sites", sites=[[int(s.id) for s in tr.sites()] for tr in ts.trees()],
                      num_sites=[int(tr.num_sites) for tr in ts.trees()], num_muts=[int(tr.num_mutations) for tr in ts.trees()]))
    calls.append(dict(kind="ind_nodes", nodes=total(lambda: [[int(u) for u in i.nodes] for i in ts.individuals()], [[-7]])))
    return dict(ts=rec, calls=calls)


def run():
    chk = Check("X02", level="model_checking")
    rng = random.Random(SEED * 7919 + 202)
    cases = [one_case(rng) for _ in range(500 if QUICK else 15000)]
    corrupted = []
    for c in cases[:60]:
        d = copy.deepcopy(c)
        d["calls"][0]["queries"][0]["n"] += 1
        corrupted.append(d)
        d = copy.deepcopy(c)
        d["calls"][3]["pieces"][-1][3] += 1
        corrupted.append(d)
        d = copy.deepcopy(c)
        if d["calls"][5]["edges"]:
            d["calls"][5]["edges"][0] = d["calls"][5]["edges"][0] + 1
            corrupted.append(d)
    cv, _ = common.tlc_validate("Trace_Extras2", corrupted, chunks=4)
    acc = sum(1 for d in corrupted if not cv[d["id"]])
    chk.extra["binding_selftest"] = dict(corrupted=len(corrupted), rejected=len(corrupted) - acc)
    if acc:
        raise common.MachineryError("Trace_Extras2 accepted %d corrupted traces" % acc)
    verdicts, st = common.tlc_validate("Trace_Extras2", cases, timeout=3000)
    chk.add_tlc(st)
    hist = {}
    for c in cases:
        chk.note_case(dict(ts=c["ts"]), len(c["ts"]["muts"]) >= 1 and len(c["calls"][3]["pieces"]) >= 2)
        f = verdicts[c["id"]]
        if f:
            for cl in f:
                hist[cl] = hist.get(cl, 0) + 1
            chk.violation("trace rejected by Trace_Extras2: %s %s" % (sorted(f), st["eval_errors"].get(c["id"], "")[-300:]), c)
        else:
            chk.traces += 1
    chk.extra["clause_hist"] = hist
    chk.sample(dict(ts=cases[0]["ts"], calls=cases[0]["calls"][:2]))
    chk.rule = ("random tree sequences (3-8 nodes, <=5 cells, <=4 sites) with individuals on the nodes; num_lineages at every tree for random times; "
                "at() at cell starts and interior points, at_index over the whole range incl. negative and out-of-range indexes; coiterate against a second "
                "random tree sequence; imputed mutation times; Mutation.edge; Site.mutations; site(position=) at every cell; per-tree sites; Individual.nodes; "
                "non-trivial = at least one mutation and a coiteration of at least two pieces")
    chk.assumptions = ["beyond-property coverage: not listed in MANIFEST.json"]
    return chk.finish()


if __name__ == "__main__":
    common.assert_imports()
    common.main_wrapper(run)
