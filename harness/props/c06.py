"""C06 - a Tree's state depends only on where it is, not on how it got there.

 (1) MC: exhaustive TLC run of the TreeCursor machine over the small-scope universe.
 (2) spec -> code: TLC-simulated behaviours (with expected projected states) replayed on
     real tskit.Tree objects.
 (3) code -> spec: random navigation histories on random larger tree sequences, recorded
     and validated by Trace_TreeCursor (every step compared with the model state and with
     the definitional state)."""
import json
import random
import sys

import tskit

from harness import common, gen
from harness.common import QUICK, SEED, Check
from harness.treeobs import observe_min, observe_tree

OPS = ["next", "prev", "first", "last", "clear", "seek", "seek_index", "copy"]


def drive_case(rng, a, th, tracked, sample_lists, nops, cmap, tmap, script=None):
    """run a navigation history on the real library, return the trace case"""
    tables = gen.build_tables(a, cmap, tmap)
    if rng.random() < 0.4:
        gen.add_user_flags(tables, rng)      # user flag bits never matter
    ts = tables.tree_sequence()
    a2 = gen.with_index(a, tables)
    kw = dict(root_threshold=th, sample_lists=sample_lists)
    if tracked:
        kw["tracked_samples"] = tracked
    trees = [tskit.Tree(ts, **kw), tskit.Tree(ts, **kw)]
    ops = []
    L = a["L"]
    for step in range(nops):
        if script is not None:
            if step >= len(script):
                break
            h, op, arg = script[step]
        else:
            h = 0 if rng.random() < 0.75 else 1
            op = rng.choices(OPS, weights=[5, 5, 1, 1, 1, 4, 2, 1])[0]
            arg = 0
            if op == "seek":
                arg = rng.randrange(-1, L + 1) if rng.random() < 0.1 else rng.randrange(0, L)
            elif op == "seek_index":
                nt = ts.num_trees
                arg = rng.randrange(-1, nt + 1) if rng.random() < 0.1 else rng.randrange(0, nt)
        t = trees[h]
        ret = 0
        if op == "next":
            ret = 1 if t.next() else 0
        elif op == "prev":
            ret = 1 if t.prev() else 0
        elif op == "first":
            t.first()
        elif op == "last":
            t.last()
        elif op == "clear":
            t.clear()
        elif op == "seek":
            try:
                # positions inside the cell [arg, arg+1): also try a non-breakpoint point
                x = cmap(arg)
                if 0 <= arg < L and rng.random() < 0.5:
                    x = (cmap(arg) + cmap(arg + 1)) / 2
                t.seek(x)
                ret = 1
            except ValueError:
                ret = 0
        elif op == "seek_index":
            try:
                if arg < 0:
                    raise IndexError  # negative indexes are python sugar; modelled as out of range
                t.seek_index(arg)
                ret = 1
            except IndexError:
                ret = 0
        elif op == "copy":
            trees[1 - h] = t.copy()
        ev = dict(h=h, op=op, arg=arg, ret=ret, obs=observe_tree(trees[h], cmap),
                  other=observe_tree(trees[1 - h], cmap) if op == "copy" else observe_min(trees[1 - h]))
        ops.append(ev)
    return dict(ts=a2, th=th, tracked=list(tracked), sample_lists=int(sample_lists), ops=ops,
                maps=[cmap.kind, tmap.kind, tmap.offset])


def replay_behaviour(b, rng):
    """spec -> code: replay one TLC behaviour on a real Tree, compare after every action"""
    a = dict(b["ts"])
    a.setdefault("sites", [])
    a.setdefault("muts", [])
    cmap, tmap = gen.random_maps(rng)
    tables = gen.build_tables(a, cmap, tmap)
    if [int(x) for x in tables.indexes.edge_insertion_order] != list(a["ins"]) or \
            [int(x) for x in tables.indexes.edge_removal_order] != list(a["rem"]):
        return "index order differs from the spec's"
    ts = tables.tree_sequence()
    kw = dict(root_threshold=b["th"], sample_lists=rng.random() < 0.5)
    if b["tracked"]:
        kw["tracked_samples"] = list(b["tracked"])
    t = tskit.Tree(ts, **kw)
    for i, ev in enumerate(b["hist"]):
        op, arg = ev["op"], ev["arg"]
        if op == "seek":
            x = cmap(arg) if rng.random() < 0.5 else (cmap(arg) + cmap(arg + 1)) / 2
            t.seek(x)
        elif op == "seek_index":
            t.seek_index(arg)
        else:
            r = getattr(t, op)()
            if op in ("next", "prev") and bool(r) != (ev["exp"]["index"] != -1):
                return "step %d %s returned %r" % (i, op, r)
        ob = observe_tree(t, cmap, full=False)
        exp = ev["exp"]
        N = ts.num_nodes
        got = dict(index=ob["index"], left=ob["left"], right=ob["right"], parent=ob["parent"][:N], edge=ob["edge"][:N],
                   ns=ob["ns"], nt=ob["nt"], roots=sorted(ob["roots"]), numEdges=ob["num_edges"])
        want = dict(exp)
        want["roots"] = sorted(want["roots"])
        if got != want:
            diff = [k for k in want if got[k] != want[k]]
            return "step %d %s(%s): fields %s differ: got %s want %s" % (
                i, op, arg, diff, {k: got[k] for k in diff}, {k: want[k] for k in diff})
    return None


def random_case(rng, big=True, permute=None):
    # half of the cases are rich in internal samples (nested sample ancestors), with distinct times
    pis = rng.choice([0.15, 0.15, 0.6, 0.9])
    mt = rng.choice([3, 3, 8])
    if big:
        a = gen.random_abstract(rng, N=rng.randint(2, 8), K=rng.randint(1, 6), max_edges=14, p_internal_sample=pis, max_time=mt)
    else:
        a = gen.random_abstract(rng, N=rng.randint(2, 5), K=rng.randint(1, 3), max_edges=5, nsites=2, nmuts=1, p_internal_sample=pis, max_time=mt)
    if permute is not None:      # node ids in no particular order
        a = gen.permute_nodes(a, random.Random(permute))
    samples = [u for u in range(len(a["time"])) if a["flags"][u]]
    th = rng.choice([1, 1, 2, 3])
    r = rng.random()
    tracked = list(samples) if r < 0.35 else sorted(rng.sample(samples, rng.randint(0, len(samples)))) if samples and r < 0.8 else []
    cmap, tmap = gen.random_maps(rng)
    return drive_case(rng, a, th, tracked, rng.random() < 0.5, rng.randint(5, 40), cmap, tmap)


def gap_case(rng):
    """tree sequences with long stretches without edges (leading, trailing or interior, often longer than half the genome) and
    histories made of seeks from the null state into / next to the gap followed by steps: the seek-from-null cursors at their limits"""
    a = gen.random_abstract(rng, N=rng.randint(2, 6), K=rng.randint(3, 7), max_edges=10, nsites=rng.choice([0, 2]), nmuts=1, p_internal_sample=0.2)
    L = a["L"]
    kind = rng.choice(["lead", "lead", "trail", "trail", "mid"])
    glen = rng.randint(max(1, L // 2), L - 1)
    g0, g1 = (0, glen) if kind == "lead" else (L - glen, L) if kind == "trail" else (1, max(2, min(L - 1, 1 + glen)))
    edges = []
    for e in a["edges"]:
        if e["left"] < g0:
            edges.append(dict(e, right=min(e["right"], g0)))
        if e["right"] > g1:
            edges.append(dict(e, left=max(e["left"], g1)))
    edges.sort(key=lambda e: (a["time"][e["parent"]], e["parent"], e["child"], e["left"]))
    a = dict(a, edges=edges, sites=[], muts=[])
    samples = [u for u in range(len(a["time"])) if a["flags"][u]]
    tracked = list(samples) if rng.random() < 0.5 else []
    script = []
    for _ in range(rng.randint(2, 5)):
        script.append((0, "clear", 0))
        script.append((0, "seek", rng.randrange(0, L)))
        for _k in range(rng.randint(1, 4)):
            script.append((0, rng.choice(["next", "prev", "next", "prev", "seek"]), rng.randrange(0, L)))
    cmap, tmap = gen.random_maps(rng)
    return drive_case(rng, a, rng.choice([1, 1, 2]), tracked, rng.random() < 0.5, len(script), cmap, tmap, script=script)


def is_nontrivial(case):
    # >= 2 trees, a direction reversal and a seek from the null state
    ops = [e["op"] for e in case["ops"]]
    ntrees = len({e["obs"]["index"] for e in case["ops"]})
    rev = any(a == "next" and b == "prev" or a == "prev" and b == "next" for a, b in zip(ops, ops[1:]))
    return ntrees >= 3 and rev


def run():
    chk = Check("C06")
    rng = random.Random(SEED * 7919 + 6)
    # (1) model checking
    mc = common.tlc_mc("MC_TreeCursor", cfg="MC_TreeCursor" if QUICK else "MC_TreeCursor_thorough",
                       timeout=3000)
    chk.add_tlc(mc)
    chk.extra["mc"] = dict(states=mc["states"], transitions=mc["transitions"], wall=round(mc["wall"], 1),
                           config="MC_TreeCursor.cfg" if QUICK else "MC_TreeCursor_thorough.cfg", completed=mc["ok"])
    if not mc["ok"]:
        if mc["violated"] or "Assert" in mc["out"] or "violated" in mc["out"]:
            chk.violation("TLC: TreeCursor design model violates %s\n%s" % (mc["violated"], mc["out"][-3000:]),
                          dict(kind="mc", out=mc["out"][-6000:]))
        else:
            raise common.MachineryError("MC_TreeCursor did not complete:\n" + mc["out"][-3000:])
    chk.exhaustive = mc["ok"]
    # (2) spec -> code
    import json, os, tempfile, shutil
    uni, ust = common.tlc_eval_json("Dump_Universe", cfg="Dump_Universe_S")
    chk.add_tlc(ust)
    # prefer elements with nested sample ancestors and several trees
    def score(a):
        ch = {(e["parent"], e["child"]) for e in a["edges"]}
        nested = any(a["flags"][p] and a["flags"][c] for p, c in ch)
        return (2 if nested else 0) + (1 if len({e["left"] for e in a["edges"]} | {e["right"] for e in a["edges"]}) >= 3 else 0)
    pool = sorted(uni, key=lambda a: -score(a))[:max(4000, len(uni) // 4)]
    pick = rng.sample(pool, 150 if QUICK else 1500)
    tmpd = tempfile.mkdtemp(prefix="simts_")
    try:
        with open(os.path.join(tmpd, "ts.ndjson"), "w") as fh:
            for a in pick:
                fh.write(json.dumps(a) + "\n")
        beh, _ = common.tlc_simulate_json("Sim_TreeCursor", num=20 if QUICK else 400, depth=11, seed=SEED + 1,
                                          timeout=3000, env={"SIMTS": os.path.join(tmpd, "ts.ndjson")})
    finally:
        shutil.rmtree(tmpd, ignore_errors=True)
    nsteps = 0
    for b in beh:
        err = replay_behaviour(b, rng)
        nsteps += len(b["hist"])
        chk.note_case(dict(s2c=b["ts"], th=b["th"], tr=b["tracked"], ops=[(e["op"], e["arg"]) for e in b["hist"]]),
                      len({e["exp"]["index"] for e in b["hist"]}) >= 3)
        if err:
            chk.violation("spec->code replay: " + err, b)
        else:
            chk.traces += 1
    chk.extra["s2c"] = dict(behaviours=len(beh), steps=nsteps)
    if not beh:
        raise common.MachineryError("no behaviours from Sim_TreeCursor")
    # (3) code -> spec
    n = 400 if QUICK else 6000
    cases = [random_case(rng, big=(i % 3 != 0), permute=(SEED * 1000003 + i if i % 4 == 1 else None)) for i in range(n)] + [gap_case(rng) for _ in range(n // 3)]
    # binding self-test: corrupt one recorded field in copies of accepted-looking traces;
    # every corrupted trace must be rejected, otherwise the trace spec is vacuous
    import copy
    corrupted = []
    for c in cases[:40]:
        if len(c["ops"]) < 3:
            continue
        d = copy.deepcopy(c)
        e = d["ops"][rng.randrange(len(d["ops"]))]
        what = rng.choice(["parent", "ns", "index", "roots", "right_sib", "ret"])
        if what == "parent":
            e["obs"]["parent"][0] = 0 if e["obs"]["parent"][0] != 0 else -1
        elif what == "ns":
            e["obs"]["ns"][-2] += 1
        elif what == "index":
            e["obs"]["index"] += 1
        elif what == "roots":
            e["obs"]["roots"] = e["obs"]["roots"][1:] if e["obs"]["roots"] else [0]
        elif what == "right_sib":
            e["obs"]["right_sib"][0] = 0 if e["obs"]["right_sib"][0] != 0 else 1
        elif what == "ret":
            if e["op"] not in ("next", "prev"):
                continue
            e["ret"] = 1 - e["ret"]
        d["corrupt"] = what
        corrupted.append(d)
        if len(corrupted) >= 8:
            break
    cv, cst = common.tlc_validate("Trace_TreeCursor", corrupted, chunks=4)
    accepted = [d["corrupt"] for d in corrupted if not cv[d["id"]]]
    chk.extra["binding_selftest"] = dict(corrupted=len(corrupted), rejected=len(corrupted) - len(accepted))
    if accepted:
        raise common.MachineryError("trace spec accepted corrupted traces: %s" % accepted)
    verdicts, st = common.tlc_validate("Trace_TreeCursor", cases)
    chk.add_tlc(st)
    chk.extra["c2s"] = dict(cases=len(cases), steps=sum(len(c["ops"]) for c in cases), tlc_wall=round(st["wall"], 1))
    for c in cases:
        chk.note_case(dict(ts=c["ts"], ops=[(e["h"], e["op"], e["arg"]) for e in c["ops"]], th=c["th"], tr=c["tracked"]),
                      is_nontrivial(c))
        f = verdicts[c["id"]]
        if f:
            chk.violation("trace rejected by Trace_TreeCursor: failing clauses %s %s" % (f, st["eval_errors"].get(c["id"], "")[-600:]), c)
        else:
            chk.traces += 1
    for c in cases[:3]:
        chk.sample(dict(ts=c["ts"], th=c["th"], tracked=c["tracked"],
                        ops=[[e["h"], e["op"], e["arg"], e["ret"], e["obs"]["index"]] for e in c["ops"]][:12]))
    chk.rule = ("MC: all reachable cursor states over U(4 nodes, L=3, <=3 edges) x options; C2S: random navigation "
                "histories (two handles, copy) on random ts; a case is non-trivial when it visits >=3 distinct "
                "indexes (incl. null) and reverses direction; distinct by (ts, options, op sequence)")
    chk.assumptions = ["coordinates/times enter only through their order (monotone maps id/third/milli/big/half)",
                       "child order is not compared (sets)", "TLC bounded universe, not an unbounded proof"]
    return chk.finish()


if __name__ == "__main__":
    common.assert_imports()
    common.main_wrapper(run)
