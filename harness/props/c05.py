"""C05 - storage and interchange are lossless: dump/load, dict, pickle, copy round-trip.

 MC: the Stream machine (FIFO of stored objects, byte positions, distinct EOF) and the algebraic
 laws of the equality definition are model-checked by TLC (MC_Stream).
 code -> spec: real histories on files and pipes (several dumps back to back, then loads until
 EOF), round-trip identities (path / file object / asdict-fromdict / pickle / copy / tree
 sequence dump-load, with and without index, force_offset_64) and equals()/assert_equals() under
 all 64 ignore_* combinations are recorded and validated by TLC (Trace_Stream).  Byte equality of
 every column is established by the harness (trusted: numpy tobytes comparison)."""
import copy
import io
import os
import pickle
import random
import tempfile

import numpy as np
import tskit

from harness import common, gen, tcgen
from harness.common import QUICK, SEED, Check

SHM = "/dev/shm" if os.path.isdir("/dev/shm") else None
COMPS = ["top", "ts_meta", "table_data", "table_meta", "prov_rec", "prov_ts", "ref_data", "ref_meta"]


def flat(d, prefix=""):
    out = {}
    for k, v in d.items():
        if isinstance(v, dict):
            out.update(flat(v, prefix + k + "/"))
        elif isinstance(v, np.ndarray):
            out[prefix + k] = (str(v.dtype), v.shape, v.tobytes())
        else:
            out[prefix + k] = v
    return out


def cols(t, with_index=True):
    """everything a table collection holds, read column by column through the attributes of the tables (not through asdict(), which is
    one of the routes under test and must not be the observer as well)"""
    d = {}
    for name in tskit.TABLE_NAMES:
        tab = getattr(t, name)
        for c in tab.column_names:
            v = np.asarray(getattr(tab, c))
            d["%s/%s" % (name, c)] = (str(v.dtype), v.shape, v.tobytes())
        if hasattr(tab, "metadata_schema"):
            d["%s/metadata_schema" % name] = repr(tab.metadata_schema)
    d["sequence_length"] = float(t.sequence_length).hex()
    d["time_units"] = t.time_units
    d["metadata"] = bytes(t.metadata_bytes)
    d["metadata_schema"] = repr(t.metadata_schema)
    rs = t.reference_sequence
    d["reference_sequence"] = (rs.data, rs.url, bytes(rs.metadata_bytes), repr(rs.metadata_schema)) if t.has_reference_sequence() else None
    if with_index:
        d["has_index"] = bool(t.has_index())
        ix = t.indexes
        for c in ("edge_insertion_order", "edge_removal_order"):
            v = getattr(ix, c)
            d["indexes/" + c] = None if v is None else (str(np.asarray(v).dtype), np.asarray(v).shape, np.asarray(v).tobytes())
    return d


def rb(rng, n=None):
    return bytes(rng.randrange(256) for _ in range(rng.choice([0, 0, 1, 5]) if n is None else n))


def permute_index_ties(t, rng):
    """a user-supplied index that is valid but not the one build_index() writes: entries that tie on the index key
    (left, time of parent) / (right, -time of parent) exchanged; kept only if the collection still loads as a tree sequence"""
    ins = t.indexes.edge_insertion_order.copy()
    rem = t.indexes.edge_removal_order.copy()
    tm = t.nodes.time
    changed = False
    for i in range(len(ins) - 1):
        a_, b_ = t.edges[int(ins[i])], t.edges[int(ins[i + 1])]
        if a_.left == b_.left and tm[a_.parent] == tm[b_.parent] and rng.random() < 0.7:
            ins[i], ins[i + 1] = ins[i + 1], ins[i]
            changed = True
    for i in range(len(rem) - 1):
        a_, b_ = t.edges[int(rem[i])], t.edges[int(rem[i + 1])]
        if a_.right == b_.right and tm[a_.parent] == tm[b_.parent] and rng.random() < 0.7:
            rem[i], rem[i + 1] = rem[i + 1], rem[i]
            changed = True
    if changed:
        old = t.indexes
        t.indexes = tskit.TableCollectionIndexes(edge_insertion_order=ins, edge_removal_order=rem)
        try:
            ts = t.tree_sequence()
            ref = t.copy()
            ref.drop_index()
            ref.build_index()
            if [list(x.parent_array) for x in ts.trees()] != [list(x.parent_array) for x in ref.tree_sequence().trees()]:
                raise tskit.LibraryError("different trees")
        except Exception:
            t.indexes = old
    return t


def random_collection(rng, valid=None):
    """arbitrary table collection (valid or not) with metadata everywhere"""
    a = gen.random_abstract(rng, N=rng.randint(1, 6), K=rng.randint(1, 5), max_edges=8, nsites=3, nmuts=3,
                            nalleles=len(gen.ALLELES))
    tc = tcgen.from_abstract(a, rng)
    make_invalid = (rng.random() < 0.4) if valid is None else (not valid)
    if make_invalid:
        # arbitrary departures from validity: storage must not care
        for _ in range(rng.randint(1, 3)):
            tab = rng.choice(["nodes", "edges", "muts", "sites"])
            if tc[tab]:
                row = rng.choice(tc[tab])
                f = rng.choice(sorted(k for k in row if k != "flags"))
                row[f] = rng.choice([tcgen.NAN, tcgen.UNK, tcgen.PINF, -5, 7, 100]) if f in ("time", "left", "right", "pos") else rng.choice([-1, 0, 50])
        if rng.random() < 0.5 and len(tc["edges"]) > 1:
            rng.shuffle(tc["edges"])
    cm, tm = gen.random_maps(rng)
    t = tcgen.build_tc(tc, cm, tm)
    # metadata on every row, schemas, provenance, reference sequence, time units, top-level metadata
    for name in ["nodes", "edges", "sites", "mutations", "migrations", "individuals", "populations"]:
        tab = getattr(t, name)
        if rng.random() < 0.3:
            # with a schema the stored bytes must decode under it (a schema over undecodable bytes is an
            # inconsistent object; assert_equals decodes rows to build its message)
            tab.metadata_schema = tskit.MetadataSchema({"codec": "json", "description": rng.choice(["x", "é✓ non-ascii", ""])})
            if len(tab):
                tab.packset_metadata([rng.choice([b"{}", b'{"a": 1}', '{"é": "✓"}'.encode()]) for _ in range(len(tab))])
        elif len(tab) and rng.random() < 0.8:
            tab.packset_metadata([rb(rng) for _ in range(len(tab))])
    if len(t.individuals) and rng.random() < 0.7:
        t.individuals.packset_location([np.array([rng.random() for _ in range(rng.choice([0, 1, 3]))]) for _ in range(len(t.individuals))])
    if len(t.individuals) >= 2 and rng.random() < 0.7:
        # pedigree-style parents (earlier rows only, so that the table stays valid): ragged int32 column with its own offsets
        t.individuals.packset_parents([np.array(sorted(rng.sample(range(j), rng.randint(0, min(j, 2)))) if j else [], dtype=np.int32)
                                       for j in range(len(t.individuals))])
    for _ in range(rng.randint(1, 3)):
        t.provenances.add_row(record=rng.choice(["{}", "é✓", "", "rec"]), timestamp=rng.choice(["2020", "", "tøday"]))
    if rng.random() < 0.5:
        t.metadata_schema = tskit.MetadataSchema({"codec": "json"})
        t.metadata = {"k": rng.choice(["v", "é✓", 3])}
    elif rng.random() < 0.5:
        t.metadata = rb(rng, 4)
    if rng.random() < 0.5:
        t.time_units = rng.choice(["generations", "ticks", "ünits", ""])
    if rng.random() < 0.5:
        t.reference_sequence.data = rng.choice(["ACGT" * 3, "", "N"])
        if rng.random() < 0.5:
            t.reference_sequence.url = "http://x/é"
        if rng.random() < 0.5:
            t.reference_sequence.metadata_schema = tskit.MetadataSchema({"codec": "json"})
            t.reference_sequence.metadata = {"a": 1}
    if not make_invalid and rng.random() < 0.7:
        t.build_index()
        if rng.random() < 0.4 and len(t.edges) > 1:
            permute_index_ties(t, rng)
    if valid is None and rng.random() < 0.15 and len(t.edges):
        # a stale index: built, then the edge table changed without re-indexing (has_index() is False from here on)
        t.build_index() if make_invalid is False else None
        if t.has_index():
            e = t.edges[0]
            t.edges.append(e)
            return t, False
    return t, (not make_invalid)


def variant_of(rng, t, change):
    """copy of t with exactly the listed components changed"""
    b = t.copy()
    for c in change:
        if c == "top":
            if rng.random() < 0.5:
                b.sequence_length = t.sequence_length + 1
            else:
                b.time_units = t.time_units + "x"
        elif c == "ts_meta":
            if isinstance(t.metadata, bytes) and not repr(t.metadata_schema) :
                b.metadata = t.metadata + b"x"
            else:
                b.metadata_schema = tskit.MetadataSchema({"codec": "json", "title": "changed"})
        elif c == "table_data":
            b.nodes.flags = t.nodes.flags + 2
        elif c == "table_meta":
            if rng.random() < 0.5:
                old = tskit.unpack_bytes(t.nodes.metadata, t.nodes.metadata_offset)
                b.nodes.packset_metadata([b'{"changed": 1}' if repr(t.nodes.metadata_schema) else m + b"!" for m in old])
            else:
                b.sites.metadata_schema = tskit.MetadataSchema({"codec": "json", "title": "changed"})
        elif c == "prov_rec":
            b.provenances.packset_record([r.record + "x" for r in t.provenances])
        elif c == "prov_ts":
            b.provenances.packset_timestamp([r.timestamp + "x" for r in t.provenances])
        elif c == "ref_data":
            b.reference_sequence.data = t.reference_sequence.data + "A"
        elif c == "ref_meta":
            b.reference_sequence.metadata_schema = tskit.MetadataSchema({"codec": "json", "title": "changed"})
    return b


def all_ignores(a, b):
    eq, aeq = [], []
    for n in range(64):
        kw = dict(ignore_metadata=bool(n & 1), ignore_ts_metadata=bool(n & 2), ignore_tables=bool(n & 4),
                  ignore_provenance=bool(n & 8), ignore_timestamps=bool(n & 16), ignore_reference_sequence=bool(n & 32))
        eq.append(1 if a.equals(b, **kw) else 0)
        try:
            (a if hasattr(a, "assert_equals") else a.tables).assert_equals(b if hasattr(b, "assert_equals") else b.tables, **kw)
            aeq.append(1)
        except AssertionError:
            aeq.append(0)
    return eq, aeq


def cols_idx(x):
    """the index is part of the object only while it is current (has_index): a stale one (rows added after indexing) is no index"""
    return cols(x, with_index=x.has_index())


def roundtrips(rng, t, valid):
    out = []
    base = cols_idx(t)

    def route(name, fn, judge=None):
        """one storage route; an exception on the way is a failed round trip, not a harness failure"""
        try:
            obj = fn()
            same = (cols_idx(obj) == base) if judge is None else judge(obj)
            out.append(dict(via=name, same=1 if same else 0))
        except Exception as e:
            out.append(dict(via=name, same=0, error="%s: %s" % (type(e).__name__, str(e)[:80])))
    fd, path = tempfile.mkstemp(suffix=".trees", dir=SHM)
    os.close(fd)
    try:
        def by_path():
            t.dump(path)
            return tskit.TableCollection.load(path)

        def by_file():
            with open(path, "wb") as f:
                t.dump(f)
            with open(path, "rb") as f:
                return tskit.TableCollection.load(f)
        route("dump(path)/TableCollection.load", by_path)
        route("dump(file)/load(file)", by_file)
        if valid and t.has_index():
            ts = t.tree_sequence()

            def ts_file():
                ts.dump(path)
                return tskit.load(path).dump_tables()
            route("ts.dump/tskit.load", ts_file)
            route("pickle(ts)", lambda: pickle.loads(pickle.dumps(ts)).dump_tables())
            route("deepcopy(ts)", lambda: copy.deepcopy(ts).dump_tables())
            route("ts.tables", lambda: ts.tables.copy() if hasattr(ts.tables, "copy") else ts.dump_tables())
            ts.dump(path)
        else:
            t.dump(path)
        # skip_* paths keep the top-level information
        route("skip_tables", lambda: tskit.TableCollection.load(path, skip_tables=True),
              lambda st: st.sequence_length == t.sequence_length and st.time_units == t.time_units and st.metadata_bytes == t.metadata_bytes and len(st.nodes) == 0)
        route("skip_reference_sequence", lambda: tskit.TableCollection.load(path, skip_reference_sequence=True),
              lambda sr: sr.equals(t, ignore_reference_sequence=True) and not sr.has_reference_sequence())
    finally:
        os.remove(path)
    route("asdict/fromdict", lambda: tskit.TableCollection.fromdict(t.asdict()))
    route("asdict(force_offset_64)/fromdict", lambda: tskit.TableCollection.fromdict(t.asdict(force_offset_64=True)))
    route("pickle", lambda: pickle.loads(pickle.dumps(t)))
    route("copy", lambda: t.copy())
    route("copy.deepcopy", lambda: copy.deepcopy(t))
    return out


def stream_history(rng, objs, use_pipe):
    """objs: list of (tables, valid). returns ops"""
    ops = []
    n = len(objs)
    order = [rng.randrange(n) for _ in range(rng.randint(1, 4))]
    colsets = [cols(t, with_index=False) for t, _ in objs]

    def identify(x):
        c = cols(x, with_index=False)
        for i, cs in enumerate(colsets):
            if cs == c:
                return i
        return -1
    if use_pipe:
        r, w = os.pipe()
        wf = os.fdopen(w, "wb")
        rf = os.fdopen(r, "rb")
    else:
        fd, path = tempfile.mkstemp(suffix=".trees", dir=SHM)
        wf = os.fdopen(fd, "wb")
    sizes = []
    try:
        wpos = 0
        for i in order:
            t, valid = objs[i]
            if valid and t.has_index() and rng.random() < 0.5:
                t.tree_sequence().dump(wf)
            else:
                t.dump(wf)
            if wf.closed:      # the stream is the caller's: a dump must leave it open for the next store
                ops.append(dict(op="dump", obj=i, size=0, wpos=0, closed=1))
                if use_pipe:
                    rf.close()
                return ops
            wf.flush()
            if use_pipe:
                # size of this object measured separately on a file
                fd2, p2 = tempfile.mkstemp(dir=SHM)
                os.close(fd2)
                t.dump(p2)
                wpos += os.path.getsize(p2)
                os.remove(p2)
            else:
                wpos = wf.tell()
            sizes.append(wpos - sum(sizes))
            ops.append(dict(op="dump", obj=i, size=sizes[-1], wpos=wpos, closed=0))
        wf.close()
        if not use_pipe:
            rf = open(path, "rb")
        for kk in range(len(order) + rng.randint(1, 2)):
            ev = dict(op="load", got=-1, eof=0, err=0, rpos=-1)
            want = order[kk] if kk < len(order) else None
            use_ts = want is not None and objs[want][1] and objs[want][0].has_index() and rng.random() < 0.5
            try:
                x = tskit.load(rf) if use_ts else tskit.TableCollection.load(rf)
                ev["got"] = identify(x.dump_tables() if use_ts else x)
            except EOFError:
                ev["eof"] = 1
            except Exception as e:
                ev["err"] = 1
                ev["msg"] = "%s: %s" % (type(e).__name__, str(e)[:80])
            if not use_pipe:
                ev["rpos"] = rf.tell()
            else:
                ev["rpos"] = -1
            ops.append(ev)
        rf.close()
    finally:
        if not use_pipe:
            os.remove(path)
    return ops


def make_case(rng, edgeless=False):
    objs = []
    for i in range(rng.randint(2, 3)):
        t, valid = random_collection(rng)
        if edgeless and i == 0:
            # a collection without a single edge that is nevertheless indexed (has_index() holds over two empty arrays); top-level metadata as
            # raw bytes without a schema
            t.edges.clear()
            try:
                t.build_index()
            except tskit.LibraryError:
                pass                    # build_index looks at the references of an invalid collection; then it simply stays unindexed
            valid = False
            if not repr(t.metadata_schema):
                t.metadata = b"\x00raw\xff"
        t.sequence_length = t.sequence_length + 1000 * (i + 1)   # make the objects pairwise distinct
        objs.append((t, valid))
    t0, v0 = objs[0]
    case = dict(roundtrips=roundtrips(rng, t0, v0), eqs=[], ops=[])
    for _ in range(2):
        change = [c for c in COMPS if rng.random() < 0.3]
        b = variant_of(rng, t0, change)
        eq, aeq = all_ignores(t0, b)
        tseq, tsaeq = [], []
        try:        # the same through the TreeSequence facade, when both are valid tree sequences
            tsa, tsb = t0.tree_sequence(), b.tree_sequence()
            tseq, tsaeq = all_ignores(tsa, tsb)
        except (tskit.LibraryError, ValueError):
            pass
        a_rec = {c: 0 for c in COMPS}
        b_rec = {c: (1 if c in change else 0) for c in COMPS}
        case["eqs"].append(dict(a=a_rec, b=b_rec, eq=eq, aeq=aeq, tseq=tseq, tsaeq=tsaeq, change=change))
    use_pipe = rng.random() < 0.4
    case["pipe"] = 1 if use_pipe else 0
    case["ops"] = stream_history(rng, objs, use_pipe)
    case["desc"] = [dict(valid=v, indexed=t.has_index(), nodes=len(t.nodes), edges=len(t.edges)) for t, v in objs]
    return case


def run():
    chk = Check("C05")
    rng = random.Random(SEED * 7919 + 5)
    mc = common.tlc_mc("MC_Stream", timeout=3000)
    chk.add_tlc(mc)
    chk.extra["mc"] = dict(states=mc["states"], transitions=mc["transitions"], completed=mc["ok"])
    if not mc["ok"]:
        if "violated" in mc["out"] or "Assumption" in mc["out"]:
            chk.violation("TLC: Stream model / equality laws violated\n" + mc["out"][-2000:], dict(out=mc["out"][-4000:]))
        else:
            raise common.MachineryError("MC_Stream failed:\n" + mc["out"][-3000:])
    chk.exhaustive = mc["ok"]
    cases = [make_case(rng, edgeless=(i_ % 12 == 5)) for i_ in range(600 if QUICK else 20000)]
    # binding self-test
    corrupted = []
    for c in cases[:30]:
        d = copy.deepcopy(c)
        what = rng.choice(["got", "rpos", "eq", "roundtrip"])
        loads = [e for e in d["ops"] if e["op"] == "load" and not e["eof"]]
        if what == "got" and loads:
            loads[0]["got"] = loads[0]["got"] + 1
        elif what == "rpos" and loads and not d["pipe"]:
            loads[0]["rpos"] += 8
        elif what == "eq":
            d["eqs"][0]["eq"][0] = 1 - d["eqs"][0]["eq"][0]
            d["eqs"][0]["aeq"][0] = d["eqs"][0]["eq"][0]
        elif what == "roundtrip":
            d["roundtrips"][0]["same"] = 0
        else:
            continue
        corrupted.append(d)
        if len(corrupted) >= 8:
            break
    cv, _ = common.tlc_validate("Trace_Stream", corrupted, chunks=4)
    if any(not cv[d["id"]] for d in corrupted):
        raise common.MachineryError("Trace_Stream accepted corrupted traces")
    chk.extra["binding_selftest"] = dict(corrupted=len(corrupted), rejected=len(corrupted))
    verdicts, st = common.tlc_validate("Trace_Stream", cases)
    chk.add_tlc(st)
    for c in cases:
        chk.note_case(dict(desc=c["desc"], ops=[(e["op"], e.get("obj"), e.get("got")) for e in c["ops"]],
                           ch=[e["change"] for e in c["eqs"]], pipe=c["pipe"]),
                      len([e for e in c["ops"] if e["op"] == "dump"]) >= 2)
        f = verdicts[c["id"]]
        if f:
            bad_rt = [r["via"] for r in c["roundtrips"] if not r["same"]]
            chk.violation("trace rejected by Trace_Stream: %s (round trips failing: %s) %s" % (f, bad_rt, st["eval_errors"].get(c["id"], "")[-300:]), c)
        else:
            chk.traces += 1
    chk.extra.update(cases=len(cases), pipes=sum(c["pipe"] for c in cases),
                     roundtrip_checks=sum(len(c["roundtrips"]) for c in cases),
                     equality_evaluations=sum(64 * len(c["eqs"]) for c in cases),
                     invalid_collections=sum(1 for c in cases for d in c["desc"] if not d["valid"]))
    c = cases[0]
    chk.sample(dict(desc=c["desc"], ops=c["ops"], roundtrips=c["roundtrips"][:4], eq0=dict(change=c["eqs"][0]["change"], eq=c["eqs"][0]["eq"][:8])))
    chk.rule = ("random table collections (40% invalid: NaN/unknown/inf values, out-of-range ids, shuffled edges), metadata on every row, "
                "non-ASCII schema/provenance/time-unit text, reference sequences, with/without index; 1-4 dumps on one file or pipe then "
                "loads until EOF; non-trivial = >=2 objects dumped on the stream; distinct by (object shapes, history, changed components)")
    chk.assumptions = ["byte equality of all columns is computed by the harness (numpy tobytes) and enters the trace as a flag",
                       "object sizes on pipes are measured by a separate dump of the same object to a file"]
    return chk.finish()


if __name__ == "__main__":
    common.assert_imports()
    common.main_wrapper(run)
