"""C15 - tree ranks are a bijection and topology counts match brute-force enumeration.

 code -> spec: (a) for n = 1..5 (thorough: 6) the complete rank table produced by all_trees(n): the clade
 set of every tree (and of Tree.unrank(n, rank)), rank() of that tree, out-of-range probes and
 rank() after renumbering internal nodes / changing branch lengths / permuting edge order; TLC checks
 them against Topologies(n) built from set partitions: every topology exactly once, rank o unrank = id,
 lexicographic dense order.  (b) count_topologies on trees with leaf samples and families of disjoint
 sample sets; TLC recomputes every count by brute force over all choices of one sample per set.
 Big-integer ranks (large n) are only round-trip checked in the harness (TLC integers are 32 bit)."""
import collections
import copy
import itertools
import random

import numpy as np
import tskit

from harness import common, gen
from harness.common import QUICK, SEED, Check


def clades_of(tree):
    out = []
    for u in tree.nodes():
        if not tree.is_leaf(u):
            out.append(sorted(int(x) for x in tree.leaves(u)))
    return sorted(out)


def structured(labels, rng, kind=None):
    """a caterpillar, a balanced tree or a star over the labels, as nested tuples"""
    if len(labels) == 1:
        return labels[0]
    kind = kind or rng.choice(["cat", "cat", "bal", "star"])
    if kind == "cat":
        t = labels[0]
        for x in labels[1:]:
            t = (x, t)
        return t
    if kind == "star" and len(labels) >= 3:
        return tuple(labels)
    h = len(labels) // 2
    return (structured(labels[:h], rng), structured(labels[h:], rng))


def nested_tree(nested, n):
    tables = tskit.TableCollection(1)
    for _ in range(n):
        tables.nodes.add_row(flags=tskit.NODE_IS_SAMPLE, time=0)

    def build(x):
        if isinstance(x, int):
            return x, 0
        kids = [build(c) for c in x]
        t = max(tt for _, tt in kids) + 1
        u = tables.nodes.add_row(time=t)
        for c, _ in kids:
            tables.edges.add_row(0, 1, u, c)
        return u, t
    build(nested)
    tables.sort()
    return tables.tree_sequence().first()


def perturb(tree, rng):
    """same topology: internal nodes renumbered, branch lengths changed, edge rows permuted within parents' time order"""
    ts = tree.tree_sequence
    n = ts.num_samples
    t = tskit.TableCollection(1)
    internal = [u for u in tree.nodes(order="timeasc") if not tree.is_leaf(u)]
    perm = internal[:]
    rng.shuffle(perm)
    # times must respect the topology: assign by depth from leaves
    height = {}
    for u in tree.nodes(order="postorder"):
        height[u] = 0 if tree.is_leaf(u) else 1 + max(height[c] for c in tree.children(u))
    newid = {}
    for u in range(n):
        newid[u] = u
        t.nodes.add_row(flags=1, time=0)
    order = sorted(internal, key=lambda u: (rng.random()))
    scale = rng.choice([1.0, 2.5, 10.0])
    for u in order:
        newid[u] = t.nodes.add_row(flags=0, time=height[u] * scale + rng.random() * 0.5)
    edges = [(newid[tree.parent(u)], newid[u]) for u in tree.nodes() if tree.parent(u) != -1]
    rng.shuffle(edges)
    for p, c in edges:
        t.edges.add_row(0, 1, p, c)
    t.sort()
    # the rank is that of the leaf-labelled topology: which nodes are flagged as samples does not enter (an internal node may be a sample, a
    # leaf need not be one).  Decided by a generator of its own, so that the other draws stay as they were.
    r2 = random.Random(len(edges) * 7919 + int(sum(height.values())))
    fl = t.nodes.flags
    if internal and r2.random() < 0.5:
        fl[newid[r2.choice(internal)]] = 1
    if n >= 3 and r2.random() < 0.4:
        fl[r2.randrange(n)] = 0
    t.nodes.flags = fl
    return t.tree_sequence().first()


def table_case(n, rng):
    rows = []
    it = list(tskit.all_trees(n))
    same = True
    ranks = []
    for tree in it:
        r = tree.rank()
        ranks.append((int(r[0]), int(r[1])))
    # all_trees order must be the rank order: unrank every listed rank and compare
    pert = []
    for i, tree in enumerate(it):
        r = ranks[i]
        un = tskit.Tree.unrank(n, r)
        rr = un.rank()
        if clades_of(un) != clades_of(tree):
            same = False
        rows.append(dict(shape=r[0], label=r[1], clades=clades_of(un), rerank=[int(rr[0]), int(rr[1])]))
        if n >= 3 and rng.random() < (0.3 if n < 6 else 0.05):
            pr = perturb(un, rng).rank()
            pert.append(dict(rank=[int(pr[0]), int(pr[1])], orig=[r[0], r[1]]))
    nshapes = max(r[0] for r in ranks) + 1
    oob = []
    probes = [(nshapes, 0), (-1, 0), (0, -1)] + [(s, 1 + max(l for (ss, l) in ranks if ss == s)) for s in range(nshapes)]
    for p in probes:
        raised = 0
        try:
            tskit.Tree.unrank(n, p)
        except (ValueError, IndexError, OverflowError):
            raised = 1
        oob.append(dict(rank=list(p), raised=raised))
    return dict(kind="table", n=n, rows=rows, oob=oob, perturbed=pert, iter_same=1 if same else 0)


def fixed_tree(nested):
    """a tree from nested tuples of leaf ids, e.g. ((0, (1, 2)), (3, (4, 5)))"""
    leaves = []

    def walk(x):
        if isinstance(x, int):
            leaves.append(x)
        else:
            for y in x:
                walk(y)
    walk(nested)
    t = tskit.TableCollection(1)
    for _ in range(len(leaves)):
        t.nodes.add_row(flags=1, time=0)

    def build(x):
        if isinstance(x, int):
            return x, 0
        kids = [build(y) for y in x]
        h = 1 + max(k[1] for k in kids)
        u = t.nodes.add_row(time=h)
        for c, _h in kids:
            t.edges.add_row(0, 1, u, c)
        return u, h
    build(nested)
    t.sort()
    return t.tree_sequence().first()


# shapes that the random draws reach only now and then: sibling sub-topologies of the same shape with three and more tips each (the order of
# equal-shaped children is decided by their labels), with every tip in a sample set of its own
FIXED_COUNT_TREES = [((0, (1, 2)), (3, (4, 5))), ((5, (0, 3)), (1, (2, 4))), (((0, 4), 2), ((1, 5), 3)), ((0, (1, 2)), (3, (4, 5)), 6),
                     ((2, (0, 1)), (5, (3, 4)))]


def count_case(rng, rank2clades, fixed=None):
    # a tree with leaf samples only: any topology (polytomies included) on 4-7 leaves, sometimes with the
    # edges below the root removed (multiple roots) or an extra unary node chain
    n = rng.randint(4, 7)
    if fixed is not None:
        tree = fixed_tree(fixed)
    elif n <= 5:
        ranks = [t.rank() for t in tskit.all_trees(n)]
        tree = tskit.Tree.unrank(n, rng.choice(ranks))
    else:
        tree = tskit.Tree.generate_random_binary(n, random_seed=rng.randrange(1, 2 ** 31))
    t = tree.tree_sequence.dump_tables()
    if fixed is None and rng.random() < 0.3 and len(t.edges) > 2:
        root = tree.root
        keep = np.array([e.parent != root for e in t.edges])
        t.edges.keep_rows(keep)
    ts = t.tree_sequence()
    tree = ts.first()
    S = [int(u) for u in ts.samples()]
    nsets = rng.randint(2, min(4, len(S))) if rng.random() < 0.7 else min(len(S), rng.choice([5, 6]))
    pool = S[:]
    rng.shuffle(pool)
    pool = pool[:rng.randint(min(len(pool), nsets + 1), len(pool))]
    if fixed is not None:
        nsets, pool = min(6, len(S)), S[:]
    sets = [[] for _ in range(nsets)]
    for i, u in enumerate(pool):
        sets[i % nsets if i < nsets else rng.randrange(nsets)].append(u)
    tc = tree.count_topologies(sets)
    counts = []
    keys = []
    for kk in range(2, nsets + 1):
        for K in itertools.combinations(range(nsets), kk):
            keys.append(list(K))
            for rank, cnt in tc[K].items():
                r = (int(rank[0]), int(rank[1]))
                counts.append(dict(key=list(K), rank=list(r), clades=rank2clades.get((kk, r), [[-1]]), count=int(cnt)))     # a rank that names no topology is a value no expectation equals
    inc = list(ts.count_topologies(sets))
    per = [t.count_topologies(sets) for t in ts.trees()]
    return dict(kind="count", parent=[int(tree.parent(u)) for u in range(ts.num_nodes)], sets=sets, counts=counts, keys=keys,
                incremental_same=1 if inc == per else 0)


def run():
    chk = Check("C15")
    rng = random.Random(SEED * 7919 + 15)
    cases = []
    maxn = 5 if QUICK else 6
    rank2clades = {}
    for n in range(1, maxn + 1):
        c = table_case(n, rng)
        cases.append(c)
        for row in c["rows"]:
            rank2clades[(n, (row["shape"], row["label"]))] = row["clades"]
    if maxn < 6:      # the rank -> clades dictionary for six-set combinations (the n=6 table itself is validated by TLC in the thorough tier)
        for row in table_case(6, rng)["rows"]:
            rank2clades[(6, (row["shape"], row["label"]))] = row["clades"]
    ntab = len(cases)
    # default sample sets: one set per population id - also for populations without samples, which must keep their index
    dflt = 0
    for i in range(40 if QUICK else 1500):
        n = rng.randint(3, 7)
        tb = tskit.Tree.generate_random_binary(n, random_seed=rng.randrange(1, 2 ** 31)).tree_sequence.dump_tables()
        npop = rng.randint(2, 4)
        for _ in range(npop):
            tb.populations.add_row()
        used = rng.sample(range(npop), rng.randint(1, npop))
        pop = np.array([rng.choice(used) if (tb.nodes.flags[u] & 1) else -1 for u in range(tb.nodes.num_rows)], dtype=np.int32)
        tb.nodes.population = pop
        tsd = tb.tree_sequence()
        explicit = [[int(u) for u in tsd.samples() if pop[u] == p] for p in range(npop)]
        chk.note_case(dict(default_sets=[int(x) for x in pop], npop=npop), len(used) < npop)
        try:
            tree = tsd.first()
            a = tree.count_topologies()
            b = tree.count_topologies(explicit)
            c = list(tsd.count_topologies())
            d = list(tsd.count_topologies(explicit))
            same = all(a[K] == b[K] and c[0][K] == d[0][K] and a[K] == c[0][K]
                       for kk in range(1, npop + 1) for K in itertools.combinations(range(npop), kk))
        except Exception as e:  # noqa: BLE001
            chk.violation("count_topologies with default sample sets raised: %s: %s" % (type(e).__name__, str(e)[:80]), dict(pop=[int(x) for x in pop], npop=npop))
            continue
        if not same:
            chk.violation("count_topologies(): the default sample sets are not one set per population id", dict(pop=[int(x) for x in pop], npop=npop, n=n))
        else:
            dflt += 1
            chk.traces += 1
    chk.extra["default_sample_set_cases"] = dflt
    for i in range(150 if QUICK else 3000):
        c = count_case(rng, rank2clades)
        if c is not None:
            cases.append(c)
    for nested in FIXED_COUNT_TREES:
        c = count_case(random.Random(len(str(nested))), rank2clades, fixed=nested)
        if c is not None:
            cases.append(c)
    # incremental tree-sequence counter on multi-tree sequences
    inc_checked = 0
    for i in range(20 if QUICK else 300):
        a = gen.random_abstract(rng, N=rng.randint(4, 8), K=rng.randint(2, 4), max_edges=14, nsites=0, nmuts=0, p_internal_sample=0.0)
        ts = gen.build_tables(dict(a, sites=[], muts=[])).tree_sequence()
        S = [int(u) for u in ts.samples()]
        if len(S) < 3 or any(not t.is_leaf(u) for t in ts.trees() for u in S):
            continue
        sets = [S[0::3], S[1::3], S[2::3]]
        inc = list(ts.count_topologies(sets))
        per = [t.count_topologies(sets) for t in ts.trees()]
        inc_checked += 1
        if inc != per:
            chk.violation("tree-sequence incremental topology counter differs from the per-tree counter", dict(a=a, sets=sets))
    # ... and on unsimplified sequences in which non-sample nodes lose their children, vanish and come back as childless dead ends
    for i in range(150 if QUICK else 4000):
        a = gen.coalescent_abstract(rng, nleaves=rng.randint(3, 6), ninternal=rng.randint(2, 5), K=rng.randint(3, 6), p_keep=0.6)
        a = gen.deadend_variant(a, rng)
        ts = gen.build_tables(dict(a, sites=[], muts=[])).tree_sequence()
        S = [int(u) for u in ts.samples()]
        sets = [S[0::3], S[1::3], S[2::3]] if rng.random() < 0.5 else [S[0::2], S[1::2]]
        sets = [x for x in sets if x]
        if len(sets) < 2:
            continue
        try:
            inc = list(ts.count_topologies(sets))
            per = [t.count_topologies(sets) for t in ts.trees()]
        except Exception as e:  # noqa: BLE001
            chk.violation("count_topologies raised on a valid tree sequence: %s: %s" % (type(e).__name__, e), dict(a=a, sets=sets))
            continue
        inc_checked += 1
        if inc != per:
            chk.violation("tree-sequence incremental topology counter differs from the per-tree counter (dead-end nodes)", dict(a=a, sets=sets))
    # large n: big-integer ranks round trip (harness-evaluated)
    big_ok = 0
    for n in (10, 12, 14, 16):
        for _ in range(5 if QUICK else 50):
            shapes = None
            t = tskit.Tree.generate_random_binary(n, random_seed=rng.randrange(1, 2 ** 31))
            r = t.rank()
            t2 = tskit.Tree.unrank(n, r)
            if t2.rank() != r or clades_of(t2) != clades_of(t):
                chk.violation("rank/unrank round trip fails for n=%d rank=%s" % (n, r), dict(n=n, rank=[str(x) for x in r]))
            else:
                big_ok += 1
    # large trees with polytomies whose children fall into several shape groups (labelling products beyond 2^63)
    big_poly = 0
    import signal
    import time as _time

    class Slow(Exception):
        pass

    def _alarm(*_a):
        raise Slow()
    big_skipped = 0
    t_start = _time.time()
    for n in ((21, 22, 23) if QUICK else (18, 20, 21, 22, 23, 24, 26)):
        for _ in range(6 if QUICK else 20):
            if _time.time() - t_start > (40 if QUICK else 900):      # unranking some shapes of this size takes minutes: bounded effort
                big_skipped += 1
                continue
            labels = list(range(n))
            rng.shuffle(labels)
            k = rng.randint(3, 4)
            cuts = sorted(rng.sample(range(1, n), k - 1))
            groups = [labels[i:j] for i, j in zip([0] + cuts, cuts + [n])]
            nested = tuple(structured(g, rng) for g in groups)
            if _ % 3 == 0:      # always present: a leaf and two long caterpillars of different length under one trifurcation
                m = (n - 1) // 2 - 1
                nested = (labels[0], structured(labels[1:1 + m], rng, "cat"), structured(labels[1 + m:], rng, "cat"))
            t = nested_tree(nested, n)
            old = signal.signal(signal.SIGALRM, _alarm)
            signal.setitimer(signal.ITIMER_REAL, 8 if QUICK else 60)
            try:
                r = t.rank()
                try:
                    t2 = tskit.Tree.unrank(n, r)
                    ok = t2.rank() == r and clades_of(t2) == clades_of(t)
                    NL = tskit.combinatorics.num_labellings(n, r.shape)
                    for lab in (0, 1, NL // 3, NL // 2, NL - 1):
                        if 0 <= lab < NL:
                            ok = ok and tuple(tskit.Tree.unrank(n, (r.shape, lab)).rank()) == (r.shape, lab)
                except ValueError as e:
                    ok = False
            except Slow:
                big_skipped += 1
                continue
            finally:
                signal.setitimer(signal.ITIMER_REAL, 0)
                signal.signal(signal.SIGALRM, old)
            chk.note_case(dict(big_poly=[n, str(r)]), True)
            if not ok:
                chk.violation("rank/unrank round trip fails for a %d-leaf tree with a polytomy over several shape groups, rank=%s" % (n, r),
                              dict(n=n, nested=repr(nested), rank=[str(x) for x in r]))
            else:
                big_poly += 1
                chk.traces += 1
    chk.extra["big_polytomy_roundtrips"] = big_poly
    chk.extra["big_polytomy_skipped_as_too_slow"] = big_skipped
    # medium trees (8-12 leaves) with polytomies whose children repeat shapes (cherry, cherry, ...): T -> rank -> unrank -> T
    med_ok = 0
    for _ in range(60 if QUICK else 3000):
        n = rng.randint(8, 12)
        labels = list(range(n))
        rng.shuffle(labels)
        parts, i = [], 0
        while i < n:
            sz = rng.choice([1, 2, 2, 3, 3, 4])
            parts.append(labels[i:i + sz])
            i += sz
        if len(parts) < 2:
            continue
        nested = tuple(structured(g, rng, rng.choice(["cat", "bal", "star"])) for g in parts)
        t = nested_tree(nested, n)
        r = t.rank()
        try:
            t2 = tskit.Tree.unrank(n, r)
            ok = t2.rank() == r and clades_of(t2) == clades_of(t)
        except ValueError:
            ok = False
        chk.note_case(dict(medium_poly=[n, repr(nested)]), True)
        if not ok:
            chk.violation("rank/unrank round trip fails for a %d-leaf tree with a polytomy over repeated shapes, rank=%s" % (n, r),
                          dict(n=n, nested=repr(nested), rank=[str(x) for x in r]))
        else:
            med_ok += 1
            chk.traces += 1
    chk.extra["medium_polytomy_roundtrips"] = med_ok
    # n = 7 (39,208 topologies): too many for Topologies(n) in TLC, but the enumeration order of all_trees is still checked rank by rank
    rows7 = [[int(t.rank().shape), int(t.rank().label)] for t in tskit.all_trees(7)]
    cases.append(dict(kind="order", n=7, rows=rows7))
    chk.extra["order_only_table"] = dict(n=7, topologies=len(rows7))
    # generated trees and random binary resolutions of polytomies, as clade sets
    ngen = 0
    for n in range(2, 9 if QUICK else 12):
        for gen_, ar in [("star", 0), ("comb", 0)] + [("balanced", k_) for k_ in (2, 3, 4, 5)]:
            t = getattr(tskit.Tree, "generate_" + gen_)(n, **({"arity": ar} if gen_ == "balanced" else {}))
            cases.append(dict(kind="gen", gen=gen_, n=n, arity=ar, clades=[sorted(c_) for c_ in clades_of(t)], orig=[]))
            ngen += 1
            if n >= 3:
                sp = t.split_polytomies(random_seed=rng.randrange(1, 2 ** 31))
                cases.append(dict(kind="gen", gen="split", n=n, arity=ar, clades=[sorted(c_) for c_ in clades_of(sp)], orig=[sorted(c_) for c_ in clades_of(t)]))
                ngen += 1
    chk.extra["generated_tree_cases"] = ngen
    corrupted = []
    d = copy.deepcopy(cases[3])
    d["rows"][1], d["rows"][2] = d["rows"][2], d["rows"][1]
    corrupted.append(d)
    d = copy.deepcopy(cases[3])
    d["rows"][0]["clades"] = d["rows"][1]["clades"]
    corrupted.append(d)
    for c in cases[ntab:ntab + 40]:
        if c["counts"]:
            d = copy.deepcopy(c)
            d["counts"][0]["count"] += 1
            corrupted.append(d)
            break
    cv, _ = common.tlc_validate("Trace_Ranks", corrupted, chunks=3)
    acc = sum(1 for d in corrupted if not cv[d["id"]])
    chk.extra["binding_selftest"] = dict(corrupted=len(corrupted), rejected=len(corrupted) - acc)
    if acc:
        raise common.MachineryError("Trace_Ranks accepted %d corrupted traces" % acc)
    verdicts, st = common.tlc_validate("Trace_Ranks", cases, timeout=3000)
    chk.add_tlc(st)
    for c in cases:
        if c["kind"] == "table":
            chk.note_case(dict(table=c["n"]), c["n"] >= 3)
        elif c["kind"] == "gen":
            chk.note_case(dict(gen=[c["gen"], c["n"], c["arity"], c["clades"]]), c["n"] >= 3)
        elif c["kind"] == "order":
            chk.note_case(dict(order=c["n"]), True)
        else:
            chk.note_case(dict(p=c["parent"], s=c["sets"]), len(c["counts"]) >= 2)
        f = verdicts[c["id"]]
        if f:
            chk.violation("trace rejected by Trace_Ranks (%s): %s %s" % (c["kind"] + (" n=%d" % c["n"] if c["kind"] == "table" else ""), sorted(f),
                                                                          st["eval_errors"].get(c["id"], "")[-300:]),
                          c if c["kind"] in ("count", "gen") else dict(n=c["n"]) if c["kind"] == "order" else dict(n=c["n"], oob=c["oob"], perturbed=c["perturbed"]))
        else:
            chk.traces += 1
    chk.extra.update(rank_tables=[dict(n=c["n"], topologies=len(c["rows"])) for c in cases[:ntab]], count_cases=sum(1 for c in cases if c["kind"] == "count"),
                     incremental_counter_cases=inc_checked, big_rank_roundtrips=big_ok)
    chk.exhaustive = True
    c = cases[ntab] if len(cases) > ntab else cases[2]
    chk.sample({k: v for k, v in c.items() if k not in ("id",)})
    chk.rule = ("complete rank tables for n<=5 (thorough 6: 2752 topologies); random trees with leaf samples x 2-4 disjoint sample sets, every key of "
                "size >=2; non-trivial = table with n>=3 or a count case with >=2 distinct (key, rank) entries")
    chk.assumptions = ["ranks of large trees (big integers) are only round-trip checked by the harness", "clade sets are computed with Tree.leaves (validated under C01)"]
    return chk.finish()


if __name__ == "__main__":
    common.assert_imports()
    common.main_wrapper(run)
