"""C09 - no API input causes out-of-bounds memory access or aborts the interpreter.

 spec -> code: ApiBounds.tla is the catalogue of entry points with typed argument slots and boundary
 values; TLC enumerates every single call over the boundary values (with the acceptance rule "an out-of-
 range identifier must raise") and the harness replays them, in isolated worker processes running the
 AddressSanitizer / UBSan build, on a valid tree sequence; after every call a legal probe checks that the
 object still behaves as before (no latent corruption).  The table algorithms (sort, simplify, subset,
 union, index / mutation helpers, link_ancestors, ibd, edits, dump) are run on every corrupted table
 collection of the TLC-enumerated corruption universe of C02 (Dump_Gate).
 Memory safety itself is decided by the sanitizers; the specification supplies programs and oracle."""
import copy
import json
import os
import random
import tempfile

import numpy as np
import tskit

from harness import common, gen, isolate, tcgen, abstr
from harness.common import QUICK, SEED, Check

HUGE, NANV, INFV = 2147483647, 900001, 900003


def conv(kind, v):
    if kind in ("position", "time"):
        return float("nan") if v == NANV else float("inf") if v == INFV else float(v)
    if kind == "windows":
        return [conv("position", x) for x in v]
    if kind == "intervals":
        return [[conv("position", x) for x in iv] for iv in v]
    return v


def make_ts(a):
    t = gen.build_tables(a, metadata=True)
    rng = random.Random(5)
    abstr.decorate(t, rng, n_ind=2, n_pop=1)
    t.provenances.add_row(record="{}", timestamp="now")
    t.build_index()
    return t.tree_sequence()


def dims_of(ts):
    return dict(nodes=ts.num_nodes, edges=ts.num_edges, sites=ts.num_sites, mutations=ts.num_mutations, individuals=ts.num_individuals,
                populations=ts.num_populations, migrations=ts.num_migrations, provenances=ts.num_provenances, trees=ts.num_trees, sets=2,
                L=int(ts.sequence_length))


def probe(ts):
    """a legal call sequence whose result must not change"""
    out = []
    for tree in ts.trees(sample_lists=True):
        out.append([int(x) for x in tree.parent_array] + [int(tree.num_samples(u)) for u in range(ts.num_nodes)])
    if ts.num_sites:
        out.append(ts.genotype_matrix(isolated_as_missing=False).tolist())
    out.append(float(ts.diversity(mode="branch")) if ts.num_samples >= 2 else 0)
    return out


def call(ts, tree, variant, name, kinds, args):
    a = [conv(k, v) for k, v in zip(kinds, args)]
    S = [int(u) for u in ts.samples()]
    half = [S[: len(S) // 2] or S, S[len(S) // 2:] or S]
    x = a[0]
    simple = {
        "tree.parent": tree.parent, "tree.left_child": tree.left_child, "tree.right_child": tree.right_child, "tree.left_sib": tree.left_sib,
        "tree.right_sib": tree.right_sib, "tree.num_children": tree.num_children, "tree.edge": tree.edge, "tree.children": tree.children,
        "tree.is_leaf": tree.is_leaf, "tree.is_internal": tree.is_internal, "tree.num_samples": tree.num_samples,
        "tree.num_tracked_samples": tree.num_tracked_samples, "tree.samples": lambda u: list(tree.samples(u)), "tree.leaves": lambda u: list(tree.leaves(u)),
        "tree.nodes_pre": lambda u: list(tree.nodes(u, order="preorder")), "tree.nodes_post": lambda u: list(tree.nodes(u, order="postorder")),
        "tree.nodes_minlex": lambda u: list(tree.nodes(u, order="minlex_postorder")), "tree.depth": tree.depth,
        "tree.left_sample": tree.left_sample, "tree.right_sample": tree.right_sample, "tree.time": tree.time, "tree.branch_length": tree.branch_length,
        "tree.population": tree.population, "tree.is_sample": tree.is_sample, "tree.as_newick_root": lambda u: tree.as_newick(root=u),
        "tree.total_branch_length_below": lambda u: sum(tree.branch_length(v) for v in tree.nodes(u)),
        "ts.node": ts.node, "ts.edge": ts.edge, "ts.site": ts.site, "ts.mutation": ts.mutation, "ts.individual": ts.individual,
        "ts.population": ts.population, "ts.migration": ts.migration, "ts.provenance": ts.provenance, "ts.at_index": ts.at_index,
        "tree.seek_index": tree.seek_index, "ts.at": ts.at, "tree.seek": tree.seek, "variant.decode": (variant.decode if variant is not None else ts.site),
        "ts.simplify": lambda l: ts.simplify(l), "ts.subset": lambda l: ts.subset(l), "ts.ibd_within": lambda l: ts.ibd_segments(within=l, store_segments=True),
        "ts.ibd_between_one": lambda l: ts.ibd_segments(between=[l, S[:1]], store_pairs=True),
        "ts.variants_samples": lambda l: [v.genotypes.tolist() for v in ts.variants(samples=l, isolated_as_missing=False)],
        "ts.genotype_matrix_samples": lambda l: ts.genotype_matrix(samples=l, isolated_as_missing=False),
        "ts.haplotypes_samples": lambda l: list(ts.haplotypes(samples=l, isolated_as_missing=False)),
        "ts.diversity_set": lambda l: ts.diversity([l], mode="branch"), "ts.segregating_sites_set": lambda l: ts.segregating_sites([l]),
        "ts.Y1_set": lambda l: ts.Y1([l], mode="branch"), "ts.afs_set": lambda l: ts.allele_frequency_spectrum([l], mode="branch"),
        "ts.mean_descendants": lambda l: ts.mean_descendants([l]), "ts.gnn_focal": lambda l: ts.genealogical_nearest_neighbours(l, half),
        "ts.tree_tracked": lambda l: tskit.Tree(ts, tracked_samples=l).first(), "ts.divergence_matrix_ids": lambda l: ts.divergence_matrix(l, mode="branch"),
        "ts.pair_coalescence_counts": lambda l: ts.pair_coalescence_counts([l, S]) if hasattr(ts, "pair_coalescence_counts") else None,
        "tables.link_ancestors_samples": lambda l: ts.dump_tables().link_ancestors(l, [ts.num_nodes - 1]),
        "tables.link_ancestors_ancestors": lambda l: ts.dump_tables().link_ancestors(S, l),
        "ts.count_topologies": lambda l: ts.first().count_topologies([l, S[-1:]]),
        "ts.trait_like_general_stat": lambda l: ts.sample_count_stat([l], lambda v: v, 1, mode="node", strict=False),
        "ts.extend_haplotypes_noop": lambda l: ts.simplify(l, keep_unary=True, filter_nodes=False),
        "ts.delete_sites": lambda l: ts.delete_sites(l),
        "ts.diversity_windows": lambda w: ts.diversity(windows=w, mode="branch"), "ts.afs_windows": lambda w: ts.allele_frequency_spectrum(windows=w),
        "ts.divergence_matrix_windows": lambda w: ts.divergence_matrix(windows=w, mode="branch"),
        "ts.general_stat_windows": lambda w: ts.general_stat(np.ones((ts.num_samples, 1)), lambda v: v, 1, windows=w, mode="site", strict=False),
        "ts.keep_intervals": lambda iv: ts.keep_intervals(iv), "ts.delete_intervals": lambda iv: ts.delete_intervals(iv),
        "ts.decapitate": lambda t_: ts.decapitate(t_), "ts.split_edges": lambda t_: ts.split_edges(t_),
        "tables.delete_older": lambda t_: ts.dump_tables().delete_older(t_), "tree.num_lineages": lambda t_: tree.num_lineages(t_),
        "tables.nodes.truncate": lambda n: ts.dump_tables().nodes.truncate(n), "tables.edges.truncate": lambda n: ts.dump_tables().edges.truncate(n),
        "ts.write_vcf_ploidy": lambda p: ts.as_vcf(ploidy=p, allow_position_zero=True), "tree.root_threshold": lambda r: tskit.Tree(ts, root_threshold=r).first(),
        "tables.sort_edge_start": lambda n: ts.dump_tables().sort(edge_start=n), "ts.divmat_threads": lambda n: ts.divergence_matrix(num_threads=n),
    }
    if name in simple:
        return simple[name](x)
    if name in ("tree.mrca", "tree.tmrca", "tree.is_descendant"):
        return getattr(tree, name.split(".")[1])(a[0], a[1])
    if name == "ts.divergence_index":
        return ts.divergence(half, indexes=[(a[0], a[1])], mode="branch")
    if name == "ts.f4_index":
        return ts.f4(half, indexes=[(a[0], a[1], 0, 0)], mode="branch")
    raise KeyError(name)


def run_programs(item):
    """worker: item = dict(a=abstract ts, programs=[...]) -> outcomes"""
    import signal
    ts = make_ts(item["a"])
    base = probe(ts)
    out = []
    signal.signal(signal.SIGALRM, signal.SIG_DFL)      # a call that does not return within 30 s kills the worker: "hang"
    for p in item["programs"]:
        signal.alarm(30)
        tree = ts.first(sample_lists=True)
        variant = tskit.Variant(ts) if ts.num_sites else None
        try:
            r = call(ts, tree, variant, p["name"], p["kinds"], p["args"])
            # touch the result so that lazily produced garbage is read under the sanitizer
            repr(r)[:10]
            oc = "ok"
        except KeyError as e:
            oc = "raise:KeyError" if "not found" in str(e) or True else "nocase"
        except BaseException as e:
            oc = "raise:" + type(e).__name__
        # no latent corruption: the same legal probe must give the same answer, also through the used Tree
        try:
            same = probe(ts) == base and (tree.index == -1 or tree.index < ts.num_trees)
        except BaseException as e:
            same = False
        out.append([oc, 1 if same else 0])
        signal.alarm(0)
    return out


TABLE_ALGS = ["sort", "simplify", "subset", "build_index", "compute_mutation_parents", "compute_mutation_times", "deduplicate_sites",
              "canonicalise", "link_ancestors", "ibd_segments", "keep_intervals", "delete_sites", "tree_sequence", "dump", "union_self", "delete_older",
              "sort_individuals", "squash", "trim"]


def run_table_algs(item):
    """worker: every table algorithm on a (possibly invalid) table collection; returns per-algorithm outcome"""
    import signal
    signal.signal(signal.SIGALRM, signal.SIG_DFL)
    out = []
    for tc in item["tcs"]:
        res = {}
        for alg in TABLE_ALGS:
            signal.alarm(30)
            try:
                t = tcgen.build_tc(tc)
            except Exception as e:
                res[alg] = "build:" + type(e).__name__
                continue
            n = len(t.nodes)
            try:
                if alg == "sort":
                    t.sort()
                elif alg == "simplify":
                    t.simplify(list(range(min(n, 2))))
                elif alg == "subset":
                    t.subset(list(range(n))[::-1])
                elif alg == "build_index":
                    t.build_index()
                elif alg == "compute_mutation_parents":
                    t.compute_mutation_parents()
                elif alg == "compute_mutation_times":
                    t.compute_mutation_times()
                elif alg == "deduplicate_sites":
                    t.deduplicate_sites()
                elif alg == "canonicalise":
                    t.canonicalise()
                elif alg == "link_ancestors":
                    t.link_ancestors(list(range(min(n, 2))), list(range(n)))
                elif alg == "ibd_segments":
                    t.ibd_segments(within=list(range(n)), store_segments=True)
                elif alg == "keep_intervals":
                    t.keep_intervals([[0, 1]])
                elif alg == "delete_sites":
                    t.delete_sites([0] if len(t.sites) else [])
                elif alg == "tree_sequence":
                    ts = t.tree_sequence()
                    for tree in ts.trees():
                        tree.num_samples(tree.virtual_root)
                elif alg == "dump":
                    fd, path = tempfile.mkstemp(dir="/dev/shm" if os.path.isdir("/dev/shm") else None)
                    os.close(fd)
                    try:
                        t.dump(path)
                        tskit.TableCollection.load(path)
                    finally:
                        os.remove(path)
                elif alg == "union_self":
                    t.union(t.copy(), np.arange(n, dtype=np.int32))
                elif alg == "delete_older":
                    t.delete_older(1.0)
                elif alg == "sort_individuals":
                    t.sort_individuals()
                elif alg == "squash":
                    t.edges.squash()
                elif alg == "trim":
                    t.trim()
                res[alg] = "ok"
            except BaseException as e:
                res[alg] = "raise:" + type(e).__name__
        signal.alarm(0)
        out.append(res)
    return out


def run():
    chk = Check("C09", level="exploration")
    rng = random.Random(SEED * 7919 + 9)
    # ---------- single calls over boundary values, on a few valid tree sequences
    nts = 2 if QUICK else 12
    total = 0
    for k in range(nts):
        while True:
            a = gen.random_abstract(rng, N=rng.randint(4, 7), K=rng.randint(2, 4), max_edges=10, nsites=3, nmuts=3, nalleles=4, p_internal_sample=0.2)
            if sum(a["flags"]) >= 3 and len(a["sites"]) >= 1 and len(a["edges"]) >= 3:
                break
        ts = make_ts(a)
        tmp = tempfile.mkdtemp(prefix="c09_")
        try:
            dpath = os.path.join(tmp, "dims.json")
            with open(dpath, "w") as fh:
                json.dump(dims_of(ts), fh)
            progs, st = common.tlc_eval_json("Dump_Api", env={"DIMS": dpath}, timeout=600)
        finally:
            import shutil
            shutil.rmtree(tmp, ignore_errors=True)
        chk.add_tlc(st)
        chk.states += len(progs)
        chk.transitions += len(progs)
        B = 40
        items = [dict(a=a, programs=progs[s:s + B]) for s in range(0, len(progs), B)]
        res = isolate.map_isolated("harness.props.c09:run_programs", items, flavour="san")
        # attribute crashes: re-run a crashed batch one program at a time
        flat = []
        for it, r in zip(items, res):
            if isinstance(r, dict) and "crash" in r:
                singles = isolate.map_isolated("harness.props.c09:run_programs", [dict(a=a, programs=[p]) for p in it["programs"]], flavour="san")
                for p, sr in zip(it["programs"], singles):
                    flat.append((p, ["crash", ("HANG (no return within 30 s) " if "-14" in sr.get("crash", "") else "") + sr.get("crash", "") + "\n" + sr.get("stderr", "")[:2500]]
                                 if isinstance(sr, dict) and "crash" in sr else sr[0]))
            else:
                flat.extend(zip(it["programs"], r))
        for p, o in flat:
            total += 1
            chk.note_case(dict(ts=k, name=p["name"], args=p["args"]), True)
            key = "%s%s" % (p["name"], p["args"])
            if o[0] == "crash":
                chk.violation("call %s%s crashed / sanitizer report:\n%s" % (p["name"], p["args"], o[1]), dict(a=a, program=p))
            elif p["must_raise"] and o[0] == "ok":
                chk.violation("out-of-range identifier accepted silently: %s%s returned normally" % (p["name"], p["args"]), dict(a=a, program=p))
            elif not o[1]:
                chk.violation("latent corruption: after %s%s (%s) a legal probe gives a different answer" % (p["name"], p["args"], o[0]), dict(a=a, program=p))
            else:
                chk.traces += 1
    chk.extra["single_calls"] = total
    # ---------- table algorithms on the corruption universe of C02
    from harness.props.c02 import seeds
    sd = seeds(rng, 6 if QUICK else 60)
    tmp = tempfile.mkdtemp(prefix="c09g_")
    try:
        sf = os.path.join(tmp, "seeds.ndjson")
        with open(sf, "w") as fh:
            for s in sd:
                fh.write(json.dumps(tcgen.strip(s)) + "\n")
        recs, st = common.tlc_eval_json("Dump_Gate", env={"SEEDS": sf}, timeout=3000)
    finally:
        import shutil
        shutil.rmtree(tmp, ignore_errors=True)
    chk.add_tlc(st)
    tcs = []
    for r in recs:
        s = sd[r["seed"] - 1]
        tc = dict(r["tc"])
        tc["_anc"] = s["_anc"]
        tc["_der"] = s["_der"] + [1] * 4
        tcs.append(tc)
    if QUICK:
        idx = rng.sample(range(len(tcs)), min(len(tcs), 1500))
        tcs = [tcs[i] for i in idx]
        recs = [recs[i] for i in idx]
    B = 25
    items = [dict(tcs=tcs[s:s + B]) for s in range(0, len(tcs), B)]
    res = isolate.map_isolated("harness.props.c09:run_table_algs", items, flavour="san", timeout=3000)
    nalg = 0
    for it, r, s0 in zip(items, res, range(0, len(tcs), B)):
        if isinstance(r, dict) and "crash" in r:
            singles = isolate.map_isolated("harness.props.c09:run_table_algs", [dict(tcs=[tc]) for tc in it["tcs"]], flavour="san")
            for q, sr in enumerate(singles):
                chk.note_case(dict(tc=tcgen.strip(it["tcs"][q])), True)
                if isinstance(sr, dict) and "crash" in sr:
                    chk.violation("a table algorithm crashed / sanitizer report on a corrupted table collection (corruption %s):\n%s" % (
                        recs[s0 + q]["what"], sr.get("stderr", "")[:2500]), dict(tc=tcgen.strip(it["tcs"][q]), what=recs[s0 + q]["what"]))
                else:
                    chk.traces += 1
                    nalg += len(TABLE_ALGS)
        else:
            for q, one in enumerate(r):
                chk.note_case(dict(tc=tcgen.strip(it["tcs"][q])), True)
                chk.traces += 1
                nalg += len(one)
    chk.extra.update(corrupted_collections=len(tcs), table_algorithm_calls=nalg, table_algorithms=TABLE_ALGS)
    chk.sample(dict(program=flat[0][0], outcome=flat[0][1]))
    chk.rule = ("single calls: every entry of the ApiBounds catalogue x every boundary value of its argument slots (ids in {-2,-1,0,n-1,n,n+1,2^31-1}, "
                "positions {-1,0,L-1,L,L+1,nan,inf}, id lists, windows, intervals, times) on valid tree sequences; table algorithms: 19 algorithms on every "
                "single-field corruption of C02's universe; all in the ASan/UBSan build; distinct by (object, entry, arguments); every case is non-trivial")
    chk.assumptions = ["memory safety is decided by ASan/UBSan (leak detection off); the specification supplies programs and the accept/raise oracle",
                       "-1 and the virtual root are left to the entry point (not required to raise)"]
    chk.exhaustive = True
    return chk.finish()


if __name__ == "__main__":
    common.assert_imports()
    common.main_wrapper(run)
