"""C09 - no API input causes out-of-bounds memory access or aborts the interpreter.

 spec -> code: ApiBounds.tla is the catalogue of entry points with typed argument slots and boundary
 values; TLC enumerates every single call over the boundary values (with the acceptance rule "an out-of-
 range identifier must raise") and the harness replays them, in isolated worker processes running the
 AddressSanitizer / UBSan build, on a valid tree sequence; after every call a legal probe checks that the
 object still behaves as before (no latent corruption).  The table algorithms (sort, simplify, subset,
 union, index / mutation helpers, link_ancestors, ibd, edits, dump) are run on every corrupted table
 collection of the TLC-enumerated corruption universe of C02 (Dump_Gate).
 Memory safety itself is decided by the sanitizers; the specification supplies programs and oracle."""
import copy
import json
import os
import random
import tempfile

import numpy as np
import tskit

from harness import common, gen, isolate, tcgen, abstr
from harness.common import QUICK, SEED, Check

HUGE, NANV, INFV = 2147483647, 900001, 900003


W32, W64 = 900100, 900200


def unwrap(v):
    """tokens of ApiBounds for identifiers beyond 32 bits: 2**32 + k and 2**64 + k"""
    if isinstance(v, (list, tuple)):
        return [unwrap(x) for x in v]
    if isinstance(v, int) and W32 <= v < W32 + 100:
        return 2 ** 32 + (v - W32)
    if isinstance(v, int) and W64 <= v < W64 + 100:
        return 2 ** 64 + (v - W64)
    return v


def conv(kind, v):
    if kind in ("position", "time"):
        return float("nan") if v == NANV else float("inf") if v == INFV else float(v)
    if kind == "windows":
        return [conv("position", x) for x in v]
    if kind == "intervals":
        return [[conv("position", x) for x in iv] for iv in v]
    return unwrap(v)


def make_ts(a):
    if a.get("single_mutation_sites"):      # LdCalculator needs sites with exactly one mutation and a derived state != ancestral
        a = dict(a)
        keep, seen = [], set()
        for m in a["muts"]:
            if m["site"] not in seen:
                seen.add(m["site"])
                anc = a["sites"][m["site"]]["anc"]
                keep.append(dict(m, parent=-1, der=m["der"] if m["der"] != anc else (anc + 1) % 4))
        a["muts"] = keep
        nsit = len(a["sites"])
        if all(any(m["site"] == j for m in keep) for j in range(nsit)):
            # LdCalculator refuses sites that do not carry exactly one mutation: keep one site without any
            a["muts"] = [m for m in keep if m["site"] != nsit - 1]      # (the generator guarantees two sites or more)
    t = gen.build_tables(a, metadata=True)
    rng = random.Random(5)
    abstr.decorate(t, rng, n_ind=2, n_pop=1)
    if a.get("no_edge_metadata"):
        t.edges.drop_metadata()       # simplify / link_ancestors / squash refuse edges with metadata
    else:
        t.migrations.add_row(0, t.sequence_length, 0, 0, 0, float(max(t.nodes.time)) + 1, metadata=b"g0")
    t.provenances.add_row(record="{}", timestamp="now")
    t.build_index()
    return t.tree_sequence()


def dims_of(ts):
    return dict(samples=ts.num_samples, nodes=ts.num_nodes, edges=ts.num_edges, sites=ts.num_sites, mutations=ts.num_mutations, individuals=ts.num_individuals,
                populations=ts.num_populations, migrations=ts.num_migrations, provenances=ts.num_provenances, trees=ts.num_trees, sets=2,
                L=int(ts.sequence_length))


def probe(ts):
    """a legal call sequence whose result must not change"""
    out = []
    for tree in ts.trees(sample_lists=True):
        out.append([int(x) for x in tree.parent_array] + [int(tree.num_samples(u)) for u in range(ts.num_nodes)])
    if ts.num_sites:
        out.append(ts.genotype_matrix(isolated_as_missing=False).tolist())
    out.append(float(ts.diversity(mode="branch")) if ts.num_samples >= 2 else 0)
    return out


def call(ts, tree, variant, name, kinds, args):
    a = [conv(k, v) for k, v in zip(kinds, args)]
    S = [int(u) for u in ts.samples()]
    half = [S[: len(S) // 2] or S, S[len(S) // 2:] or S]
    x = a[0]

    def bare():
        """the node, edge, individual and population tables only (same node count): with the identity mapping everything is shared and nothing is added, so nothing but
        the one entry that is replaced can make union refuse"""
        tb = ts.dump_tables()
        tb.migrations.clear()
        tb.mutations.clear()
        tb.sites.clear()
        return tb
    simple = {
        "tree.parent": tree.parent, "tree.left_child": tree.left_child, "tree.right_child": tree.right_child, "tree.left_sib": tree.left_sib,
        "tree.right_sib": tree.right_sib, "tree.num_children": tree.num_children, "tree.edge": tree.edge, "tree.children": tree.children,
        "tree.is_leaf": tree.is_leaf, "tree.is_internal": tree.is_internal, "tree.num_samples": tree.num_samples,
        "tree.num_tracked_samples": tree.num_tracked_samples, "tree.samples": lambda u: list(tree.samples(u)), "tree.leaves": lambda u: list(tree.leaves(u)),
        "tree.nodes_pre": lambda u: list(tree.nodes(u, order="preorder")), "tree.nodes_post": lambda u: list(tree.nodes(u, order="postorder")),
        "tree.nodes_minlex": lambda u: list(tree.nodes(u, order="minlex_postorder")), "tree.depth": tree.depth,
        "tree.left_sample": tree.left_sample, "tree.right_sample": tree.right_sample, "tree.time": tree.time, "tree.branch_length": tree.branch_length,
        "tree.population": tree.population, "tree.is_sample": tree.is_sample, "tree.as_newick_root": lambda u: tree.as_newick(root=u),
        "tree.total_branch_length_below": lambda u: sum(tree.branch_length(v) for v in tree.nodes(u)),
        "ts.node": ts.node, "ts.edge": ts.edge, "ts.site": ts.site, "ts.mutation": ts.mutation, "ts.individual": ts.individual,
        "ts.population": ts.population, "ts.migration": ts.migration, "ts.provenance": ts.provenance, "ts.at_index": ts.at_index,
        "tree.seek_index": tree.seek_index, "ts.at": ts.at, "tree.seek": tree.seek, "variant.decode": (variant.decode if variant is not None else ts.site),
        "ts.simplify": lambda l: ts.simplify(l), "ts.subset": lambda l: ts.subset(l), "ts.ibd_within": lambda l: ts.ibd_segments(within=l, store_segments=True),
        "ts.ibd_between_one": lambda l: ts.ibd_segments(between=[l, S[:1]], store_pairs=True),
        "ts.variants_samples": lambda l: [v.genotypes.tolist() for v in ts.variants(samples=l, isolated_as_missing=False)],
        "ts.genotype_matrix_samples": lambda l: ts.genotype_matrix(samples=l, isolated_as_missing=False),
        "ts.haplotypes_samples": lambda l: list(ts.haplotypes(samples=l, isolated_as_missing=False)),
        "ts.diversity_set": lambda l: ts.diversity([l], mode="branch"), "ts.segregating_sites_set": lambda l: ts.segregating_sites([l]),
        "ts.Y1_set": lambda l: ts.Y1([l], mode="branch"), "ts.afs_set": lambda l: ts.allele_frequency_spectrum([l], mode="branch"),
        "ts.mean_descendants": lambda l: ts.mean_descendants([l]), "ts.gnn_focal": lambda l: ts.genealogical_nearest_neighbours(l, half),
        "ts.tree_tracked": lambda l: tskit.Tree(ts, tracked_samples=l).first(), "ts.divergence_matrix_ids": lambda l: ts.divergence_matrix(l, mode="branch"),
        "ts.pair_coalescence_counts": lambda l: ts.pair_coalescence_counts([l, S]) if hasattr(ts, "pair_coalescence_counts") else None,
        "tables.link_ancestors_samples": lambda l: ts.dump_tables().link_ancestors(l, [ts.num_nodes - 1]),
        "tables.link_ancestors_ancestors": lambda l: ts.dump_tables().link_ancestors(S, l),
        "ts.count_topologies": lambda l: ts.first().count_topologies([l, S[-1:]]),
        "ts.trait_like_general_stat": lambda l: ts.sample_count_stat([l], lambda v: v, 1, mode="node", strict=False),
        "ts.extend_haplotypes_noop": lambda l: ts.simplify(l, keep_unary=True, filter_nodes=False),
        "ts.delete_sites": lambda l: ts.delete_sites(l),
        "ts.relatedness_vector_nodes": lambda l: ts.genetic_relatedness_vector(np.ones((ts.num_samples, 1)), mode="branch", centre=False, nodes=l),
        "tables.union_mapping_checked": lambda u: bare().union(bare(), [u] + list(range(1, ts.num_nodes)), check_shared_equality=True),
        "tables.union_mapping_unchecked": lambda u: bare().union(bare(), [u] + list(range(1, ts.num_nodes)), check_shared_equality=False),
        "ts.union_mapping_unchecked": lambda u: bare().tree_sequence().union(bare().tree_sequence(), list(range(ts.num_nodes - 1)) + [u], check_shared_equality=False),
        "ts.diversity_windows": lambda w: ts.diversity(windows=w, mode="branch"), "ts.afs_windows": lambda w: ts.allele_frequency_spectrum(windows=w),
        "ts.divergence_matrix_windows": lambda w: ts.divergence_matrix(windows=w, mode="branch"),
        "ts.general_stat_windows": lambda w: ts.general_stat(np.ones((ts.num_samples, 1)), lambda v: v, 1, windows=w, mode="site", strict=False),
        "ts.keep_intervals": lambda iv: ts.keep_intervals(iv), "ts.delete_intervals": lambda iv: ts.delete_intervals(iv),
        "ts.decapitate": lambda t_: ts.decapitate(t_), "ts.split_edges": lambda t_: ts.split_edges(t_),
        "tables.delete_older": lambda t_: ts.dump_tables().delete_older(t_), "tree.num_lineages": lambda t_: tree.num_lineages(t_),
        "tables.nodes.truncate": lambda n: ts.dump_tables().nodes.truncate(n), "tables.edges.truncate": lambda n: ts.dump_tables().edges.truncate(n),
        "ts.write_vcf_ploidy": lambda p: ts.as_vcf(ploidy=p, allow_position_zero=True), "tree.root_threshold": lambda r: tskit.Tree(ts, root_threshold=r).first(),
        "tables.sort_edge_start": lambda n: ts.dump_tables().sort(edge_start=n), "ts.divmat_threads": lambda n: ts.divergence_matrix(num_threads=n),
    }
    if name in simple:
        return simple[name](x)
    if name in ("tree.mrca", "tree.tmrca", "tree.is_descendant"):
        return getattr(tree, name.split(".")[1])(a[0], a[1])
    if name == "ts.divergence_index":
        return ts.divergence(half, indexes=[(a[0], a[1])], mode="branch")
    if name == "ts.f4_index":
        return ts.f4(half, indexes=[(a[0], a[1], 0, 0)], mode="branch")
    raise KeyError(name)



# ---------------------------------------------------------------------------------------------------------
# automatically discovered entry points: every public method of the main classes, parameters typed by name
ID_PARAMS = {"u", "v", "node", "root", "id_", "index", "site", "site_id", "individual", "population", "population_id", "parent", "child", "a", "b",
             "dest", "source", "mutation", "edge"}
LIST_PARAMS = {"nodes", "samples", "focal", "ancestors", "tracked_samples", "within", "site_ids", "sites", "individuals", "populations", "node_mapping",
               "tracked_leaves", "omit_sites", "parents", "location"}
LISTLIST_PARAMS = {"sample_sets", "between"}
WINDOW_PARAMS = {"windows", "time_windows", "breakpoints", "quantiles", "positions"}
POS_PARAMS = {"position", "left", "right", "x"}
TIME_PARAMS = {"time", "max_time", "min_time", "t", "min_span", "epsilon", "lambda_", "max_distance", "span", "branch_length"}
SMALL_PARAMS = {"ploidy", "num_threads", "precision", "root_threshold", "edge_start", "site_start", "mutation_start", "num_rows", "max_iter", "max_sites",
                "max_num_trees", "size", "width", "wrap_width", "max_mutations", "num_components", "num_iterations", "num_oversamples", "arity",
                "output_dim", "random_seed", "flags", "length"}
LENGTH_PARAMS = {"keep", "site_mask", "sample_mask", "genotypes", "W"}
SKIP_METHODS = {"draw", "draw_svg", "draw_text", "dump", "dump_text", "write_fasta", "write_nexus", "write_vcf", "to_macs", "as_nexus", "as_fasta", "as_vcf",
                "to_nexus", "to_fasta", "_repr_html_", "pca"}     # pure-Python renderers / writers (C12-C18 cover their content); pca is randomised linear algebra


KIND_OVERRIDE = {("TreeSequence.ld_matrix", "sites"): "site_lists", ("TreeSequence.ld_matrix", "positions"): "windows"}


def kind_of(param):
    if param in ID_PARAMS:
        return "id"
    if param in LIST_PARAMS:
        return "id_list"
    if param in LISTLIST_PARAMS:
        return "id_list_list"
    if param == "indexes":
        return "index_tuples"
    if param in WINDOW_PARAMS:
        return "windows"
    if param == "intervals":
        return "intervals"
    if param in POS_PARAMS:
        return "position"
    if param in TIME_PARAMS:
        return "time"
    if param in SMALL_PARAMS:
        return "small"
    if param in LENGTH_PARAMS:
        return "length"
    return None


AUTO_CLASSES = ["TreeSequence", "Tree", "TableCollection", "NodeTable", "EdgeTable", "SiteTable", "MutationTable", "IndividualTable", "PopulationTable",
                "MigrationTable", "ProvenanceTable", "Variant", "LdCalculator"]


def discover():
    """(name, kind) pairs: name = Class.method:param[:flipped boolean keyword]"""
    import inspect
    out = []
    nmeth = 0
    for cn in AUTO_CLASSES:
        c = getattr(tskit, cn)
        for n, m in inspect.getmembers(c, predicate=inspect.isfunction):
            if n.startswith("_") or n in SKIP_METHODS:
                continue
            try:
                sig = inspect.signature(m)
            except (TypeError, ValueError):
                continue
            nmeth += 1
            params = list(sig.parameters.values())[1:]
            bools = [p.name for p in params if isinstance(p.default, bool)]
            has_mode = any(p.name == "mode" and isinstance(p.default, str) for p in params)
            for p in params:
                k = KIND_OVERRIDE.get(("%s.%s" % (cn, n), p.name)) or kind_of(p.name)
                if k is None:
                    continue
                out.append(["%s.%s:%s" % (cn, n, p.name), k])
                for b in bools:
                    out.append(["%s.%s:%s:%s" % (cn, n, p.name, b), k])
                if has_mode and k in ("id", "id_list", "id_list_list", "index_tuples"):
                    # identifier slots of the statistics are also reached in the other modes, alone and together with every flipped boolean
                    # (genetic_relatedness_vector takes nodes= only with centre=False, and has no site mode)
                    for md in ("branch", "node", "site"):
                        if md == [q.default for q in params if q.name == "mode"][0]:
                            continue
                        out.append(["%s.%s:%s::%s" % (cn, n, p.name, md), k])
                        if md == "branch":
                            for b in bools:
                                out.append(["%s.%s:%s:%s:%s" % (cn, n, p.name, b, md), k])
    return out, nmeth


ARITY_OF = {"divergence": 2, "Fst": 2, "Y2": 2, "f2": 2, "genetic_relatedness": 2, "Y3": 3, "f3": 3, "f4": 4, "pair_coalescence_counts": 2,
            "pair_coalescence_quantiles": 2, "pair_coalescence_rates": 2, "genetic_relatedness_weighted": 2}


def default_args(ts, cn, obj, params, S, mn=None):
    """benign values for required parameters (by name); None when the method cannot be called generically"""
    import inspect
    import io
    n = ts.num_nodes
    tabname = {"NodeTable": "nodes", "EdgeTable": "edges", "SiteTable": "sites", "MutationTable": "mutations", "IndividualTable": "individuals",
               "PopulationTable": "populations", "MigrationTable": "migrations", "ProvenanceTable": "provenances"}.get(cn)
    nrows = len(obj) if tabname else 0
    table = {
        "u": 0, "v": 1, "node": 0, "id_": 0, "index": 0, "site": 0, "site_id": 0, "a": 0, "b": min(1, max(0, ts.num_sites - 1)), "t": 1.0, "time": 1.0,
        "position": 0.0, "left": 0.0, "right": float(ts.sequence_length), "parent": n - 1, "child": 0, "dest": 0, "source": 0,
        "W": np.ones((ts.num_samples, 1)), "f": (lambda x: x), "output_dim": 1, "sample_sets": [S], "focal": S[:1], "nodes": list(range(n)),
        "samples": S, "ancestors": [n - 1], "intervals": [[0.0, 1.0]], "windows": [0.0, float(ts.sequence_length)], "time_windows": np.array([0.0, 1.0, float("inf")]),
        "quantiles": [0.5], "genotypes": np.zeros(ts.num_samples, dtype=np.int8), "num_components": 1, "positions": [0.5], "length": float(ts.sequence_length),
        "key": "x", "keep": [True] * nrows, "num_rows": nrows, "site_ids": [0], "sites": [0], "node_mapping": list(range(n)), "rank": (0, 0), "num_leaves": 3,
        "ancestral_state": "A", "derived_state": "T", "record": "{}", "alleles": ("A", "T"), "file_or_path": io.BytesIO(), "output": io.StringIO(),
        "ancestral_states": ["A"] * nrows, "derived_states": ["T"] * nrows, "records": ["{}"] * nrows, "timestamps": ["t"] * nrows,
        "metadatas": [b""] * nrows, "locations": [[0.0]] * nrows, "parents": [[-1]] * nrows, "row": (obj[0] if tabname and nrows else None),
    }
    if cn == "TreeSequence":
        table["other"] = ts
    elif cn == "Tree":
        table["other"] = ts.last()
    elif cn == "TableCollection":
        table["other"] = ts.dump_tables()
    elif tabname:
        table["other"] = getattr(ts.dump_tables(), tabname)
    kw = {}
    for p in params:
        if p.kind in (p.VAR_KEYWORD, p.VAR_POSITIONAL):
            continue
        if p.default is inspect._empty:
            if p.name not in table or table[p.name] is None:
                return None
            kw[p.name] = table[p.name]
    names = {p.name for p in params}
    if cn == "TreeSequence" and mn in ARITY_OF:
        k = ARITY_OF[mn]
        if "sample_sets" in names:
            kw["sample_sets"] = [[u] for u in S[:4]]
        if "W" in names:
            kw["W"] = np.ones((ts.num_samples, 2))
        if "indexes" in names:
            kw["indexes"] = [tuple(range(k))] if mn != "genetic_relatedness_weighted" else [(0, 1)]
    if cn == "TreeSequence" and mn == "count_topologies":
        kw["sample_sets"] = [[u] for u in S[:3]]
    if mn == "union":
        kw["node_mapping"] = [tskit.NULL] * ts.num_nodes
    return kw


def auto_value(ts, kind, pname, v, S):
    if kind == "id_list_list":
        l = [int(x) for x in unwrap(v)]
        return [l, S] if len(l) % 2 else [S, l]
    if kind == "site_lists":       # one or two lists of site ids
        l = [int(x) for x in unwrap(v)]
        return [[l], [[0], l], [l, l]][len(l) % 3]
    if kind == "index_tuples":
        return [tuple(int(x) for x in unwrap(v))] if len(v) else []
    if kind == "length":
        if pname == "W":
            return np.ones((int(v), 1))
        if pname == "genotypes":
            return np.zeros(int(v), dtype=np.int8)
        return np.ones(int(v), dtype=bool)
    if kind == "windows":
        return np.array(conv(kind, v), dtype=float)
    if kind in ("intervals", "position", "time"):
        return conv(kind, v)
    return unwrap(v)


def call_auto(ts, objs, name, kind, arg, S):
    import inspect
    parts = name.split(":")
    cn, mn = parts[0].split(".")
    pname = parts[1]
    flip = parts[2] if len(parts) > 2 and parts[2] else None
    mode = parts[3] if len(parts) > 3 else None
    obj = objs(cn)
    m = getattr(obj, mn)
    params = list(inspect.signature(m).parameters.values())
    kw = default_args(ts, cn, obj, params, S, mn)
    if kw is None:
        return "uncallable"
    kw[pname] = auto_value(ts, kind, pname, arg, S)
    if flip:
        d = [p.default for p in params if p.name == flip][0]
        kw[flip] = not d
    if mode:
        kw["mode"] = mode
    r = m(**kw)
    if inspect.isgenerator(r) or hasattr(r, "__next__"):
        r = [x for _, x in zip(range(50), r)]
    return r


COLUMN_FAULTS = ["truncate", "extend", "empty", "offset_nonmonotone", "offset_last_short", "offset_last_long", "offset_first_nonzero", "offset_negative",
                 "offset_huge", "wrong_dtype_float"]


def call_columns(ts, tname, cidx, fault, method):
    """set_columns / append_columns with one damaged column; afterwards every row is read, the table is copied and compared"""
    tables = ts.dump_tables()
    t = getattr(tables, tname)
    cols = {k: v for k, v in t.asdict().items() if k != "metadata_schema"}
    names = sorted(cols)
    if cidx >= len(names):
        return "nocolumn"
    k = names[cidx]
    a = np.array(cols[k])
    if fault == "truncate":
        a = a[:-1] if len(a) else a
    elif fault == "extend":
        a = np.concatenate([a, a[-1:] if len(a) else np.zeros(1, dtype=a.dtype)])
    elif fault == "empty":
        a = a[:0]
    elif fault == "wrong_dtype_float":
        a = a.astype(np.float64) + 0.5
    else:
        if not k.endswith("_offset") or len(a) < 2:
            return "nocolumn"
        a = a.copy()
        if fault == "offset_nonmonotone":
            a[len(a) // 2] = a[-1] + 7
        elif fault == "offset_last_short":
            a[-1] = max(0, int(a[-1]) - 1)
        elif fault == "offset_last_long":
            a[-1] = a[-1] + 9
        elif fault == "offset_first_nonzero":
            a[0] = 1
        elif fault == "offset_negative":
            a = a.astype(np.int64)
            a[1] = -5
        elif fault == "offset_huge":
            a[-1] = 2 ** 40
    cols[k] = a
    before = t.copy()
    try:
        getattr(t, method)(**cols)
    except Exception:
        # a refused bulk assignment must leave a *usable* table behind (C09 does not ask for an unchanged one: set_columns clears
        # first): read every row, copy, compare with the copy, append a row, sort the collection
        try:
            rows = [r for r in t]
            repr(rows)[:10]
            same = t.copy().equals(t)
            if len(before):
                t.append(before[0])
        except Exception as e2:      # reading / copying / appending to the table after the refusal must simply work
            raise AssertionError("LATENT: after %s.%s refused the columns the table is unusable: %s: %s" % (tname, method, type(e2).__name__, str(e2)[:100]))
        if not same:
            raise AssertionError("LATENT: %s.%s refused the columns and left a table that differs from its own copy" % (tname, method))
        raise
    # accepted: the table must be fully readable and self-consistent
    rows = [r for r in t]
    t2 = t.copy()
    assert t2.equals(t)
    repr(rows)[:10]
    tables.dump(os.devnull) if False else None
    return "accepted"


def run_programs(item):
    """worker: item = dict(a=abstract ts, programs=[...]) -> outcomes"""
    import signal
    ts = make_ts(item["a"])
    base = probe(ts)
    out = []
    longtree = ts.first(sample_lists=True)     # a Tree that lives through the whole batch: history accumulates on it
    signal.signal(signal.SIGALRM, signal.SIG_DFL)      # a call that does not return within 30 s kills the worker: "hang"
    for p in item["programs"]:
        signal.alarm(30)
        tree = ts.first(sample_lists=True)
        variant = tskit.Variant(ts) if ts.num_sites else None
        try:
            if p["name"] == "columns":
                r = call_columns(ts, *p["args"])
            elif ":" in p["name"]:
                tabs = ts.dump_tables()
                lookup = dict(TreeSequence=ts, Tree=(longtree if p.get("long") else tree), TableCollection=tabs, Variant=variant, NodeTable=tabs.nodes, EdgeTable=tabs.edges,
                              SiteTable=tabs.sites, MutationTable=tabs.mutations, IndividualTable=tabs.individuals, PopulationTable=tabs.populations,
                              MigrationTable=tabs.migrations, ProvenanceTable=tabs.provenances)
                r = call_auto(ts, lambda cn: lookup[cn] if cn != "LdCalculator" else tskit.LdCalculator(ts), p["name"], p["kinds"][0], p["args"][0],
                              [int(u) for u in ts.samples()])
                if isinstance(r, str) and r == "uncallable":
                    out.append(["uncallable", 1])
                    signal.alarm(0)
                    continue
            else:
                r = call(ts, tree, variant, p["name"], p["kinds"], p["args"])
            # touch the result so that lazily produced garbage is read under the sanitizer
            repr(r)[:10]
            oc = "ok"
        except KeyError as e:
            oc = "raise:KeyError" if "not found" in str(e) or True else "nocase"
        except AssertionError as e:          # raised by the harness's own post-conditions (the library raises no AssertionError)
            oc = "latent:" + str(e)[:200]
        except BaseException as e:
            oc = "raise:" + type(e).__name__
        # no latent corruption: the same legal probe must give the same answer, also through the used Tree
        try:
            same = probe(ts) == base and (tree.index == -1 or tree.index < ts.num_trees)
            if p.get("long") and longtree.index != -1:
                same = same and [int(x) for x in longtree.parent_array] == [int(x) for x in ts.at_index(longtree.index).parent_array]
        except BaseException as e:
            same = False
        out.append([oc, 1 if same else 0])
        signal.alarm(0)
    return out


TABLE_ALGS = ["sort", "simplify", "subset", "build_index", "compute_mutation_parents", "compute_mutation_times", "deduplicate_sites",
              "canonicalise", "link_ancestors", "ibd_segments", "keep_intervals", "delete_sites", "tree_sequence", "dump", "union_self", "delete_older",
              "sort_individuals", "squash", "trim"]


def run_table_algs(item):
    """worker: every table algorithm on a (possibly invalid) table collection; returns per-algorithm outcome"""
    import signal
    signal.signal(signal.SIGALRM, signal.SIG_DFL)
    out = []
    for tc in item["tcs"]:
        res = {}
        for alg in TABLE_ALGS:
            signal.alarm(30)
            try:
                t = tcgen.build_tc(tc)
            except Exception as e:
                res[alg] = "build:" + type(e).__name__
                continue
            n = len(t.nodes)
            try:
                if alg == "sort":
                    t.sort()
                elif alg == "simplify":
                    t.simplify(list(range(min(n, 2))))
                elif alg == "subset":
                    t.subset(list(range(n))[::-1])
                elif alg == "build_index":
                    t.build_index()
                elif alg == "compute_mutation_parents":
                    t.compute_mutation_parents()
                elif alg == "compute_mutation_times":
                    t.compute_mutation_times()
                elif alg == "deduplicate_sites":
                    t.deduplicate_sites()
                elif alg == "canonicalise":
                    t.canonicalise()
                elif alg == "link_ancestors":
                    t.link_ancestors(list(range(min(n, 2))), list(range(n)))
                elif alg == "ibd_segments":
                    t.ibd_segments(within=list(range(n)), store_segments=True)
                elif alg == "keep_intervals":
                    t.keep_intervals([[0, 1]])
                elif alg == "delete_sites":
                    t.delete_sites([0] if len(t.sites) else [])
                elif alg == "tree_sequence":
                    ts = t.tree_sequence()
                    for tree in ts.trees():
                        tree.num_samples(tree.virtual_root)
                elif alg == "dump":
                    fd, path = tempfile.mkstemp(dir="/dev/shm" if os.path.isdir("/dev/shm") else None)
                    os.close(fd)
                    try:
                        t.dump(path)
                        tskit.TableCollection.load(path)
                    finally:
                        os.remove(path)
                elif alg == "union_self":
                    t.union(t.copy(), np.arange(n, dtype=np.int32))
                elif alg == "delete_older":
                    t.delete_older(1.0)
                elif alg == "sort_individuals":
                    t.sort_individuals()
                elif alg == "squash":
                    t.edges.squash()
                elif alg == "trim":
                    t.trim()
                res[alg] = "ok"
            except BaseException as e:
                res[alg] = "raise:" + type(e).__name__
        signal.alarm(0)
        out.append(res)
    return out


def run():
    chk = Check("C09", level="exploration")
    rng = random.Random(SEED * 7919 + 9)
    # ---------- single calls over boundary values, on a few valid tree sequences
    nts = 2 if QUICK else 12
    total = 0
    uncallable = set()
    called = set()
    okc = {}
    for k in range(nts):
        while True:
            a = gen.random_abstract(rng, N=rng.randint(4, 7), K=rng.randint(2, 4), max_edges=10, nsites=3, nmuts=3, nalleles=4, p_internal_sample=0.2)
            if sum(a["flags"]) >= 4 and len(a["sites"]) >= 2 and len(a["edges"]) >= 3:
                break
        a["no_edge_metadata"] = 1 if k % 2 == 0 else 0
        a["single_mutation_sites"] = 1 if k % 2 == 1 else 0
        ts = make_ts(a)
        tmp = tempfile.mkdtemp(prefix="c09_")
        try:
            dpath = os.path.join(tmp, "dims.json")
            with open(dpath, "w") as fh:
                json.dump(dims_of(ts), fh)
            apath = os.path.join(tmp, "auto.json")
            auto, nmeth = discover()
            with open(apath, "w") as fh:
                json.dump(auto, fh)
            progs, st = common.tlc_eval_json("Dump_Api", env={"DIMS": dpath, "AUTO": apath}, timeout=3000)
            curated = [p for p in progs if ":" not in p["name"] and p["name"] != "columns"]
            autos = [p for p in progs if ":" in p["name"]]
            colps = [p for p in progs if p["name"] == "columns"]
            chk.extra.update(auto_methods=nmeth, auto_entries=len(auto), auto_programs_enumerated=len(autos), column_programs_enumerated=len(colps))
            # (all column programs are run in both tiers: they are cheap)
            # Tree methods are also run on a long-lived Tree object that accumulates the history of the whole batch
            autos = autos + [dict(p, long=1) for p in autos if p["name"].startswith("Tree.")]
            rng.shuffle(autos)
            progs = curated + autos + colps
        finally:
            import shutil
            shutil.rmtree(tmp, ignore_errors=True)
        chk.add_tlc(st)
        chk.states += len(progs)
        chk.transitions += len(progs)
        B = 40
        items = [dict(a=a, programs=progs[s:s + B]) for s in range(0, len(progs), B)]
        res = isolate.map_isolated("harness.props.c09:run_programs", items, flavour="san")
        # attribute crashes: re-run a crashed batch one program at a time
        flat = []
        for it, r in zip(items, res):
            if isinstance(r, dict) and "crash" in r:
                singles = isolate.map_isolated("harness.props.c09:run_programs", [dict(a=a, programs=[p]) for p in it["programs"]], flavour="san")
                for p, sr in zip(it["programs"], singles):
                    flat.append((p, ["crash", ("HANG (no return within 30 s) " if "-14" in sr.get("crash", "") else "") + sr.get("crash", "") + "\n" + sr.get("stderr", "")[:2500]]
                                 if isinstance(sr, dict) and "crash" in sr else sr[0]))
            else:
                flat.extend(zip(it["programs"], r))
        for p, o in flat:
            total += 1
            ent = p["name"].split(":")[0] + (":" + p["name"].split(":")[1] if ":" in p["name"] else "")
            okc[ent] = okc.get(ent, 0) + (1 if o[0] == "ok" or o[0] == "accepted" else 0)
            chk.note_case(dict(ts=k, name=p["name"], args=p["args"]), True)
            key = "%s%s" % (p["name"], p["args"])
            if o[0] == "crash":
                sig = None
                nn = ts.num_nodes
                if p["name"].split(":")[0] in ("tables.link_ancestors_ancestors", "TableCollection.link_ancestors") and "ancestor_mapper_init_ancestors" in o[1] \
                        and (":" not in p["name"] or p["name"].split(":")[1] == "ancestors") and isinstance(p["args"][0], list) \
                        and nn in p["args"][0] and all(0 <= x <= nn for x in p["args"][0]):
                    sig = "link-ancestors-ancestor-id-equals-num-nodes"
                chk.violation("call %s%s crashed / sanitizer report:\n%s" % (p["name"], p["args"], o[1]), dict(a=a, program=p), signature=sig)
            elif p["must_raise"] and o[0] == "ok":
                chk.violation("out-of-range identifier accepted silently: %s%s returned normally" % (p["name"], p["args"]), dict(a=a, program=p))
            elif o[0].startswith("latent:"):
                chk.violation("after %s%s the object is not in the state the call's outcome implies: %s" % (p["name"], p["args"], o[0]), dict(a=a, program=p))
            elif o[0] == "uncallable":
                uncallable.add(p["name"].split(":")[0])
            elif not o[1]:
                chk.violation("latent corruption: after %s%s (%s) a legal probe gives a different answer" % (p["name"], p["args"], o[0]), dict(a=a, program=p))
            else:
                chk.traces += 1
                if ":" in p["name"]:
                    called.add(p["name"].split(":")[0])
    chk.extra["single_calls"] = total
    chk.extra["auto_methods_called"] = len(called)
    chk.extra["entries_with_a_returning_call"] = sum(1 for v in okc.values() if v)
    chk.extra["entries_never_returning"] = sorted(k_ for k_, v in okc.items() if not v)
    chk.extra["auto_methods_uncallable"] = sorted(uncallable - called)
    # ---------- table algorithms on the corruption universe of C02
    from harness.props.c02 import seeds
    sd = seeds(rng, 6 if QUICK else 60)
    tmp = tempfile.mkdtemp(prefix="c09g_")
    try:
        sf = os.path.join(tmp, "seeds.ndjson")
        with open(sf, "w") as fh:
            for s in sd:
                fh.write(json.dumps(tcgen.strip(s)) + "\n")
        recs, st = common.tlc_eval_json("Dump_Gate", env={"SEEDS": sf}, timeout=3000)
    finally:
        import shutil
        shutil.rmtree(tmp, ignore_errors=True)
    chk.add_tlc(st)
    tcs = []
    for r in recs:
        s = sd[r["seed"] - 1]
        tc = dict(r["tc"])
        tc["_anc"] = s["_anc"]
        tc["_der"] = s["_der"] + [1] * 4
        tcs.append(tc)
    if QUICK:
        # every corruption of a user-supplied index is kept (the tree-wise validation walks the index arrays), the rest is sampled
        must = [i for i, r in enumerate(recs) if r["what"][0] == "index"]
        rest = [i for i in range(len(tcs)) if i not in set(must)]
        idx = must + rng.sample(rest, min(len(rest), max(0, 1500 - len(must))))
        tcs = [tcs[i] for i in idx]
        recs = [recs[i] for i in idx]
    B = 25
    items = [dict(tcs=tcs[s:s + B]) for s in range(0, len(tcs), B)]
    res = isolate.map_isolated("harness.props.c09:run_table_algs", items, flavour="san", timeout=3000)
    nalg = 0
    for it, r, s0 in zip(items, res, range(0, len(tcs), B)):
        if isinstance(r, dict) and "crash" in r:
            singles = isolate.map_isolated("harness.props.c09:run_table_algs", [dict(tcs=[tc]) for tc in it["tcs"]], flavour="san")
            for q, sr in enumerate(singles):
                chk.note_case(dict(tc=tcgen.strip(it["tcs"][q])), True)
                if isinstance(sr, dict) and "crash" in sr:
                    chk.violation("a table algorithm crashed / sanitizer report on a corrupted table collection (corruption %s):\n%s" % (
                        recs[s0 + q]["what"], sr.get("stderr", "")[:2500]), dict(tc=tcgen.strip(it["tcs"][q]), what=recs[s0 + q]["what"]))
                else:
                    chk.traces += 1
                    nalg += len(TABLE_ALGS)
        else:
            for q, one in enumerate(r):
                chk.note_case(dict(tc=tcgen.strip(it["tcs"][q])), True)
                chk.traces += 1
                nalg += len(one)
    chk.extra.update(corrupted_collections=len(tcs), table_algorithm_calls=nalg, table_algorithms=TABLE_ALGS)
    chk.sample(dict(program=flat[0][0], outcome=flat[0][1]))
    chk.rule = ("single calls: every entry of the ApiBounds catalogue x every boundary value of its argument slots (ids in {-2,-1,0,n-1,n,n+1,2^31-1}, "
                "positions {-1,0,L-1,L,L+1,nan,inf}, id lists, windows, intervals, times) on valid tree sequences; table algorithms: 19 algorithms on every "
                "single-field corruption of C02's universe; all in the ASan/UBSan build; distinct by (object, entry, arguments); every case is non-trivial")
    chk.assumptions = ["memory safety is decided by ASan/UBSan (leak detection off); the specification supplies programs and the accept/raise oracle",
                       "-1 and the virtual root are left to the entry point (not required to raise)"]
    chk.exhaustive = True
    return chk.finish()


if __name__ == "__main__":
    common.assert_imports()
    common.main_wrapper(run)
