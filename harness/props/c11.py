"""C11 - editing operations change only what they document and preserve everything else.

 code -> spec: on real tree sequences with an identity tag in the metadata of *every* row
 (edges and migrations included), known and unknown mutation times, individuals and populations,
 the editing operations are run with enumerated / random arguments (interval lists over the unit
 cells, site-id subsets, cutoff times below / at / between / above node times) and the tables
 before and after are validated by TLC against the relations of TskEdits.
 spec -> code: inputs include the TLC-enumerated universe."""
import copy
import random

import numpy as np
import tskit

from harness import common, gen, abstr, tcgen
from harness.common import QUICK, SEED, Check


def build(a, rng):
    cmap = gen.CMap("id")            # trims need exact subtraction of coordinates
    tmap = gen.CMap(rng.choice(["id", "big"]), offset=rng.choice([0, 0, -7]))
    tc = tcgen.from_abstract(a, rng, rich=False)
    if tc["muts"] and rng.random() < 0.5:
        tcgen.known_times(tc, a)
    t = tcgen.build_tc(tc, cmap, tmap)
    abstr.decorate(t, rng, n_ind=rng.randint(0, 2), n_pop=rng.randint(1, 2), extra_flags=True)
    with_migs = rng.random() < 0.3
    if with_migs:
        for i in range(rng.randint(1, 3)):
            l = rng.randrange(0, a["L"])
            t.migrations.add_row(cmap(l), cmap(rng.randint(l + 1, a["L"])), rng.randrange(len(t.nodes)),
                                 rng.randrange(len(t.populations)), rng.randrange(len(t.populations)), tmap(rng.randint(0, 3)),
                                 metadata=b"g%d" % i)
        t.sort()
    t.build_index()
    return t, cmap, tmap, with_migs


def random_intervals(rng, L):
    cells = [rng.random() < 0.5 for _ in range(L)]
    ivs = []
    x = 0
    while x < L:
        if cells[x]:
            y = x
            while y < L and cells[y] and not (y > x and rng.random() < 0.2):
                y += 1
            ivs.append([x, y])
            x = y
        else:
            x += 1
    return ivs


def drive(a, rng):
    try:
        return drive_(a, rng)
    except Exception as e:
        import traceback
        return dict(error="%s: %s" % (type(e).__name__, e), tb=traceback.format_exc()[-1500:], a=a)


def drive_(a, rng):
    t, cmap, tmap, with_migs = build(a, rng)
    ts = t.tree_sequence()
    L = a["L"]
    A = lambda tab: abstr.abstract_of(tab, cmap, tmap, tscale=2)
    case = dict(a=A(ts.dump_tables()), ops=[], a2=None, ragged_ok=1, ragged_why="")
    rg0, cleared = abstr.ragged_variant(ts.dump_tables(), rng)
    rts = rg0.tree_sequence()

    def ragged(name, out_tagged, out_ragged):
        why = abstr.ragged_consistent(out_tagged, out_ragged, cleared)
        if why and case["ragged_ok"]:
            case["ragged_ok"] = 0
            case["ragged_why"] = "%s: %s" % (name, why)
    ivs = random_intervals(rng, L)
    fivs = [[cmap(x), cmap(y)] for x, y in ivs]
    if ivs or True:
        if ivs:
            k = ts.keep_intervals(fivs, simplify=False, record_provenance=False)
            case["ops"].append(dict(op="keep_intervals", base="in", ivs=ivs, b=A(k.dump_tables())))
            ragged("keep_intervals", k.dump_tables(), rts.keep_intervals(fivs, simplify=False, record_provenance=False).dump_tables())
            tfac = ts.dump_tables()
            tfac.keep_intervals(fivs, simplify=False, record_provenance=False)
            if not tfac.equals(k.dump_tables(), ignore_provenance=True) and case["ragged_ok"]:
                case["ragged_ok"] = 0
                case["ragged_why"] = "TableCollection.keep_intervals differs from TreeSequence.keep_intervals"
        else:
            k = None
        if len(ivs) == 0 or sum(y - x for x, y in ivs) < L:
            d = ts.delete_intervals(fivs, simplify=False, record_provenance=False) if ivs else None
            if d is not None:
                case["ops"].append(dict(op="delete_intervals", base="in", ivs=ivs, b=A(d.dump_tables())))
                ragged("delete_intervals", d.dump_tables(), rts.delete_intervals(fivs, simplify=False, record_provenance=False).dump_tables())
        # trims on the clipped result (they need >= 1 edge)
        trim_ok = k is not None and k.num_edges > 0
        if trim_ok:
            try:
                k.dump_tables().trim(record_provenance=False)
            except ValueError:          # documented: migrations reaching beyond the edges on both sides
                trim_ok = False
        if trim_ok:
            kt = k.dump_tables()
            case["a2"] = A(kt)
            lo = int(min(kt.edges.left))
            hi = int(max(kt.edges.right))
            op = rng.choice(["ltrim", "rtrim", "trim"])
            r = kt.copy()
            getattr(r, op)(record_provenance=False)
            r2 = rts.keep_intervals(fivs, simplify=False, record_provenance=False).dump_tables()
            getattr(r2, op)(record_provenance=False)
            ragged(op, r, r2)
            shift = lo if op in ("ltrim", "trim") else 0
            newL = (hi if op in ("rtrim", "trim") else L) - shift
            # the shifted coordinates are new floats: register them
            for x in range(0, L + 1):
                cmap(x)
            case["ops"].append(dict(op=op, base="a2", shift=shift, newL=newL, b=A(r)))
    if ts.num_sites:
        ids = rng.sample(range(ts.num_sites), rng.randint(0, ts.num_sites))
        r = ts.delete_sites(gen.arg_form(rng, ids), record_provenance=False)
        case["ops"].append(dict(op="delete_sites", base="in", ids=ids, b=A(r.dump_tables())))
        ragged("delete_sites", r.dump_tables(), rts.delete_sites(ids, record_provenance=False).dump_tables())
        tfac = ts.dump_tables()
        tfac.delete_sites(ids, record_provenance=False)
        if not tfac.equals(r.dump_tables(), ignore_provenance=True) and case["ragged_ok"]:
            case["ragged_ok"] = 0
            case["ragged_why"] = "TableCollection.delete_sites differs from TreeSequence.delete_sites"
    # cutoff times on the doubled grid: below, at, between and above node times
    t2 = rng.randint(-1, 2 * max(a["time"]) + 1)
    tf = tmap(t2 / 2)
    nf = rng.choice([0, 0, 1, 4])
    npop = rng.choice([-1, 0])
    d = ts.dump_tables()
    d.delete_older(tf)
    case["ops"].append(dict(op="delete_older", base="in", t2=t2, b=A(d)))
    d2 = rg0.copy()
    d2.delete_older(tf)
    ragged("delete_older", d, d2)
    if not with_migs:
        sp = ts.split_edges(tf, flags=nf, population=npop)
        case["ops"].append(dict(op="split_edges", base="in", t2=t2, nf=nf, np=npop, b=A(sp.dump_tables())))
        dc = ts.decapitate(tf, flags=nf, population=npop)
        case["ops"].append(dict(op="decapitate", base="in", t2=t2, nf=nf, np=npop, mid=A(sp.dump_tables()), b=A(dc.dump_tables())))
        if t.edges.num_rows and rng.random() < 0.5 and not np.any(tskit.is_unknown_time(t.mutations.time)):
            t0 = ts.dump_tables()
            t0.edges.drop_metadata()       # extend_haplotypes refuses edge metadata (documented)
            ts0 = t0.tree_sequence()
            ext = ts0.extend_haplotypes()
            s1, s2 = simplified_pair(ts0, ext)
            case["ops"].append(dict(op="extend_haplotypes", base="ext", simplify_same=1 if s1.equals(s2) else 0, b=A(ext.dump_tables())))
            case["a_ext"] = A(t0)
    if case["a2"] is None:
        case["a2"] = case["a"]
    return case


def extend_input(rng):
    """an input on which extend_haplotypes has something to do: a unary node present on part of an edge's span
    (child -> u -> parent on one stretch, child -> parent next to it); u is sometimes an (internal) sample whose
    flags carry extra bits"""
    a = gen.random_abstract(rng, N=rng.randint(3, 6), K=rng.randint(2, 5), max_edges=10, nsites=3, nmuts=3, max_time=3)
    a["time"] = [2 * t for t in a["time"]]           # leave room for intermediate times
    for m in a["muts"]:
        m["time"] = -1
    edges = [dict(e) for e in a["edges"]]
    for _ in range(rng.randint(1, 2)):
        cand = [e for e in edges if e["right"] - e["left"] >= 2 and a["time"][e["parent"]] - a["time"][e["child"]] >= 2]
        if not cand:
            break
        e = rng.choice(cand)
        cut = rng.randint(e["left"] + 1, e["right"] - 1)
        u = len(a["time"])
        a["time"].append(rng.randint(a["time"][e["child"]] + 1, a["time"][e["parent"]] - 1))
        a["flags"].append(1 if rng.random() < 0.5 else 0)
        edges.remove(e)
        lo, hi = (e["left"], cut) if rng.random() < 0.5 else (cut, e["right"])
        other = (cut, e["right"]) if lo == e["left"] else (e["left"], cut)
        edges.append(dict(left=lo, right=hi, parent=e["parent"], child=u))
        edges.append(dict(left=lo, right=hi, parent=u, child=e["child"]))
        edges.append(dict(left=other[0], right=other[1], parent=e["parent"], child=e["child"]))
    order = sorted(range(len(edges)), key=lambda i: (a["time"][edges[i]["parent"]], edges[i]["parent"], edges[i]["child"], edges[i]["left"]))
    a["edges"] = [edges[i] for i in order]
    # mutation parents may have changed with the new nodes: recompute, and give every mutation a known time
    return a


def extend_case(rng):
    a = extend_input(rng)
    cmap = gen.CMap("id")
    tmap = gen.CMap("id")
    t = gen.build_tables(a, cmap, tmap)
    abstr.decorate(t, rng, n_ind=0, n_pop=1, edge_metadata=False, extra_flags=True)
    t.sort()
    t.build_index()
    t.compute_mutation_parents()
    t.compute_mutation_times()
    for x in t.mutations.time:
        tmap.inv[float(x)] = float(x)
    ts = t.tree_sequence()
    A = lambda tab: abstr.abstract_of(tab, cmap, tmap, tscale=2)
    ext = ts.extend_haplotypes()
    s1, s2 = simplified_pair(ts, ext)
    base = A(ts.dump_tables())
    return dict(a=base, a2=base, ragged_ok=1, ragged_why="", ops=[dict(op="extend_haplotypes", base="a2", simplify_same=1 if s1.equals(s2) else 0, b=A(ext.dump_tables()))],
                changed=0 if ext.tables.edges.equals(ts.tables.edges) else 1)


def simplified_pair(ts, ext):
    """simplify both with the node table kept (stable node ids) and put the rows in sorted order: extend_haplotypes documents that
    simplify recovers the original "possibly with edges in a different order", and with equal node times simplify's own node
    numbering depends on the order of the input edges"""
    out = []
    for x in (ts, ext):
        t = x.simplify(filter_nodes=False).dump_tables()
        t.provenances.clear()
        t.sort()
        out.append(t)
    return out[0], out[1]


def extend_signature(c, fails):
    """known finding: extend_haplotypes pulls a mutation that sits on a *detached* non-sample node (no parent and no child at the site's
    position in the input) into a sample's ancestry when it extends that node over the position.  Only when nothing else failed."""
    if not set(fails) <= {"extend_genotypes", "extend_simplified_differs"}:
        return None
    exts = [e for e in c["ops"] if e["op"] == "extend_haplotypes"]
    if len(exts) != 1:
        return None
    a = c["a2"] if exts[0].get("base") == "a2" else c.get("a_ext")
    b = exts[0]["b"]
    if a is None:
        return None

    def attached(t, u, x):
        return any(e["left"] <= x < e["right"] and (e["child"] == u or e["parent"] == u) for e in t["edges"])
    for m in a["muts"]:
        x = a["sites"][m["site"]]["pos"]
        u = m["node"]
        if not a["flags"][u] and not attached(a, u, x) and attached(b, u, x):
            return "extend-haplotypes-mutation-on-detached-node"
    return None


def run():
    chk = Check("C11")
    rng = random.Random(SEED * 7919 + 11)
    cases = []
    uni, ust = common.tlc_eval_json("Dump_Universe", cfg="Dump_Universe_Q" if QUICK else "Dump_Universe_T")
    chk.add_tlc(ust)
    from harness.props.c03 import mutation_layers
    for a in rng.sample(uni, min(len(uni), 150 if QUICK else 10000)):
        cases.append(drive(rng.choice(mutation_layers(a, rng, maxm=2)), rng))
    nuni = len(cases)
    for i in range(900 if QUICK else 60000):
        a = gen.random_abstract(rng, N=rng.randint(2, 7), K=rng.randint(1, 5), max_edges=12, nsites=4, nmuts=4)
        if i % 3 == 2:       # node ids in no particular order (ids carry no meaning: parents with smaller ids than children, samples anywhere)
            a = gen.permute_nodes(a, random.Random(SEED * 1000003 + i))
        cases.append(drive(a, rng))
    nplain = len(cases)
    for i in range(400 if QUICK else 24000):
        try:
            cases.append(extend_case(rng))
        except Exception as e:
            import traceback
            cases.append(dict(error="%s: %s" % (type(e).__name__, e), tb=traceback.format_exc()[-1500:], a=dict(extend=i)))
    for c in [c for c in cases if "error" in c]:
        chk.note_case(c["a"], True)
        chk.violation("an editing operation raised on a valid input: %s\n%s" % (c["error"], c["tb"]), c)
    cases = [c for c in cases if "error" not in c]
    # the extend_haplotypes relation compares with the metadata-free input
    for c in cases:
        for e in c["ops"]:
            if e["base"] == "ext":
                e["base"] = "a2"
                c["a2x"] = 1
        if c.get("a2x"):
            # trims and extend never occur together on a2: give extend its own base
            trims = [e for e in c["ops"] if e["op"] in ("ltrim", "rtrim", "trim")]
            if trims:
                c["ops"] = [e for e in c["ops"] if e["op"] != "extend_haplotypes"]
            else:
                c["a2"] = c["a_ext"]
        c.pop("a_ext", None)
        c.pop("a2x", None)
    corrupted = []
    for c in cases:
        if len(corrupted) >= 8:
            break
        for e in c["ops"]:
            if e["b"]["edges"] and e["op"] in ("keep_intervals", "split_edges", "delete_older"):
                d = copy.deepcopy(c)
                ee = [x for x in d["ops"] if x["op"] == e["op"]][0]
                what = rng.choice(["tag", "drop"])
                if what == "tag":
                    ee["b"]["edges"][0]["tag"] = ee["b"]["edges"][0]["tag"] + 50
                else:
                    ee["b"]["edges"] = ee["b"]["edges"][1:]
                corrupted.append(d)
                break
    cv, _ = common.tlc_validate("Trace_Edits", corrupted, chunks=4)
    acc = sum(1 for d in corrupted if not cv[d["id"]])
    chk.extra["binding_selftest"] = dict(corrupted=len(corrupted), rejected=len(corrupted) - acc)
    if acc:
        raise common.MachineryError("Trace_Edits accepted %d corrupted traces" % acc)
    verdicts, st = common.tlc_validate("Trace_Edits", cases)
    chk.add_tlc(st)
    opcount = {}
    for c in cases:
        for e in c["ops"]:
            opcount[e["op"]] = opcount.get(e["op"], 0) + 1
        chk.note_case(dict(e=c["a"]["edges"], m=c["a"]["muts"], ops=[(e["op"], e.get("ivs"), e.get("t2"), e.get("ids")) for e in c["ops"]]),
                      len(c["a"]["edges"]) >= 2 and len(c["ops"]) >= 3)
        f = verdicts[c["id"]]
        for cl in f:
            chk.extra.setdefault("clause_hist", {})
            chk.extra["clause_hist"][cl] = chk.extra["clause_hist"].get(cl, 0) + 1
        if f:
            chk.violation("trace rejected by Trace_Edits: %s %s" % (sorted(f), st["eval_errors"].get(c["id"], "")[-400:]), c, signature=extend_signature(c, f))
        else:
            chk.traces += 1
    chk.extra.update(universe_cases=nuni, random_cases=len(cases) - nuni, operations=opcount,
                     extend_cases_where_edges_changed=sum(c.get("changed", 0) for c in cases))
    c = cases[-1]
    chk.sample(dict(edges=c["a"]["edges"][:4], ops=[{k: v for k, v in e.items() if k not in ("b", "mid")} for e in c["ops"]]))
    chk.rule = ("tree sequences with a tag on every row x interval lists over unit cells, site-id subsets, cutoff times on a doubled grid "
                "(below/at/between/above node times), new-node flags/population; non-trivial = >=2 edges and >=3 operations recorded")
    chk.assumptions = ["integer coordinates (trims subtract coordinates exactly)", "split_edges/decapitate/extend_haplotypes inputs have no migrations; "
                       "extend_haplotypes input has no edge metadata (documented errors)", "simplify equality for extend_haplotypes evaluated with TableCollection.equals"]
    return chk.finish()


if __name__ == "__main__":
    common.assert_imports()
    common.main_wrapper(run)
