"""C02 - only table collections meeting the data-model requirements become tree sequences.

 spec -> code: TLC (Dump_Gate) enumerates, for valid seed collections, every single-field
 boundary departure / row swap / duplication / user-index corruption together with the verdict
 of the declarative Valid(tc); each is replayed on the real gate (tree_sequence() and
 dump -> tskit.load) in isolated worker processes.
 code -> spec: random multi-field corruptions are run through the real gate first and the
 recorded (tc, accepted, rows unchanged, exception type) are validated by TLC (Trace_Gate)."""
import copy
import os
import random
import tempfile

import tskit

from harness import common, gen, tcgen, isolate
from harness.common import QUICK, SEED, Check


def real_gate(tc, maps):
    """run the real gate; returns observations"""
    cmap = gen.CMap(maps[0])
    tmap = gen.CMap(maps[1], offset=maps[2])
    t = tcgen.build_tc(tc, cmap, tmap)
    before = t.copy()
    accepted = 0
    exc_ok = 1
    msg = ""
    try:
        ts = t.tree_sequence()
        accepted = 1
        # an accepted collection must actually be usable
        for tree in ts.trees():
            pass
    except (tskit.LibraryError, ValueError) as e:
        msg = str(e)[:100]
    except Exception as e:  # any other exception type is not a library error
        exc_ok = 0
        msg = "%s: %s" % (type(e).__name__, str(e)[:100])
    b2 = before.copy()
    t2 = t.copy()
    if not tc["hasidx"]:
        b2.drop_index()
        t2.drop_index()
    rows_unchanged = 1 if all(getattr(t2, n).equals(getattr(b2, n)) for n in (
        "nodes", "edges", "sites", "mutations", "migrations", "individuals", "populations")) else 0
    # load path: dump the (possibly invalid) tables and load as a tree sequence
    loaded = 2
    t3 = before.copy()
    try:
        if not t3.has_index():
            t3.build_index()
        fd, path = tempfile.mkstemp(suffix=".trees", dir="/dev/shm" if os.path.isdir("/dev/shm") else None)
        os.close(fd)
        try:
            t3.dump(path)
            try:
                tskit.load(path)
                loaded = 1
            except (tskit.LibraryError, tskit.FileFormatError, ValueError):
                loaded = 0
            except Exception as e:
                exc_ok = 0
                msg += " load: %s" % type(e).__name__
        finally:
            os.remove(path)
    except (tskit.LibraryError, ValueError):
        loaded = 2   # could not even build an index / dump: load path not applicable
    return dict(accepted=accepted, loaded=loaded, rows_unchanged=rows_unchanged, exc_ok=exc_ok, msg=msg)


def replay_one(item):
    return real_gate(item["tc"], item["maps"])


def seeds(rng, n):
    out = []
    for i in range(n):
        a = gen.random_abstract(rng, N=rng.randint(2, 5), K=rng.randint(1, 4), max_edges=6, nsites=2, nmuts=3)
        tc = tcgen.from_abstract(a, rng)
        t = tcgen.build_tc(tc)
        t.build_index()
        tc["hasidx"] = 1
        tc["ins"] = [int(x) for x in t.indexes.edge_insertion_order]
        tc["rem"] = [int(x) for x in t.indexes.edge_removal_order]
        out.append(tc)
    return out


def random_corruption(rng, tc):
    """multi-field corruption in Python (code -> spec direction)"""
    tc = copy.deepcopy(tc)
    tc["hasidx"] = 0
    tc["ins"] = []
    tc["rem"] = []
    what = []
    for _ in range(rng.choice([0, 1, 2, 2, 3])):
        tabs = [n for n in ["nodes", "edges", "sites", "muts", "migs", "inds"] if tc[n]]
        if not tabs:
            break
        name = rng.choice(tabs)
        rows = tc[name]
        j = rng.randrange(len(rows))
        if rng.random() < 0.15 and len(rows) > 1:
            a, b = rng.sample(range(len(rows)), 2)
            rows[a], rows[b] = rows[b], rows[a]
            if name == "muts":
                tc["_der"][a], tc["_der"][b] = tc["_der"][b], tc["_der"][a]
            what.append((name, "swap", a, b))
            continue
        fields = dict(nodes=["time", "pop", "ind"], edges=["left", "right", "parent", "child"], sites=["pos"],
                      muts=["site", "node", "parent", "time"], migs=["left", "right", "node", "source", "dest", "time"],
                      inds=["parents"])[name]
        f = rng.choice(fields)
        if f in ("time", "left", "right", "pos"):
            v = rng.choice([tcgen.NAN, tcgen.UNK, tcgen.PINF, tcgen.NINF, -1, 0, 1, 2, 3, tc["L"], tc["L"] + 1])
        elif f == "parents":
            v = [rng.choice([-2, -1, 0, j, len(rows), len(rows) - 1])]
        else:
            ref = dict(pop=tc["npop"], ind=len(tc["inds"]), parent=len(tc["nodes"]) if name == "edges" else len(tc["muts"]),
                       child=len(tc["nodes"]), site=len(tc["sites"]), node=len(tc["nodes"]), source=tc["npop"],
                       dest=tc["npop"])[f]
            v = rng.choice([-2, -1, 0, 1, max(ref - 1, -1), ref, ref + 1, j])
        rows[j][f] = v
        what.append((name, j, f, v))
    return tc, what


def run():
    chk = Check("C02")
    rng = random.Random(SEED * 7919 + 2)
    # ---------- spec -> code
    sd = seeds(rng, 40 if QUICK else 300)
    tmp = tempfile.mkdtemp(prefix="c02_")
    try:
        import json
        sf = os.path.join(tmp, "seeds.ndjson")
        with open(sf, "w") as fh:
            for s in sd:
                fh.write(json.dumps(tcgen.strip(s)) + "\n")
        recs, st = common.tlc_eval_json("Dump_Gate", env={"SEEDS": sf}, timeout=3000)
    finally:
        import shutil
        shutil.rmtree(tmp, ignore_errors=True)
    chk.add_tlc(st)
    chk.states += len(recs)      # every enumerated corruption is one evaluated Corrupt action
    chk.transitions += len(recs)
    items = []
    for r in recs:
        s = sd[r["seed"] - 1]
        tc = dict(r["tc"])
        tc["_anc"] = s["_anc"]
        tc["_der"] = s["_der"] + [1] * 4
        cm, tm = gen.random_maps(rng)
        items.append(dict(tc=tc, maps=[cm.kind, tm.kind, tm.offset]))
    res = isolate.map_isolated("harness.props.c02:replay_one", items)
    nvalid = 0
    by_group = {}
    for r, it, ob in zip(recs, items, res):
        want = r["valid"]
        key = (r["what"][0], r["what"][2])
        by_group[str(key)] = by_group.get(str(key), 0) + 1
        chk.note_case(dict(tc=r["tc"]), nontrivial=r["what"][0] != "none")
        nvalid += want
        case = dict(tc=tcgen.strip(it["tc"]), what=r["what"], spec_valid=want, broken=r["broken"], observed=ob, maps=it["maps"])
        if "crash" in ob:
            chk.violation("real gate crashed (%s) on corruption %s" % (ob["crash"], r["what"]), case)
            continue
        probs = []
        if ob["accepted"] != want:
            probs.append("tree_sequence() %s but Valid(tc)=%s (broken groups %s)" % (
                "accepted" if ob["accepted"] else "rejected [%s]" % ob["msg"], bool(want), r["broken"]))
        if ob["loaded"] != 2 and ob["loaded"] != want:
            probs.append("tskit.load %s but Valid(tc)=%s" % ("accepted" if ob["loaded"] else "rejected", bool(want)))
        if not ob["rows_unchanged"]:
            probs.append("table rows changed by the gate")
        if not ob["exc_ok"]:
            probs.append("non-library exception: %s" % ob["msg"])
        if probs:
            chk.violation("; ".join(probs) + " corruption=%s" % (r["what"],), case)
        else:
            chk.traces += 1
    chk.extra["s2c"] = dict(seeds=len(sd), corruptions=len(recs), spec_valid=nvalid, spec_invalid=len(recs) - nvalid,
                            groups=len(by_group))
    # ---------- code -> spec
    n = 4000 if QUICK else 40000
    cases = []
    for i in range(n):
        s = sd[rng.randrange(len(sd))]
        tc, what = random_corruption(rng, s)
        cm, tm = gen.random_maps(rng)
        ob = real_gate(tc, [cm.kind, tm.kind, tm.offset])
        cases.append(dict(tc=tcgen.strip(tc), what=[list(map(str, w)) for w in what], accepted=ob["accepted"], loaded=ob["loaded"],
                          rows_unchanged=ob["rows_unchanged"], exc_ok=ob["exc_ok"], msg=ob["msg"]))
    # binding self-test: flip the recorded verdict
    flipped = [dict(copy.deepcopy(c), accepted=1 - c["accepted"]) for c in cases[:10]]
    fv, _ = common.tlc_validate("Trace_Gate", flipped, chunks=2)
    if any(not fv[c["id"]] for c in flipped):
        raise common.MachineryError("Trace_Gate accepted flipped verdicts")
    chk.extra["binding_selftest"] = dict(flipped=len(flipped), rejected=len(flipped))
    verdicts, st2 = common.tlc_validate("Trace_Gate", cases)
    chk.add_tlc(st2)
    acc = 0
    for c in cases:
        chk.note_case(dict(tc=c["tc"]), nontrivial=len(c["what"]) > 0)
        acc += c["accepted"]
        f = verdicts[c["id"]]
        if f:
            chk.violation("trace rejected by Trace_Gate: %s (corruptions %s) %s" % (f, c["what"], st2["eval_errors"].get(c["id"], "")[-400:]), c)
        else:
            chk.traces += 1
    chk.extra["c2s"] = dict(cases=len(cases), accepted=acc, rejected=len(cases) - acc)
    chk.exhaustive = True
    for r in recs[:3]:
        chk.sample(dict(what=r["what"], valid=r["valid"], broken=r["broken"], tc=r["tc"]))
    chk.rule = ("S2C: for each seed, TLC enumerates every single-field boundary departure (ids in {-2,-1,0,n-1,n,n+1}, "
                "coordinates/times in -1..L+1 plus NaN/unknown/+-inf), adjacent row swaps, row duplication and "
                "user-index corruptions, exhaustively; C2S: 0-3 random field corruptions / row swaps; non-trivial = "
                "at least one corruption; distinct by resulting table collection")
    chk.assumptions = ["seeds are random valid collections (<=5 nodes) with populations, individuals, migrations, known/unknown mutation times",
                       "error codes are not compared, only accept/reject, exception family and row preservation",
                       "topological correctness of mutation.parent is not part of Valid (not claimed by the property)"]
    return chk.finish()


if __name__ == "__main__":
    common.assert_imports()
    common.main_wrapper(run)
