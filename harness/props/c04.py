"""C04 - simplify preserves the sample genealogy and sample genotypes exactly.

 spec -> code: inputs from the TLC-enumerated universe (plus random larger ones) are simplified by
 the real library for sample lists of any nodes and option combinations;
 code -> spec: input, samples, options, output tables, node map and the result of simplifying
 again are validated by TLC against the positional carrier-map definition (TskSimplify)."""
import copy
import random

import numpy as np
import tskit

from harness import common, gen, abstr
from harness.common import QUICK, SEED, Check

OPTS = ["keep_unary", "keep_unary_in_individuals", "keep_input_roots", "filter_nodes", "filter_sites", "filter_individuals",
        "filter_populations", "update_sample_flags", "reduce_to_site_topology"]
DEFAULTS = dict(keep_unary=0, keep_unary_in_individuals=0, keep_input_roots=0, filter_nodes=1, filter_sites=1,
                filter_individuals=1, filter_populations=1, update_sample_flags=1, reduce_to_site_topology=0)


def random_opts(rng):
    o = dict(DEFAULTS)
    m = rng.random()
    if m < 0.3:
        o["keep_unary"] = 1
    elif m < 0.45:
        o["keep_unary_in_individuals"] = 1
    for k, p in (("keep_input_roots", 0.35), ("reduce_to_site_topology", 0.2)):
        if rng.random() < p:
            o[k] = 1
    for k in ("filter_nodes", "filter_sites", "filter_individuals", "filter_populations", "update_sample_flags"):
        if rng.random() < 0.25:
            o[k] = 0
    return o


def drive(a, rng, opts=None, samples=None):
    try:
        return drive_(a, rng, opts, samples)
    except Exception as e:      # simplify (or simplifying its own output again) failed on a valid input
        import traceback
        return dict(error="%s: %s" % (type(e).__name__, e), tb=traceback.format_exc()[-1500:], a=a)


def drive_(a, rng, opts=None, samples=None):
    cmap, tmap = gen.random_maps(rng)
    tables = gen.build_tables(a, cmap, tmap)
    abstr.decorate(tables, rng, edge_metadata=False)   # simplify refuses edges with metadata (documented)
    # extra (non-sample) flag bits must survive simplify
    fl = tables.nodes.flags.copy()
    for u in range(len(fl)):
        if rng.random() < 0.3:
            fl[u] |= rng.choice([2, 4, 1 << 20])
    tables.nodes.flags = fl
    tables.build_index()
    ts = tables.tree_sequence()
    N = ts.num_nodes
    o = opts or random_opts(rng)
    if samples is None:
        k = rng.randint(1, min(4, N))
        samples = rng.sample(range(N), k)
    kw = {k: bool(v) for k, v in o.items()}
    sts, nm = ts.simplify(gen.arg_form(rng, samples) if samples is not None else None, map_nodes=True, **kw)
    # simplifying again (all samples of the result, same options) must change nothing
    s2 = sts.simplify([int(nm[s]) for s in samples], **kw)
    ta, tb = sts.dump_tables(), s2.dump_tables()
    ta.provenances.clear()
    tb.provenances.clear()
    idem = 1 if ta.equals(tb) else 0
    ain = abstr.abstract_of(ts.dump_tables(), cmap, tmap)
    aout = abstr.abstract_of(sts.dump_tables(), cmap, tmap)
    rg, cleared = abstr.ragged_variant(ts.dump_tables(), rng)
    rout = rg.tree_sequence().simplify(samples, **kw).dump_tables()
    why = abstr.ragged_consistent(sts.dump_tables(), rout, cleared)
    # the TableCollection entry point gives the same tables and the same node map
    # ... also when options that have their default value are left out of the call (the documented defaults are part of the interface)
    kw_sparse = {k: v for k, v in kw.items() if v != bool(DEFAULTS[k]) or rng.random() < 0.4}
    tfac = ts.dump_tables()
    nm2 = tfac.simplify(samples, record_provenance=False, **kw_sparse)
    if not why:
        t_sp = ts.simplify(samples, record_provenance=False, **kw_sparse).dump_tables()
        t_full = sts.dump_tables()
        if not t_sp.equals(t_full, ignore_provenance=True):
            why = "TreeSequence.simplify with default-valued options left out differs from the call that spells them out: %s" % sorted(set(kw) - set(kw_sparse))
    t_ref = sts.dump_tables()
    t_ref.provenances.clear()
    tfac.provenances.clear()
    if not why and not (tfac.equals(t_ref, ignore_provenance=True) and [int(x) for x in nm2] == [int(x) for x in nm]):
        why = "TableCollection.simplify differs from TreeSequence.simplify on the same arguments"
    return dict(ts=ain, samples=list(samples), opts=o, out=aout, nm=[int(x) for x in nm], idem=idem, ragged_ok=0 if why else 1, ragged_why=why or "",
                maps=[cmap.kind, tmap.kind, tmap.offset])


def classify_nonidem(c):
    o = c["opts"]
    if o["reduce_to_site_topology"]:
        return "simplify-rts-not-idempotent"
    return None


def run():
    chk = Check("C04")
    rng = random.Random(SEED * 7919 + 4)
    cases = []
    uni, ust = common.tlc_eval_json("Dump_Universe", cfg="Dump_Universe_Q" if QUICK else "Dump_Universe_T")
    chk.add_tlc(ust)
    from harness.props.c01 import decorate_sites
    pick = rng.sample(uni, min(len(uni), 500 if QUICK else 20000))
    for a in pick:
        a = decorate_sites(a, rng)
        a["muts"] = [m for m in a["muts"]]
        cases.append(drive(a, rng))
    nuni = len(cases)
    for i in range(2000 if QUICK else 120000):
        a = gen.random_abstract(rng, N=rng.randint(2, 8), K=rng.randint(1, 5), max_edges=14, nsites=3, nmuts=4)
        if i % 3 == 2:       # node ids in no particular order (ids carry no meaning: parents with smaller ids than children, samples anywhere)
            a = gen.permute_nodes(a, random.Random(SEED * 1000003 + i))
        cases.append(drive(a, rng))
    # scale: tree sequences that are already simplified, with hundreds of child intervals under several parents (the simplifier's
    # per-parent buffers roll over); simplify with every node a sample / all leaf samples must give the same tables back
    big_bad = 0
    for i in range(4 if QUICK else 40):
        fam = rng.randint(2, 3)
        kids = [rng.randint(345, 420) for _ in range(fam)]
        n = sum(kids)
        L = 2 * max(kids) + 10
        t = tskit.TableCollection(L)
        for _ in range(n):
            t.nodes.add_row(flags=1, time=0)
        c0 = 0
        for f_ in range(fam):
            p_ = t.nodes.add_row(time=1 + f_)
            for j in range(kids[f_]):
                # staggered right ends: every child interval of a parent is distinct, nothing can be squashed
                t.edges.add_row(0, L - 2 * j - (f_ % 2), p_, c0 + j)
            c0 += kids[f_]
        t.sort()
        ts_big = t.tree_sequence()
        t0 = ts_big.dump_tables()
        t0.provenances.clear()
        rec = dict(big=[fam, kids])
        chk.note_case(rec, True)
        try:
            s1_ = ts_big.simplify()
            s_ = s1_.dump_tables()
            s_.provenances.clear()
            s2_ = s1_.simplify().dump_tables()
            s2_.provenances.clear()
            # idempotent; every edge of the result is a piece of the input edge of the same (parent, child) - node ids are kept because
            # the samples come first and the parents are listed oldest last; and nothing but unary stretches is lost
            inp = {(int(e.parent), int(e.child)): (e.left, e.right) for e in t0.edges}
            pieces_ok = all((int(e.parent), int(e.child)) in inp and inp[(int(e.parent), int(e.child))][0] <= e.left and e.right <= inp[(int(e.parent), int(e.child))][1]
                            for e in s_.edges)
            same = s_.equals(s2_) and pieces_ok and s_.nodes.equals(t0.nodes) and len(s_.edges) >= len(t0.edges) - fam
            why = "simplify of a wide tree sequence (%d star families, %s children): not idempotent, or edges that are not pieces of the input edges" % (fam, kids)
        except tskit.LibraryError as e:
            same = False
            why = "simplify of a valid wide tree sequence (%d star families, %s children) raised: %s" % (fam, kids, e)
        if not same:
            big_bad += 1
            chk.violation(why, rec)
        else:
            chk.traces += 1
    chk.extra["large_idempotence_cases"] = (4 if QUICK else 40)
    for c in [c for c in cases if "error" in c]:
        chk.note_case(c["a"], True)
        chk.violation("simplify raised on a valid input (or on its own output): %s\n%s" % (c["error"], c["tb"]), c)
    cases = [c for c in cases if "error" not in c]
    # binding self-test
    corrupted = []
    for c in cases:
        if len(corrupted) >= 8:
            break
        if len(c["out"]["edges"]) >= 2:
            d = copy.deepcopy(c)
            what = rng.choice(["edge", "nm", "time"])
            if what == "edge":
                d["out"]["edges"][0]["right"] = d["out"]["edges"][0]["left"] + 0 if d["out"]["edges"][0]["right"] - d["out"]["edges"][0]["left"] > 1 else d["out"]["edges"][0]["right"]
                d["out"]["edges"] = d["out"]["edges"][1:]
            elif what == "nm":
                d["nm"] = [x if x != 0 else 1 for x in d["nm"]]
            else:
                d["out"]["time"][0] += 1
            corrupted.append(d)
    cv, _ = common.tlc_validate("Trace_Simplify", corrupted, chunks=4)
    acc = sum(1 for d in corrupted if not cv[d["id"]])
    chk.extra["binding_selftest"] = dict(corrupted=len(corrupted), rejected=len(corrupted) - acc)
    if acc:
        raise common.MachineryError("Trace_Simplify accepted %d corrupted traces" % acc)
    verdicts, st = common.tlc_validate("Trace_Simplify", cases)
    chk.add_tlc(st)
    optcount = {}
    for c in cases:
        key = "".join(str(c["opts"][k]) for k in OPTS)
        optcount[key] = optcount.get(key, 0) + 1
        chk.note_case(dict(ts=c["ts"]["edges"], t=c["ts"]["time"], s=c["samples"], o=key, m=c["ts"]["muts"]),
                      len(c["out"]["edges"]) >= 1 and len(c["samples"]) >= 2)
        f = list(verdicts[c["id"]])
        if f == ["idempotent"]:
            sig = classify_nonidem(c)
            chk.violation("simplify is not idempotent: options %s samples %s" % (c["opts"], c["samples"]), c, signature=sig)
        elif f:
            chk.violation("trace rejected by Trace_Simplify: %s opts=%s samples=%s %s" % (
                f, {k: v for k, v in c["opts"].items() if v != DEFAULTS[k]}, c["samples"], st["eval_errors"].get(c["id"], "")[-400:]), c)
        else:
            chk.traces += 1
    chk.extra.update(universe_cases=nuni, random_cases=len(cases) - nuni, option_combinations=len(optcount))
    c = cases[-1]
    chk.sample(dict(edges=c["ts"]["edges"], time=c["ts"]["time"], samples=c["samples"], opts=c["opts"], nm=c["nm"], out_edges=c["out"]["edges"]))
    chk.rule = ("universe elements + random ts (<=8 nodes) x random sample lists of any nodes (1-4) x random option combinations; "
                "non-trivial = >=2 chosen samples and >=1 output edge; distinct by (ts, samples, options)")
    chk.assumptions = ["row identity is followed through metadata tags", "positions are integer cells (breakpoints are integers)",
                       "idempotence is checked by the harness with TableCollection.equals (provenance cleared)"]
    return chk.finish()


if __name__ == "__main__":
    common.assert_imports()
    common.main_wrapper(run)
