"""Abstract (integer) view of a real tree sequence / table collection whose rows carry identity
tags in their metadata (n<i>, e<i>, s<i>, m<i>, i<i>, p<i>) - used to follow rows through
operations that renumber them (simplify, subset, union, sort, edits)."""
import numpy as np
import tskit

from harness import gen

TOK = {a: i for i, a in enumerate(gen.ALLELES)}


def tag(md, prefix):
    if isinstance(md, (bytes, bytearray)) and md[:1] == prefix.encode() and md[1:].isdigit():
        return int(md[1:])
    return -1


def decorate(tables, rng, n_ind=3, n_pop=2, p_ind=0.6, p_pop=0.6, edge_metadata=True, ind_parents=False, extra_flags=False):
    """tag every row's metadata; add individuals / populations and reference them from nodes"""
    t = tables
    t.nodes.packset_metadata([b"n%d" % i for i in range(len(t.nodes))])
    if edge_metadata:
        t.edges.packset_metadata([b"e%d" % i for i in range(len(t.edges))])
    else:
        t.edges.drop_metadata()
    t.sites.packset_metadata([b"s%d" % i for i in range(len(t.sites))])
    t.mutations.packset_metadata([b"m%d" % i for i in range(len(t.mutations))])
    for j in range(n_pop):
        t.populations.add_row(metadata=b"p%d" % j)
    for j in range(n_ind):
        t.individuals.add_row(flags=j, location=[float(j)], metadata=b"i%d" % j)
    N = len(t.nodes)
    ind = np.array([rng.randrange(n_ind) if n_ind and rng.random() < p_ind else -1 for _ in range(N)], dtype=np.int32)
    pop = np.array([rng.randrange(n_pop) if n_pop and rng.random() < p_pop else -1 for _ in range(N)], dtype=np.int32)
    t.nodes.individual = ind
    t.nodes.population = pop
    if ind_parents and n_ind > 1:
        # an acyclic pedigree stored in arbitrary row order (parents may come after their children)
        birth = list(range(n_ind))
        rng.shuffle(birth)
        rank = {j: i for i, j in enumerate(birth)}
        par = []
        for j in range(n_ind):
            older = [q for q in range(n_ind) if rank[q] < rank[j]]
            k = rng.randint(0, min(2, len(older)))
            par.append(np.array(rng.sample(older, k) + ([-1] if rng.random() < 0.2 else []), dtype=np.int32))
        t.individuals.packset_parents(par)
    if extra_flags:
        fl = t.nodes.flags.copy()
        for u in range(len(fl)):
            if rng.random() < 0.3:
                fl[u] |= rng.choice([2, 4, 1 << 16])
        t.nodes.flags = fl
    return t


def abstract_of(tables, cmap, tmap, tscale=1):
    t = tables
    itags = [tag(r.metadata, "i") for r in t.individuals]
    ptags = [tag(r.metadata, "p") for r in t.populations]

    def tm(x):
        if tskit.is_unknown_time(x):
            return -1
        v = tmap.inv.get(float(x))
        if v is None:
            return -2      # a time outside the generated grid
        return int(round(v * tscale))
    a = dict(
        L=cmap.back(t.sequence_length),
        time=[int(round(tmap.back(x) * tscale)) for x in t.nodes.time],
        flags=[int(f) & 1 for f in t.nodes.flags],
        rawflags=[int(f) for f in t.nodes.flags],
        edges=[dict(left=cmap.back(e.left), right=cmap.back(e.right), parent=int(e.parent), child=int(e.child), tag=tag(e.metadata, "e"))
               for e in t.edges],
        sites=[dict(pos=cmap.back(s.position), anc=TOK.get(s.ancestral_state, -5), tag=tag(s.metadata, "s")) for s in t.sites],
        muts=[dict(site=int(m.site), node=int(m.node), der=TOK.get(m.derived_state, -5), parent=int(m.parent), time=tm(m.time),
                   tag=tag(m.metadata, "m")) for m in t.mutations],
        ind=[int(x) for x in t.nodes.individual],
        pop=[int(x) for x in t.nodes.population],
        node_tag=[tag(r.metadata, "n") for r in t.nodes],
        ind_tag=[itags[x] if 0 <= x < len(itags) else -1 for x in t.nodes.individual],
        pop_tag=[ptags[x] if 0 <= x < len(ptags) else -1 for x in t.nodes.population],
        ind_rows=itags, pop_rows=ptags,
        migs=[dict(left=cmap.back(g.left), right=cmap.back(g.right), node=int(g.node), source=int(g.source), dest=int(g.dest),
                   time=int(round(tmap.back(g.time) * tscale)), tag=tag(g.metadata, "g")) for g in t.migrations],
        ind_parents=[[int(p) for p in r.parents] for r in t.individuals],
        ind_parent_tags=[[itags[p] if 0 <= p < len(itags) else -1 for p in r.parents] for r in t.individuals],
    )
    return a


# ------------------------------------------------------------------------------------------------------------------
# ragged metadata: the same operation on the same tables with the metadata of a random subset of rows removed.
# Metadata never influences what an operation does, so output row k of the ragged run must be output row k of the tagged
# run with its metadata kept or emptied according to the *source* row it came from (the tag names the source row).
RAGGED_TABLES = ("nodes", "edges", "sites", "mutations", "migrations", "individuals", "populations")


def ragged_variant(tables, rng, p=0.5):
    """copy of `tables` in which each row's metadata is emptied with probability p; returns (copy, cleared) where cleared[table] is
    the set of metadata byte strings (tags) that were removed"""
    t = tables.copy()
    cleared = {}
    for name in RAGGED_TABLES:
        tab = getattr(t, name)
        if not len(tab) or not len(tab.metadata):
            cleared[name] = set()
            continue
        md = [bytes(r.metadata) for r in tab]
        gone = set()
        for i in range(len(md)):
            if md[i] and rng.random() < p:
                gone.add(md[i])
                md[i] = b""
        tab.packset_metadata(md)
        cleared[name] = gone
    return t, cleared


def _norm(v):
    if isinstance(v, np.ndarray):
        return tuple(v.tolist())
    if isinstance(v, float) and v != v:
        return "nan"
    return v


def ragged_consistent(out_tagged, out_ragged, cleared, tables=RAGGED_TABLES):
    """None if consistent, else a description of the first difference"""
    import dataclasses
    for name in tables:
        a, b = getattr(out_tagged, name), getattr(out_ragged, name)
        if len(a) != len(b):
            return "%s: %d rows with full metadata, %d rows with ragged metadata" % (name, len(a), len(b))
        for k, (ra, rb) in enumerate(zip(a, b)):
            for f in dataclasses.fields(ra):
                if f.name == "metadata":
                    want = b"" if bytes(ra.metadata) in cleared.get(name, ()) else bytes(ra.metadata)
                    if bytes(rb.metadata) != want:
                        return "%s row %d: metadata %r, expected %r (ragged metadata column)" % (name, k, bytes(rb.metadata), want)
                elif _norm(getattr(ra, f.name)) != _norm(getattr(rb, f.name)):
                    return "%s row %d: column %s differs between the run with full and with ragged metadata" % (name, k, f.name)
    return None
