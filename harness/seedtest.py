#!/usr/bin/env python3
"""Confirm a seeded defect and run checks against it.

  seedtest.py confirm <patch> <demo> [testfiles...]   -> in a scratch worktree: clean build: demo passes; patched: demo fails; tests equal
  seedtest.py run <patch> <ID> [<ID>...]              -> git -C /repo apply; ./check ID (quick); git checkout -- .
"""
import json, os, shutil, subprocess, sys, tempfile
VERIF = os.path.dirname(os.path.dirname(os.path.abspath(__file__)))
sys.path.insert(0, VERIF)
def sh(cmd, **kw):
    return subprocess.run(cmd, shell=True, capture_output=True, text=True, **kw)
def build(repo):
    env = dict(os.environ, VERIF_REPO=repo)
    r = subprocess.run([sys.executable, os.path.join(VERIF, "harness", "build.py"), "plain"], env=env, capture_output=True, text=True)
    if r.returncode != 0:
        raise SystemExit("build failed: " + r.stderr[-2000:])
    return r.stdout.strip()
def run_demo(repo, b, demo):
    env = dict(os.environ, PYTHONPATH=b + ":" + repo + "/python", PYTHONDONTWRITEBYTECODE="1")
    r = subprocess.run(["/venv/bin/python", demo], env=env, capture_output=True, text=True, cwd="/tmp", timeout=900)
    return r.returncode, (r.stdout + r.stderr)[-600:]
def run_tests(repo, b, files):
    env = dict(os.environ, PYTHONPATH=b + ":" + repo + "/python", PYTHONDONTWRITEBYTECODE="1")
    r = subprocess.run(["/venv/bin/python", "-m", "pytest", "-q", "-p", "no:cacheprovider", "-n", "12"] + ["tests/" + f for f in files],
                       env=env, capture_output=True, text=True, cwd=repo + "/python", timeout=3000)
    fails = sorted(l for l in r.stdout.splitlines() if l.startswith("FAILED") or l.startswith("ERROR"))
    return fails, r.stdout.strip().splitlines()[-1] if r.stdout.strip() else ""
def confirm(patch, demo, tests):
    wt = tempfile.mkdtemp(prefix="seedwt_", dir="/tmp")
    os.rmdir(wt)
    sh("git -C /repo worktree add -q --detach %s HEAD" % wt)
    out = {}
    try:
        # builds are content-hashed under /verif/build; build.py prunes older ones of the same flavour, so rebuild /repo's afterwards
        b0 = build(wt)
        rc0, o0 = run_demo(wt, b0, demo)
        t0 = run_tests(wt, b0, tests) if tests else ([], "")
        r = sh("git -C %s apply %s" % (wt, patch))
        if r.returncode != 0:
            raise SystemExit("patch does not apply: " + r.stderr)
        b1 = build(wt)
        rc1, o1 = run_demo(wt, b1, demo)
        t1 = run_tests(wt, b1, tests) if tests else ([], "")
        out = dict(clean_demo_rc=rc0, patched_demo_rc=rc1, patched_demo_tail=o1[-300:], tests_clean=t0[1], tests_patched=t1[1],
                   same_test_failures=t0[0] == t1[0], confirmed=(rc0 == 0 and rc1 != 0 and t0[0] == t1[0]))
    finally:
        sh("git -C /repo worktree remove --force %s" % wt)
        shutil.rmtree(wt, ignore_errors=True)
        build("/repo")
    print(json.dumps(out, indent=1))
    return out
def run(patch, ids):
    """apply the patch in a scratch worktree of /repo's HEAD (VERIF_REPO points the checks at it; /repo itself is not touched)"""
    wt = tempfile.mkdtemp(prefix="seedrun_", dir="/tmp")
    os.rmdir(wt)
    sh("git -C /repo worktree add -q --detach %s HEAD" % wt)
    res = {}
    try:
        r = sh("git -C %s apply %s" % (wt, patch))
        if r.returncode != 0:
            raise SystemExit("patch does not apply: " + r.stderr)
        for pid in ids:
            env = dict(os.environ, VERIF_SEED=os.environ.get("VERIF_SEED", "0"), VERIF_REPO=wt)
            r = subprocess.run([os.path.join(VERIF, "check"), pid], capture_output=True, text=True, cwd=VERIF, env=env)
            viol = [l for l in r.stdout.splitlines() if l.startswith("VIOLATION")]
            what = [l.strip() for l in r.stdout.splitlines() if l.strip().startswith("what:")]
            res[pid] = dict(rc=r.returncode, violations=len(viol), first=what[:2], tail=r.stdout.strip().splitlines()[-1:] if r.stdout.strip() else r.stderr[-300:])
    finally:
        sh("git -C /repo worktree remove --force %s" % wt)
        shutil.rmtree(wt, ignore_errors=True)
        # restore evidence of the unchanged tree
        sh("git -C %s checkout -- evidence" % VERIF)
    print(json.dumps(res, indent=1))
    return res


if __name__ == "__main__":
    if sys.argv[1] == "confirm":
        confirm(sys.argv[2], sys.argv[3], sys.argv[4:])
    else:
        run(sys.argv[2], sys.argv[3:])
