#!/usr/bin/env python3
"""Run the quick check of the owning property against every seeded defect under /verif/seeded.

  seedsweep.py [name-prefix ...]    -> applies each patch to /repo, runs ./check <ID>, restores /repo; writes
                                       seeded/RESULTS.json and the 'sweep' entry of each meta.json

/repo must be clean.  Evidence files are restored afterwards (they must describe the unchanged tree).
"""
import json, os, subprocess, sys, time
VERIF = os.path.dirname(os.path.dirname(os.path.abspath(__file__)))
sys.path.insert(0, os.path.join(VERIF, "harness"))
import seedtest  # noqa: E402


def main():
    pref = sys.argv[1:]
    root = os.path.join(VERIF, "seeded")
    results = {}
    seed = os.environ.get("VERIF_SEED", "0")
    rp = os.path.join(root, "RESULTS.json" if seed == "0" else "RESULTS_seed%s.json" % seed)     # other seeds: separate file, meta.json untouched
    if os.path.exists(rp):
        results = json.load(open(rp))
    for name in sorted(os.listdir(root)):
        d = os.path.join(root, name)
        if not os.path.isdir(d) or (pref and not any(name.startswith(p) for p in pref)):
            continue
        meta = json.load(open(os.path.join(d, "meta.json")))
        pid = meta.get("caught_by", meta["property"])     # a change whose manifestation belongs to another property's check
        t0 = time.time()
        try:
            res = seedtest.run(os.path.join(d, "patch.diff"), [pid])[pid]
        except SystemExit as e:
            res = dict(rc=None, violations=0, first=[], tail=[str(e)])
        res["wall_s"] = round(time.time() - t0, 1)
        res["caught"] = res["rc"] == 1 and res["violations"] > 0
        # several sweeps may run side by side (disjoint prefixes): merge under a lock instead of overwriting
        import fcntl
        lock = open(rp + ".lock", "w")
        fcntl.flock(lock, fcntl.LOCK_EX)
        if os.path.exists(rp):
            results = json.load(open(rp))
        results[name] = dict(property=pid, **res)
        meta["sweep"] = dict(check=pid, tier="quick", seed=os.environ.get("VERIF_SEED", "0"), caught=res["caught"],
                             violations=res["violations"], first=res["first"][:1])
        if seed == "0":
            json.dump(meta, open(os.path.join(d, "meta.json"), "w"), indent=1)
        json.dump(results, open(rp, "w"), indent=1)
        fcntl.flock(lock, fcntl.LOCK_UN)
        lock.close()
        print(name, pid, "CAUGHT" if res["caught"] else "MISSED rc=%s" % res["rc"], res["violations"], res["wall_s"], flush=True)
    missed = [n for n, r in results.items() if not r["caught"]]
    print("missed:", missed)


if __name__ == "__main__":
    main()
