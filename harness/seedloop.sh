#!/bin/bash
# run every check (quick tier) for several seeds; summary on stdout.  Usage: seedloop.sh "1 2 3" [IDs...]
seeds="$1"; shift
ids="${@:-C01 C02 C03 C04 C05 C06 C07 C08 C09 C10 C11 C12 C13 C14 C15 C16 C17 C18 C19 C20}"
for s in $seeds; do for id in $ids; do
  out=$(VERIF_SEED=$s ./check $id 2>&1); rc=$?
  echo "seed=$s $id rc=$rc $(echo "$out" | grep -c '^VIOLATION') $(echo "$out" | tail -1 | cut -c1-150)"
  [ $rc -ne 0 ] && echo "$out" | grep -A1 '^VIOLATION' | head -6
done; done
