#!/usr/bin/env python3
"""Regenerates MANIFEST.json from the table below (single source of truth)."""
import json, os
HERE = os.path.dirname(os.path.dirname(os.path.abspath(__file__)))
CHECKS = {
 "C07": dict(cat="model_checking", technique="TLA+ sort relation (permutation + key order + stability + bookmarks), nearest-mutation-above definition; TLC validates recorded sort / repair-pipeline / canonicalise calls on shuffled collections",
    text="TskSort states sort() as a relation: nodes/individuals/populations untouched, the four other tables permuted with row content (metadata tags) travelling with the row and mutation.site/parent remapped, suffixes from the bookmarks in documented key order, ties stable, prefixes untouched, idempotent; compute_mutation_parents = nearest mutation above; repaired result loads with the same trees and genotypes. Real calls on shuffled consistent collections (universe-derived and random, duplicate site positions, known/unknown times, migrations, every bookmark kind) are validated by TLC.",
    note="Repair-pipeline inputs keep each site's relative mutation order and individuals are acyclic (documented preconditions); canonical-form equality and idempotence are evaluated with TableCollection.equals.", ref="DESIGN.md §3 C07"),
 "C04": dict(cat="model_checking", technique="TLA+ positional carrier-map definition of simplify; TLC validates recorded simplify calls (input, samples, options, output, node map) on universe and random inputs",
    text="TskSimplify defines, per position, the carrier of every input node and from it the expected output parent relation, retained node set, mutation placement, site/individual/population retention and flag rule for every option; real simplify calls over the TLC-enumerated universe and random larger inputs with sample lists of arbitrary nodes and random option combinations are validated by TLC; idempotence is evaluated by the harness and checked as a clause.",
    note="Edges carry no metadata (simplify refuses it); rows are followed by metadata tags; non-idempotence under reduce_to_site_topology is a known finding.", ref="DESIGN.md §3 C04"),
 "C10": dict(cat="fault_enumeration", technique="TLA+ Kastore reader model with exact 64-bit arithmetic: TLC fault enumeration on abstract files; byte-level fault enumeration on real dumps (ASan build) validated by TLC through the layout function and Reader model",
    text="Kastore.tla transcribes the container layout and kastore's reader as validation steps over abstract files with exact unsigned 64-bit (limb) arithmetic. TLC enumerates, for all small well-formed files, every proper prefix and every interpreted-field substitution by boundary and wrap-around values and proves (bounded) that prefixes are always rejected and that accepted substitutions are exactly the characterised same-extent blind spots. On real dumps every prefix length, every header/descriptor/key byte x 4-7 substitutions, whole-field substitutions and random data bytes are injected and loaded (TableCollection.load, tskit.load, skip_tables, skip_reference_sequence, second object on a stream) in the sanitizer build in isolated workers; TLC validates each (layout, fault, outcome) against the layout classification and the Reader verdict.",
    note="Known findings (kastore has no integrity check beyond packing) are reported by semantic signature; reserved/padding/minor-version bytes may load an equal object; quick tier uses 2 files, thorough 12.", ref="DESIGN.md §3 C10"),
 "C05": dict(cat="model_checking", technique="TLA+ Stream machine + equality algebra: TLC MC, and TLC trace validation of real dump/load histories on files and pipes, round trips and equals()/assert_equals() under all 64 ignore combinations",
    text="Stream.tla models several stored objects on one stream (Dump appends, Load returns the head and advances by exactly its size, EOF distinct) and defines equals() over the components of a table collection; TLC model-checks FIFO/position/EOF invariants and the reflexive/symmetric/monotone laws. Real histories (1-4 dumps of table collections or tree sequences on a file or pipe, loads until EOF, byte positions after every call) and round trips through path/file/asdict-fromdict/pickle/copy/tree-sequence load, on valid and invalid collections with metadata everywhere, are validated by TLC; equals and assert_equals are evaluated under all 64 ignore_* subsets for pairs differing in chosen components and compared with the definition.",
    note="Column byte equality is computed by the harness and logged as a flag; with a metadata schema set, stored metadata is kept decodable (an undecodable-under-schema object is outside the domain).", ref="DESIGN.md §3 C05"),
 "C13": dict(cat="model_checking", technique="TLA+ row-list machine (TableOps): TLC MC + simulated behaviours replayed on real tables + TLC trace validation of random histories; immutability as an action property over recorded TreeSequence calls",
    text="TableOps models a table as a sequence of row records with every public row/column operation as an action (keep_rows with self-reference remapping and dangling rejection). TLC model-checks the machine for the two self-referential classes, its simulated histories are replayed on real tables with full-content comparison after each step, and random histories on all eight table classes (16 operation kinds, failed operations included) are validated step by step by TLC. For immutability, every public TreeSequence property and ~40 TreeSequence/Tree/Variant calls are recorded with the tables digest after the call and after an attempted write into every returned ndarray; TLC checks tables'=tables over the trace.",
    note="Row values are small integers/short byte strings; digest is a CRC computed by the harness; the call alphabet for immutability is finite and hand-chosen.", ref="DESIGN.md §3 C13"),
 "C03": dict(cat="model_checking", technique="TLA+ nearest-mutation genotype definition; TLC trace validation of Variant decode histories and whole-sequence genotype views",
    text="TskGenotypes defines the allele of every node at every site (nearest mutation, ancestral otherwise, missing rule). Real Variant objects are driven through arbitrary decode orders with copies, and variants/genotype_matrix/haplotypes/alignments are called with sample subsets incl. non-sample nodes, isolated_as_missing, user allele lists and intervals; TLC validates every recorded result (one TLC state per decode call, so the result is shown independent of history). Inputs: TLC-enumerated universe with an exhaustive <=2-mutation layer plus random tree sequences.",
    note="Alleles are abstract tokens; order of alleles after the first unconstrained; documented errors (non-sample nodes with isolated_as_missing, alignments with isolated samples) are accepted as such.", ref="DESIGN.md §3 C03"),
 "C01": dict(cat="model_checking", technique="TLA+ definitional tree semantics (TskTrees/TskTreeViews): TLC-enumerated universe replayed into the library, every tree/view validated by TLC",
    text="TLC enumerates every node/edge table of the small-scope universe (4 nodes, L=3, <=3 edges; thorough adds 5 nodes) and the harness loads each into the real library; every tree reported by iteration/at/at_index/first/last/reversed and every derived view (linked arrays, roots, counts, sample lists, MRCA/depth/branch lengths, 8 traversal orders, sites/mutations, edge_diffs both directions, edgesets, breakpoints) is then validated by TLC against the declarative definitions; random larger tree sequences extend this. The incremental algorithm's design is model-checked in MC_TreeCursor (C06).",
    note="Bounded universe; tree options and the site layer are sampled per element; times integer-valued so branch lengths are exact; traversal orders relative to reported child order.", ref="DESIGN.md §3 C01"),
 "C02": dict(cat="model_checking", technique="TLA+ declarative Valid(tc); TLC enumerates every single-field corruption with its verdict (replayed on the real gate) and validates recorded gate decisions",
    text="Valid(tc) is the data model's requirement list written declaratively in TLA+. TLC enumerates, for each valid seed, every single-field boundary departure, row swap/duplication and user-index corruption with the expected verdict; each is replayed on tree_sequence() and dump->tskit.load in isolated processes (accept iff Valid, library exception type, rows unchanged). Random multi-field corruptions are run on the real gate and validated by TLC.",
    note="Seeds are small (<=5 nodes); error codes not compared; non-finite sequence_length is outside the property's requirement list and not generated.", ref="DESIGN.md §3 C02"),
 "C06": dict(cat="model_checking", technique="TLA+ TreeCursor machine: TLC exhaustive MC + TLC trace validation of recorded Tree histories + replay of TLC-simulated behaviours",
    text="TLC exhaustively explores the transcribed tsk_tree_t/tsk_tree_position_t machine over all node/edge tables with <=4 nodes, L=3, <=3 edges x root_threshold x tracked samples and checks that every reachable cursor state equals the definitional tree of its index; real tskit.Tree navigation histories (two handles, copy) are validated step by step against the same actions (code->spec), and TLC-simulated behaviours are replayed on real Trees (spec->code).",
    note="Bounded model (not an unbounded proof); child order abstracted to sets; coordinates enter through order only (monotone maps); harness trusts the Python accessors used for projection.", ref="DESIGN.md §3 C06"),
}
NA = {}
def main():
    props = [json.loads(l) for l in open(os.path.join(HERE, "properties.jsonl"))]
    checks = []
    for p in props:
        pid = p["id"]
        if pid in CHECKS:
            c = CHECKS[pid]
            checks.append(dict(property_id=pid, quick_cmd="./check %s" % pid,
                               thorough_cmd="./check %s --tier thorough" % pid,
                               evidence_file="evidence/%s.json" % pid,
                               replay_cmd_template="./check %s --replay {path}" % pid,
                               engine="tlc+harness", level_claimed=dict(category=c["cat"], text=c["text"], design_ref=c["ref"]),
                               level_note=c["note"], technique=c["technique"]))
    na = [dict(property_id=p["id"], reason=NA.get(p["id"], "check not built yet in this round (planned, see DESIGN.md §3); not claimed"))
          for p in props if p["id"] not in CHECKS]
    m = dict(version=1,
             setup_cmd="python3 harness/build.py plain && python3 harness/build.py san",
             hooks=dict(guard="TSKIT_VERIF", enable="checks compile /repo's C sources out-of-tree with -DTSKIT_VERIF=1 and run with env TSKIT_VERIF=1 (no hook code is currently needed: the public API exposes the abstract state)",
                        baseline_off_cmd="cd /repo && /venv/bin/python -m pytest -ra -q -p no:cacheprovider --timeout=900 --continue-on-collection-errors",
                        source_commits=[], add_only=True),
             engines=[dict(name="tlc+harness", path="check", serves_properties=sorted(CHECKS),
                           kind_free_text="TLA+ specifications in spec/ checked by TLC (model checking, batch trace validation, simulation); Python harness in harness/ drives the real library built from /repo's working tree")],
             checks=checks, not_applicable=na,
             notes="All checks build _tskit out-of-tree from /repo's current C sources (content-hashed cache in /verif/build) and import /repo/python live; the pinned baseline itself imports tskit 1.0.3 from site-packages.")
    json.dump(m, open(os.path.join(HERE, "MANIFEST.json"), "w"), indent=1)
main()
