"""Table collections in the TskTables.tla value format (rows as records, sentinel tokens for
IEEE specials) and their realisation as real tskit TableCollections - including *invalid*
ones, injected through column assignment so that no Python-level validation intervenes."""
import numpy as np
import tskit

from harness import gen

NAN, UNK, PINF, NINF = 900001, 900002, 900003, -900003


def num(v, m):
    if v == NAN:
        return float("nan")
    if v == UNK:
        return tskit.UNKNOWN_TIME
    if v == PINF:
        return float("inf")
    if v == NINF:
        return float("-inf")
    return m(v)


def from_abstract(a, rng=None, rich=True):
    """abstract ts (gen.random_abstract / universe element) -> tc record; optionally add
    populations, individuals, migrations and known mutation times"""
    n = len(a["time"])
    tc = dict(L=a["L"], npop=0,
              nodes=[dict(time=a["time"][u], flags=a["flags"][u], pop=-1, ind=-1) for u in range(n)],
              edges=[dict(e) for e in a["edges"]],
              sites=[dict(pos=s["pos"]) for s in a.get("sites", [])],
              muts=[dict(site=m["site"], node=m["node"], parent=m["parent"], time=UNK) for m in a.get("muts", [])],
              migs=[], inds=[], hasidx=0, ins=[], rem=[])
    tc["_anc"] = [s.get("anc", 0) for s in a.get("sites", [])]
    tc["_der"] = [m.get("der", 1) for m in a.get("muts", [])]
    if rng is not None and rich:
        if rng.random() < 0.6:
            tc["npop"] = rng.randint(1, 2)
            for nd in tc["nodes"]:
                nd["pop"] = rng.randrange(-1, tc["npop"])
            for _ in range(rng.randint(0, 2)):
                l = rng.randrange(0, a["L"])
                tc["migs"].append(dict(left=l, right=rng.randint(l + 1, a["L"]), node=rng.randrange(n),
                                       source=rng.randrange(tc["npop"]), dest=rng.randrange(tc["npop"]),
                                       time=rng.randint(0, 3)))
            tc["migs"].sort(key=lambda g: g["time"])
        if rng.random() < 0.6:
            k = rng.randint(1, 3)
            for j in range(k):
                par = [rng.choice([-1] + [p for p in range(k) if p != j])] if rng.random() < 0.7 else []
                tc["inds"].append(dict(parents=par))
            for nd in tc["nodes"]:
                nd["ind"] = rng.randrange(-1, k)
        if tc["muts"] and rng.random() < 0.5:
            known_times(tc, a)
    return tc


def known_times(tc, a):
    """give every mutation a known time consistent with the requirements: integer times on a
    finer grid are not available, so use time[node] (allowed: >= node time, < parent node time),
    non-increasing along each site's list -> sort each site's mutations by (-time) keeping
    parents first"""
    for m in tc["muts"]:
        m["time"] = tc["nodes"][m["node"]]["time"]
    # re-order within a site: by decreasing time, stable; remap parents
    order = sorted(range(len(tc["muts"])), key=lambda j: (tc["muts"][j]["site"], -tc["muts"][j]["time"]))
    # keep parent-before-child: a parent is on an ancestor-or-self so its time is >=; stable sort keeps equal-time order
    inv = {old: new for new, old in enumerate(order)}
    muts = [dict(tc["muts"][j]) for j in order]
    for m in muts:
        if m["parent"] != -1:
            m["parent"] = inv[m["parent"]]
    der = [tc["_der"][j] for j in order]
    tc["muts"] = muts
    tc["_der"] = der


def build_tc(tc, cmap=None, tmap=None, alleles=gen.ALLELES):
    """tc record (possibly invalid) -> real TableCollection, via set_columns"""
    cmap = cmap or gen.CMap()
    tmap = tmap or gen.CMap()
    L = num(tc["L"], cmap)
    t = tskit.TableCollection(1.0)
    for _ in range(tc["npop"]):
        t.populations.add_row()
    inds = tc["inds"]
    if inds:
        par = [p for i in inds for p in i["parents"]]
        off = np.cumsum([0] + [len(i["parents"]) for i in inds]).astype(np.uint64)
        t.individuals.set_columns(flags=np.zeros(len(inds), dtype=np.uint32),
                                  parents=np.array(par, dtype=np.int32), parents_offset=off)
    nd = tc["nodes"]
    t.nodes.set_columns(flags=np.array([x["flags"] for x in nd], dtype=np.uint32),
                        time=np.array([num(x["time"], tmap) for x in nd], dtype=np.float64),
                        population=np.array([x["pop"] for x in nd], dtype=np.int32),
                        individual=np.array([x["ind"] for x in nd], dtype=np.int32))
    ed = tc["edges"]
    t.edges.set_columns(left=np.array([num(x["left"], cmap) for x in ed], dtype=np.float64),
                        right=np.array([num(x["right"], cmap) for x in ed], dtype=np.float64),
                        parent=np.array([x["parent"] for x in ed], dtype=np.int32),
                        child=np.array([x["child"] for x in ed], dtype=np.int32))
    anc = tc.get("_anc") or [0] * len(tc["sites"])
    if tc["sites"]:
        st, so = tskit.pack_strings([alleles[anc[i] % len(alleles)] for i in range(len(tc["sites"]))])
        t.sites.set_columns(position=np.array([num(x["pos"], cmap) for x in tc["sites"]], dtype=np.float64),
                            ancestral_state=st, ancestral_state_offset=so)
    der = tc.get("_der") or [1] * len(tc["muts"])
    if tc["muts"]:
        mu = tc["muts"]
        ds, do = tskit.pack_strings([alleles[der[i] % len(alleles)] for i in range(len(mu))])
        t.mutations.set_columns(site=np.array([x["site"] for x in mu], dtype=np.int32),
                                node=np.array([x["node"] for x in mu], dtype=np.int32),
                                parent=np.array([x["parent"] for x in mu], dtype=np.int32),
                                time=np.array([num(x["time"], tmap) for x in mu], dtype=np.float64),
                                derived_state=ds, derived_state_offset=do)
    if tc["migs"]:
        mg = tc["migs"]
        t.migrations.set_columns(left=np.array([num(x["left"], cmap) for x in mg], dtype=np.float64),
                                 right=np.array([num(x["right"], cmap) for x in mg], dtype=np.float64),
                                 node=np.array([x["node"] for x in mg], dtype=np.int32),
                                 source=np.array([x["source"] for x in mg], dtype=np.int32),
                                 dest=np.array([x["dest"] for x in mg], dtype=np.int32),
                                 time=np.array([num(x["time"], tmap) for x in mg], dtype=np.float64))
    t.sequence_length = L
    if tc["hasidx"]:
        t.indexes = tskit.TableCollectionIndexes(edge_insertion_order=np.array(tc["ins"], dtype=np.int32),
                                                 edge_removal_order=np.array(tc["rem"], dtype=np.int32))
    return t


def strip(tc):
    return {k: v for k, v in tc.items() if not k.startswith("_")}
