#!/usr/bin/env python3
"""seedreg.py <name> <property> <patch> <demo> <needs-text> <tests...> : confirm and store under /verif/seeded/<name>/"""
import json, os, shutil, sys
sys.path.insert(0, os.path.dirname(os.path.dirname(os.path.abspath(__file__))))
from harness import seedtest
name, prop, patch, demo, needs = sys.argv[1:6]
tests = sys.argv[6:]
out = seedtest.confirm(patch, demo, tests)
d = os.path.join(seedtest.VERIF, "seeded", name)
if out.get("confirmed"):
    os.makedirs(d, exist_ok=True)
    shutil.copy(patch, os.path.join(d, "patch.diff"))
    shutil.copy(demo, os.path.join(d, "demo.py"))
    meta = dict(property=prop, needs=needs, confirmed=out, ran="scratch worktree of /repo HEAD: clean build -> demo exit 0; patch applied -> demo exit !=0; repo test files %s give identical failure sets" % tests)
    json.dump(meta, open(os.path.join(d, "meta.json"), "w"), indent=1)
    print("REGISTERED", name)
else:
    print("NOT CONFIRMED", name, out)
