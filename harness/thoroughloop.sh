#!/bin/bash
# run the thorough tier of every check once; one summary line per check
ids="${@:-C01 C02 C03 C04 C05 C07 C08 C09 C10 C11 C12 C13 C14 C15 C16 C17 C18 C19 C20 C06}"
for id in $ids; do
  t0=$(date +%s); out=$(./check $id --tier thorough 2>&1); rc=$?
  echo "$id rc=$rc wall=$(( $(date +%s) - t0 ))s $(echo "$out" | grep -c '^VIOLATION') $(echo "$out" | tail -1 | cut -c1-160)"
  [ $rc -ne 0 ] && echo "$out" | grep -A1 -E '^VIOLATION|MACHINERY' | head -8
done
