"""Input generators: abstract (integer) tree-sequence descriptions and their realisation as
real tskit tables through strictly monotone coordinate/time maps (DESIGN 2.3).

An abstract ts `a` is a dict of small integers only:
  L, time[u], flags[u], edges[{left,right,parent,child}], sites[{pos,anc}],
  muts[{site,node,der,parent,time}]   (time = -1 means UNKNOWN_TIME)
It is exactly the JSON value the TLA+ modules read (TskTrees.tla)."""
import random

import numpy as np
import tskit

ALLELES = ["A", "C", "G", "T", "", "ACG", "é", "AA", "AC", "AG", "AT", "CA", "CC", "CG", "CT"]   # tokens 8.. only used where asked for


class CMap:
    """strictly monotone map int -> float, with inverse by dictionary"""

    KINDS = ["id", "third", "milli", "big", "half"]

    def __init__(self, kind="id", offset=0):
        self.kind = kind
        self.offset = offset
        self.inv = {}

    def __call__(self, x):
        k = self.kind
        if k == "id":
            y = float(x)
        elif k == "third":
            y = x / 3.0
        elif k == "milli":
            y = x * 1e-3
        elif k == "big":
            y = float(x) * 2.0 ** 40
        elif k == "half":
            y = x * 0.5
        else:
            raise ValueError(k)
        y = y + self.offset
        self.inv[y] = x
        return y

    def back(self, y):
        return self.inv[float(y)]


def add_sites(a, rng, nsites=3, nmuts=4, nalleles=4):
    """site / mutation layer: sites at integer positions, 0..nmuts mutations per site on random nodes, listed parents first,
    mutation parents by the nearest-earlier-mutation rule"""
    K = a["L"]
    N = len(a["time"])
    poss = sorted(rng.sample(range(K), min(K, rng.randint(0, nsites))))
    for p in poss:
        a["sites"].append(dict(pos=p, anc=rng.randrange(nalleles)))
    for s, p in enumerate(poss):
        par = parent_at(a, p)
        k = rng.randint(0, nmuts)
        nodes = [rng.randrange(N) for _ in range(k)]

        def d(u):
            n = 0
            while par[u] != -1:
                u = par[u]
                n += 1
            return n
        # parents first: order by (root, depth); same node repeated keeps order
        nodes.sort(key=lambda u: d(u))
        rows = []
        for u in nodes:
            rows.append(dict(site=s, node=u, der=rng.randrange(nalleles), parent=-1, time=-1))
        base = len(a["muts"])
        # mutation parent = last earlier mutation at this site on the nearest ancestor-or-self carrying one
        for i, m in enumerate(rows):
            v = m["node"]
            found = -1
            while v != -1 and found == -1:
                for j in range(i - 1, -1, -1):
                    if rows[j]["node"] == v:
                        found = j
                        break
                v = par[v]
            m["parent"] = base + found if found != -1 else -1
        a["muts"].extend(rows)
    return a


def coalescent_abstract(rng, nleaves=4, ninternal=4, K=4, p_keep=0.5, p_join=0.85, p_internal_sample=0.0):
    """sample-rich abstract ts: `nleaves` sample leaves at time 0, internal nodes with distinct times 1..ninternal; in every unit cell the
    lineages are joined (2-3 at a time) under internal nodes taken in time order; a cell repeats its left neighbour's tree with probability
    p_keep; leftovers give multiple roots, skipped internal nodes give nodes that come and go along the sequence"""
    N = nleaves + ninternal
    times = [0] * nleaves + list(range(1, ninternal + 1))
    flags = [1] * nleaves + [1 if rng.random() < p_internal_sample else 0 for _ in range(ninternal)]
    cellpar = []
    for x in range(K):
        if x > 0 and rng.random() < p_keep:
            cellpar.append(dict(cellpar[-1]))
            continue
        par = {}
        lineages = [u for u in range(nleaves) if rng.random() < 0.95]
        for j in range(nleaves, N):
            if len(lineages) >= 2 and rng.random() < p_join:
                k = 2 if len(lineages) == 2 or rng.random() < 0.8 else 3
                ch = rng.sample(lineages, k)
                for c in ch:
                    par[c] = j
                    lineages.remove(c)
                lineages.append(j)
        cellpar.append(par)
    edges = []
    for c in range(N):
        x = 0
        while x < K:
            p = cellpar[x].get(c)
            if p is None:
                x += 1
                continue
            y = x
            while y < K and cellpar[y].get(c) == p:
                y += 1
            edges.append(dict(left=x, right=y, parent=p, child=c))
            x = y
    edges.sort(key=lambda e: (times[e["parent"]], e["parent"], e["child"], e["left"]))
    return dict(L=K, time=times, flags=flags, edges=edges, sites=[], muts=[])


def deadend_variant(a, rng, p_cut=0.25, p_absent=0.25):
    """the same abstract ts with, per unit cell and non-sample node p, either all edges below p removed (p stays attached to its parent as a
    childless dead end) or p removed from the cell altogether; nodes that disappear and come back childless exercise incremental bookkeeping"""
    K = a["L"]
    N = len(a["time"])
    cell = [parent_at(a, x) for x in range(K)]
    internals = [u for u in range(N) if a["flags"][u] != 1]
    for x in range(K):
        for p in internals:
            r = rng.random()
            if r < p_cut + p_absent:
                for c in range(N):
                    if cell[x][c] == p:
                        cell[x][c] = -1
                if r >= p_cut:
                    cell[x][p] = -1
    edges = []
    for c in range(N):
        x = 0
        while x < K:
            p = cell[x][c]
            if p == -1:
                x += 1
                continue
            y = x
            while y < K and cell[y][c] == p:
                y += 1
            edges.append(dict(left=x, right=y, parent=p, child=c))
            x = y
    edges.sort(key=lambda e: (a["time"][e["parent"]], e["parent"], e["child"], e["left"]))
    b = dict(a)
    b["edges"] = edges
    return b


def random_abstract(rng, N=6, K=4, max_edges=10, nsites=3, nmuts=4, p_internal_sample=0.15,
                    max_time=3, nalleles=4, p_nonsample_leaf=0.2):
    """random valid small abstract ts: integer coordinates on 0..K, node times = small ints
    (ties allowed), internal samples, non-sample leaves, gaps, adjacent equal edges, dead
    branches, multiple roots, polytomies, recurrent/back/silent mutations, mutations above
    roots and isolated nodes, sites at breakpoints."""
    times = sorted(rng.randint(0, max_time) for _ in range(N))
    flags = []
    for i in range(N):
        fl = 1 if (times[i] == 0 and rng.random() > p_nonsample_leaf) or rng.random() < p_internal_sample else 0
        flags.append(fl)
    edges = []
    for c in range(N):
        cand = [p for p in range(N) if times[p] > times[c]]
        if not cand:
            continue
        cells = []
        for x in range(K):
            r = rng.random()
            if x > 0 and r < 0.5:
                cells.append(cells[-1])
            elif r < 0.8:
                cells.append(rng.choice(cand))
            else:
                cells.append(None)
        x = 0
        while x < K:
            if cells[x] is None:
                x += 1
                continue
            y = x
            while y < K and cells[y] == cells[x] and not (y > x and rng.random() < 0.15):
                y += 1
            edges.append(dict(left=x, right=y, parent=cells[x], child=c))
            x = y
    rng.shuffle(edges)
    edges = edges[:max_edges]
    # valid table order: parent time, parent, child, left  (parents with equal time: random order)
    key = {p: rng.random() for p in range(N)}
    edges.sort(key=lambda e: (times[e["parent"]], key[e["parent"]], e["child"], e["left"]))
    a = dict(L=K, time=times, flags=flags, edges=edges, sites=[], muts=[])
    add_sites(a, rng, nsites, nmuts, nalleles)
    return a


def permute_nodes(a, rng):
    """the same abstract ts under a random renumbering of the nodes: node ids carry no meaning in the data model (a parent may have a
    smaller id than its child, samples need not come first), only the edge table has to stay grouped by parent in order of parent time"""
    N = len(a["time"])
    perm = list(range(N))
    rng.shuffle(perm)                      # old id u -> new id perm[u]
    b = dict(a)
    b["time"] = [0] * N
    b["flags"] = [0] * N
    for u in range(N):
        b["time"][perm[u]] = a["time"][u]
        b["flags"][perm[u]] = a["flags"][u]
    edges = [dict(left=e["left"], right=e["right"], parent=perm[e["parent"]], child=perm[e["child"]]) for e in a["edges"]]
    edges.sort(key=lambda e: (b["time"][e["parent"]], e["parent"], e["child"], e["left"]))
    b["edges"] = edges
    b["muts"] = [dict(m, node=perm[m["node"]]) for m in a.get("muts", [])]
    b["sites"] = [dict(s) for s in a.get("sites", [])]
    b.pop("ins", None)
    b.pop("rem", None)
    return b


def parent_at(a, x):
    par = [-1] * len(a["time"])
    for e in a["edges"]:
        if e["left"] <= x < e["right"]:
            par[e["child"]] = e["parent"]
    return par


def arg_form(rng, seq, float_ok=False):
    """the same id / coordinate list in one of the forms the API accepts: list, tuple, contiguous int32 / int64 array, or a strided
    view of a longer array; results must not depend on the form"""
    import numpy as np
    seq = list(seq)
    k = rng.randrange(6)
    if k == 0:
        return seq
    if k == 1:
        return tuple(seq)
    dt = np.float64 if float_ok else (np.int32 if k in (2, 4) else np.int64)
    a = np.array(seq, dtype=dt)
    if k in (2, 3) or a.ndim != 1:
        return a
    b = np.zeros(2 * len(a) + 1, dtype=dt)
    b[::2][:len(a)] = a
    return b[::2][:len(a)]


def punch_gap(a, rng):
    """remove all ancestry over a random range of unit cells (a region with no edges at all: missing sequence); sites stay"""
    L = a["L"]
    if L < 2:
        return dict(a, sites=[], muts=[])
    g0 = rng.randrange(L)
    g1 = rng.randint(g0 + 1, L)
    if g0 == 0 and g1 == L:
        g1 = L - 1
    edges = []
    for e in a["edges"]:
        if e["left"] < g0:
            edges.append(dict(e, right=min(e["right"], g0)))
        if e["right"] > g1:
            edges.append(dict(e, left=max(e["left"], g1)))
    tm = a["time"]
    edges.sort(key=lambda e: (tm[e["parent"]], e["parent"], e["child"], e["left"]))
    b = dict(a, edges=edges)
    # mutation parents may have been defined through edges that are gone: recompute them from scratch
    sites, muts = a["sites"], a["muts"]
    b["sites"], b["muts"] = [], []
    return b


def add_user_flags(tables, rng, p=0.35):
    """OR application-specific bits (the upper 16 bits of the flags word are reserved for users) into random node flags: being a sample
    is the NODE_IS_SAMPLE bit, not equality of the whole word, so nothing the library computes may depend on these bits"""
    fl = tables.nodes.flags.copy()
    for u in range(len(fl)):
        if rng.random() < p:
            fl[u] = int(fl[u]) | (1 << rng.choice([16, 17, 20, 31]))
    tables.nodes.flags = fl
    return tables


def build_tables(a, cmap=None, tmap=None, alleles=ALLELES, build_index=True, metadata=False):
    """abstract ts -> real TableCollection (coordinates through cmap, times through tmap)."""
    cmap = cmap or CMap()
    tmap = tmap or CMap()
    assert cmap.offset == 0, "coordinate maps must fix 0"
    t = tskit.TableCollection(cmap(a["L"]))
    cmap(0)
    for u in range(len(a["time"])):
        t.nodes.add_row(flags=a["flags"][u], time=tmap(a["time"][u]),
                        metadata=(b"n%d" % u) if metadata else b"")
    for i, e in enumerate(a["edges"]):
        t.edges.add_row(cmap(e["left"]), cmap(e["right"]), e["parent"], e["child"],
                        metadata=(b"e%d" % i) if metadata else b"")
    for i, s in enumerate(a.get("sites", [])):
        t.sites.add_row(cmap(s["pos"]), alleles[s["anc"]], metadata=(b"s%d" % i) if metadata else b"")
    for i, m in enumerate(a.get("muts", [])):
        t.mutations.add_row(m["site"], m["node"], alleles[m["der"]], parent=m["parent"],
                            time=tskit.UNKNOWN_TIME if m["time"] == -1 else tmap(m["time"]),
                            metadata=(b"m%d" % i) if metadata else b"")
    if build_index:
        t.build_index()
    return t


def with_index(a, tables):
    """add the library's own edge index (0-based ids) to the abstract record"""
    b = dict(a)
    b["ins"] = [int(x) for x in tables.indexes.edge_insertion_order]
    b["rem"] = [int(x) for x in tables.indexes.edge_removal_order]
    return b


def random_maps(rng):
    cm = CMap(rng.choice(CMap.KINDS))
    tm = CMap(rng.choice(["id", "third", "milli", "big"]), offset=rng.choice([0, 0, -7.25, 1e6]))
    return cm, tm
