"""Projection of a real tskit.Tree onto the abstract state the TLA+ modules talk about."""
import numpy as np
import tskit


def observe_tree(tree, cmap, full=True):
    """all small-integer observables of a tskit.Tree (arrays have length N+1; slot N is the
    virtual root)"""
    N = tree.tree_sequence.num_nodes
    ob = dict(
        index=int(tree.index),
        left=cmap.back(tree.interval.left),
        right=cmap.back(tree.interval.right),
        parent=[int(x) for x in tree.parent_array],
        edge=[int(x) for x in tree.edge_array],
        ns=[int(tree.num_samples(u)) for u in range(N)] + [int(tree.num_samples(tree.virtual_root))],
        nt=[int(tree.num_tracked_samples(u)) for u in range(N)] + [int(tree.num_tracked_samples(tree.virtual_root))],
        num_edges=int(tree.num_edges),
        roots=[int(r) for r in tree.roots],
    )
    if full:
        ob.update(
            left_child=[int(x) for x in tree.left_child_array],
            right_child=[int(x) for x in tree.right_child_array],
            left_sib=[int(x) for x in tree.left_sib_array],
            right_sib=[int(x) for x in tree.right_sib_array],
            num_children=[int(x) for x in tree.num_children_array],
            sites=[int(s.id) for s in tree.sites()],
            samples=[[int(v) for v in tree.samples(u)] for u in range(N)],
            vsamples=[int(v) for v in tree.samples(tree.virtual_root)],
        )
    return ob


def observe_min(tree):
    """cheap observation of the *other* handle (independence of copies)"""
    N = tree.tree_sequence.num_nodes
    return dict(index=int(tree.index), parent=[int(x) for x in tree.parent_array],
                ns=[int(tree.num_samples(u)) for u in range(N)] + [int(tree.num_samples(tree.virtual_root))],
                roots=[int(r) for r in tree.roots])
