#!/usr/bin/env python3
"""Out-of-tree build of the _tskit extension from /repo's *current working tree*.

    build.py [plain|san]   -> prints the build directory (contains _tskit.*.so)

The build directory name is a hash over the current contents of all C sources/headers
and the flags, so an edited /repo is rebuilt and an unchanged one is reused.  Nothing is
written to /repo.  Python sources are used live through PYTHONPATH=/repo/python.
"""
import hashlib
import os
import shutil
import subprocess
import sys
import sysconfig
from concurrent.futures import ThreadPoolExecutor

REPO = os.environ.get("VERIF_REPO", "/repo")
VERIF = os.path.dirname(os.path.dirname(os.path.abspath(__file__)))
BUILD_ROOT = os.path.join(VERIF, "build")
PY = "/venv/bin/python"
GUARD = "TSKIT_VERIF"

FLAVOURS = {
    "plain": ["-O1", "-g0"],
    "san": ["-O1", "-g", "-fsanitize=address,undefined", "-fno-sanitize-recover=undefined", "-fno-sanitize=nonnull-attribute",
            "-fno-omit-frame-pointer"],
}


def sources():
    c = os.path.join(REPO, "c")
    srcs = [os.path.join(REPO, "python", "_tskitmodule.c")]
    for f in ["core.c", "tables.c", "trees.c", "genotypes.c", "stats.c", "convert.c",
              "haplotype_matching.c"]:
        srcs.append(os.path.join(c, "tskit", f))
    srcs.append(os.path.join(c, "subprojects", "kastore", "kastore.c"))
    return srcs


def headers():
    c = os.path.join(REPO, "c")
    hs = [os.path.join(c, "tskit.h"), os.path.join(c, "subprojects", "kastore", "kastore.h"),
          os.path.join(REPO, "python", "lwt_interface", "tskit_lwt_interface.h")]
    d = os.path.join(c, "tskit")
    hs += sorted(os.path.join(d, f) for f in os.listdir(d) if f.endswith(".h"))
    return hs


def numpy_include():
    out = subprocess.check_output([PY, "-c", "import numpy; print(numpy.get_include())"], text=True)
    return out.strip()


def py_include():
    out = subprocess.check_output(
        [PY, "-c", "import sysconfig; print(sysconfig.get_paths()['include']); "
                   "print(sysconfig.get_config_var('EXT_SUFFIX'))"], text=True)
    inc, suf = out.strip().split("\n")
    return inc, suf


def build(flavour="plain", quiet=True):
    flags = ["-std=c99", "-DNDEBUG", "-fPIC", "-D%s=1" % GUARD] + FLAVOURS[flavour]
    h = hashlib.sha1()
    h.update(" ".join(flags).encode())
    for f in sources() + headers():
        h.update(f.encode())
        with open(f, "rb") as fh:
            h.update(fh.read())
    tag = flavour + "-" + h.hexdigest()[:16]
    out = os.path.join(BUILD_ROOT, tag)
    inc, suf = py_include()
    so = os.path.join(out, "_tskit" + suf)
    if os.path.exists(so):
        try:
            os.utime(out)        # a build in use stays among the most recent ones (pruning below goes by mtime)
        except OSError:
            pass
        return out
    # prune older builds of this flavour, keeping the few most recent (other checks may be using them)
    if os.path.isdir(BUILD_ROOT):
        olds = sorted((d for d in os.listdir(BUILD_ROOT) if d.startswith(flavour + "-") and d != tag and ".tmp" not in d),
                      key=lambda d: os.path.getmtime(os.path.join(BUILD_ROOT, d)), reverse=True)
        for d in olds[12:]:
            shutil.rmtree(os.path.join(BUILD_ROOT, d), ignore_errors=True)
    tmp = out + ".tmp%d" % os.getpid()
    os.makedirs(tmp, exist_ok=True)
    c = os.path.join(REPO, "c")
    incs = ["-I" + os.path.join(REPO, "python", "lwt_interface"), "-I" + c,
            "-I" + os.path.join(c, "subprojects", "kastore"), "-I" + numpy_include(), "-I" + inc]

    def cc(src):
        obj = os.path.join(tmp, os.path.basename(src) + ".o")
        r = subprocess.run(["gcc"] + flags + incs + ["-w", "-c", src, "-o", obj],
                           capture_output=True, text=True)
        if r.returncode != 0:
            raise RuntimeError("compile failed: %s\n%s" % (src, r.stderr[-4000:]))
        return obj

    with ThreadPoolExecutor(16) as ex:
        objs = list(ex.map(cc, sources()))
    link = ["gcc", "-shared"] + FLAVOURS[flavour] + objs + ["-o", os.path.join(tmp, "_tskit" + suf), "-lm"]
    r = subprocess.run(link, capture_output=True, text=True)
    if r.returncode != 0:
        raise RuntimeError("link failed\n" + r.stderr[-4000:])
    for o in objs:
        os.remove(o)
    try:
        os.rename(tmp, out)
    except OSError:
        shutil.rmtree(tmp, ignore_errors=True)  # concurrent build won
    return out


def asan_env():
    lib = subprocess.check_output(["gcc", "-print-file-name=libasan.so"], text=True).strip()
    return {"LD_PRELOAD": lib, "ASAN_OPTIONS": "detect_leaks=0:abort_on_error=0:exitcode=99:allocator_may_return_null=1",
            "UBSAN_OPTIONS": "halt_on_error=1:exitcode=98:print_stacktrace=1"}


if __name__ == "__main__":
    fl = sys.argv[1] if len(sys.argv) > 1 else "plain"
    try:
        print(build(fl))
    except Exception as e:  # machinery failure
        sys.stderr.write(str(e) + "\n")
        sys.exit(2)
