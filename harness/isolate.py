"""Run a function over many JSON items in isolated worker interpreters (optionally the
sanitizer build), so that a crash / abort / sanitizer report on one item is attributed
to that item instead of killing the check.

    results = map_isolated("harness.props.c02:replay_one", items, flavour="plain")

Each result is the function's JSON-able return value, or {"crash": <description>}."""
import json
import os
import subprocess
import sys
import tempfile
import shutil

from harness import build

VERIF = os.path.dirname(os.path.dirname(os.path.abspath(__file__)))


def _env(flavour):
    env = dict(os.environ)
    b = build.build(flavour)
    env["PYTHONPATH"] = b + ":" + os.path.join(build.REPO, "python") + ":" + VERIF
    env["PYTHONHASHSEED"] = "0"
    if flavour == "san":
        env.update(build.asan_env())
    return env


def map_isolated(target, items, flavour="plain", nproc=16, timeout=1800):
    tmp = tempfile.mkdtemp(prefix="iso_")
    env = _env(flavour)
    results = [None] * len(items)
    try:
        slices = [list(range(i, len(items), nproc)) for i in range(nproc)]
        slices = [s for s in slices if s]
        pending = {}
        rounds = 0

        def launch(si, idxs):
            nonlocal rounds
            rounds += 1
            inf = os.path.join(tmp, "in_%d_%d.json" % (si, rounds))
            outf = os.path.join(tmp, "out_%d_%d.ndjson" % (si, rounds))
            errf = os.path.join(tmp, "err_%d_%d.txt" % (si, rounds))
            with open(inf, "w") as fh:
                json.dump([[i, items[i]] for i in idxs], fh)
            p = subprocess.Popen(["/venv/bin/python", "-m", "harness.isolate", target, inf, outf], env=env, cwd=VERIF,
                                 stdout=subprocess.DEVNULL, stderr=open(errf, "w"))
            return (p, idxs, outf, errf)

        active = [launch(si, s) for si, s in enumerate(slices)]
        while active:
            nxt = []
            for (p, idxs, outf, errf) in active:
                try:
                    rc = p.wait(timeout=timeout)
                except subprocess.TimeoutExpired:
                    p.kill()
                    rc = -9
                started = None
                done = set()
                if os.path.exists(outf):
                    with open(outf) as fh:
                        for line in fh:
                            line = line.strip()
                            if not line:
                                continue
                            try:
                                d = json.loads(line)
                            except ValueError:
                                continue
                            if "start" in d:
                                started = d["start"]
                            else:
                                results[d["i"]] = d["r"]
                                done.add(d["i"])
                rest = [i for i in idxs if i not in done]
                if rest:
                    # abnormal end: the started-but-unfinished item is the culprit
                    culprit = started if started in rest else rest[0]
                    with open(errf) as fh:
                        err = fh.read()
                    # keep the informative part of a sanitizer report (its head), not the shadow-byte legend
                    k = max(err.find("ERROR: AddressSanitizer"), err.find("runtime error"))
                    err = err[k:k + 3000] if k >= 0 else err[-3000:]
                    results[culprit] = {"crash": "exit=%s" % rc, "stderr": err}
                    rest = [i for i in rest if i != culprit]
                    if rest:
                        nxt.append(launch(len(nxt), rest))
            active = nxt
        return results
    finally:
        shutil.rmtree(tmp, ignore_errors=True)


def _worker(target, inf, outf):
    import importlib
    mod, fn = target.split(":")
    f = getattr(importlib.import_module(mod), fn)
    with open(inf) as fh:
        items = json.load(fh)
    with open(outf, "w") as out:
        for i, item in items:
            out.write(json.dumps({"start": i}) + "\n")
            out.flush()
            r = f(item)
            out.write(json.dumps({"i": i, "r": r}, default=str) + "\n")
            out.flush()


if __name__ == "__main__":
    _worker(sys.argv[1], sys.argv[2], sys.argv[3])
