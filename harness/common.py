"""Shared machinery: import-path assertion, TLC runners (model checking, batch trace
validation, constant evaluation / universe dumps), evidence writer, violation reporting,
known findings."""
import hashlib
import json
import os
import re
import shutil
import subprocess
import sys
import tempfile
import time
from concurrent.futures import ThreadPoolExecutor

VERIF = os.path.dirname(os.path.dirname(os.path.abspath(__file__)))
SPEC = os.path.join(VERIF, "spec")
EVIDENCE = os.path.join(VERIF, "evidence")
REPLAYS = os.path.join(EVIDENCE, "replays")
REPO = os.environ.get("VERIF_REPO", "/repo")
JAR = "/opt/veriftools/tla/tla2tools.jar:/opt/veriftools/tla/CommunityModules-deps.jar"

SEED = int(os.environ.get("VERIF_SEED", "0") or 0)
TIER = os.environ.get("VERIF_TIER", "quick")
if TIER not in ("quick", "thorough"):
    TIER = "quick"
QUICK = TIER == "quick"


class MachineryError(Exception):
    pass


def assert_imports():
    """The pinned baseline imports tskit 1.0.3 from site-packages; every check must run the
    working tree.  Exit 2 (machinery failure) otherwise."""
    import tskit
    import _tskit
    ok = os.path.realpath(tskit.__file__).startswith(os.path.realpath(REPO) + "/python/") and \
        os.path.realpath(_tskit.__file__).startswith(os.path.join(VERIF, "build"))
    if not ok:
        sys.stderr.write("MACHINERY: wrong import paths %s %s\n" % (tskit.__file__, _tskit.__file__))
        sys.exit(2)


# --------------------------------------------------------------------------- TLC

def _java(args, env=None, cwd=None, timeout=None, xmx="3g", extra_props=()):
    # TLC leaves an empty tlc-<n> directory under java.io.tmpdir per run: keep it inside the caller's scratch directory, which is removed
    tmpprop = ["-Djava.io.tmpdir=" + cwd] if cwd and os.path.isdir(cwd) else []
    cmd = ["java", "-XX:+UseParallelGC", "-Xmx" + xmx] + tmpprop + list(extra_props) + ["-cp", JAR, "tlc2.TLC"] + args
    e = dict(os.environ)
    e.pop("JAVA_TOOL_OPTIONS", None)
    if env:
        e.update(env)
    try:
        r = subprocess.run(cmd, env=e, cwd=cwd, capture_output=True, text=True, timeout=timeout)
    except subprocess.TimeoutExpired as ex:
        out = ex.stdout.decode() if isinstance(ex.stdout, bytes) else (ex.stdout or "")
        return 124, out + "\nTIMEOUT"
    return r.returncode, r.stdout + r.stderr


_STATS = re.compile(r"(\d+) states generated, (\d+) distinct states found")


def parse_stats(out):
    m = None
    for m in _STATS.finditer(out):
        pass
    if not m:
        return 0, 0
    return int(m.group(2)), int(m.group(1))  # distinct states, generated (= transitions+inits)


def tlc_mc(module, cfg=None, workers=16, env=None, timeout=3000, constants=None, extra=(), xmx="8g",
           coverage=False):
    """Exhaustive model-checking run of spec/<module>.tla with spec/<cfg or module>.cfg.
    Returns dict(ok, states, transitions, out, violated, coverage)."""
    tmp = tempfile.mkdtemp(prefix="tlcmc_")
    try:
        args = ["-workers", str(workers), "-metadir", os.path.join(tmp, "meta"), "-noGenerateSpecTE",
                "-config", os.path.join(SPEC, (cfg or module) + ".cfg")]
        if coverage:
            args += ["-coverage", "1"]
        args += list(extra) + [os.path.join(SPEC, module + ".tla")]
        t0 = time.time()
        rc, out = _java(args, env=env, cwd=tmp, timeout=timeout, xmx=xmx)
        states, gen = parse_stats(out)
        violated = None
        m = re.search(r"Invariant (\S+) is violated", out)
        if m:
            violated = m.group(1)
        m2 = re.search(r"(Action property|Temporal properties?) .*violated", out)
        if m2 and not violated:
            violated = m2.group(0)
        ok = rc == 0 and "Model checking completed. No error has been found" in out
        cov = {}
        if coverage:
            for mm in re.finditer(r"<(\w+) line \d+, col \d+ to line \d+, col \d+ of module (\w+)>: (\d+):(\d+)", out):
                cov[mm.group(1)] = {"distinct": int(mm.group(3)), "taken": int(mm.group(4))}
        return dict(ok=ok, rc=rc, states=states, transitions=gen, out=out, violated=violated,
                    wall=time.time() - t0, coverage=cov)
    finally:
        shutil.rmtree(tmp, ignore_errors=True)


def _extract_printed(out, tag):
    """All TLC-printed tuples <<"tag", ...>> (possibly wrapped over lines as `<< "tag",` and
    possibly interleaved between workers) -> list of raw strings, by bracket matching."""
    res = []
    pat = re.compile(r'<<\s*"%s"' % re.escape(tag))
    i = 0
    n = len(out)
    while True:
        m = pat.search(out, i)
        if not m:
            break
        j = m.start()
        depth = 0
        k = j
        instr = False
        while k < n:
            ch = out[k]
            if instr:
                if ch == "\\":
                    k += 1
                elif ch == '"':
                    instr = False
            elif ch == '"':
                instr = True
            elif out.startswith("<<", k):
                depth += 1
                k += 1
            elif out.startswith(">>", k):
                depth -= 1
                k += 1
                if depth == 0:
                    break
            k += 1
        res.append(out[j:k + 1])
        i = k + 1
    return res


_V = re.compile(r'<<\s*"V",\s*(-?\d+),\s*\{(.*)\}\s*>>', re.S)


def _parse_verdicts(out):
    v = {}
    for raw in _extract_printed(out, "V"):
        m = _V.match(raw)
        if not m:
            continue
        cid = int(m.group(1))
        names = re.findall(r'"([^"]*)"', m.group(2))
        v[cid] = names
    return v


def tlc_validate(module, cases, cfg=None, chunks=16, env=None, timeout=3000, xmx="3g", case_key="id"):
    """Batch trace validation (code -> spec).  `cases` is a list of JSON-able dicts; each gets
    a fresh integer id.  spec/<module>.tla must read ndJsonDeserialize(IOEnv.CASES), step k
    through the cases and PrintT(<<"V", id, FailingClauses>>) for each.  The verdict is
    total: a case whose evaluation makes TLC error out is reported with the pseudo clause
    EVAL_ERROR and validation resumes after it.
    Returns (verdicts: id -> [failing clause names], stats dict)."""
    for i, c in enumerate(cases):
        c[case_key] = i
    if not cases:
        return {}, dict(states=0, transitions=0, tlc_runs=0, wall=0.0)
    tmp = tempfile.mkdtemp(prefix="tlcval_")
    t0 = time.time()
    nchunks = max(1, min(chunks, (len(cases) + 19) // 20))
    parts = [cases[i::nchunks] for i in range(nchunks)]
    stats = dict(states=0, transitions=0, tlc_runs=0)
    verdicts = {}
    errors = {}

    def run_part(pi):
        part = parts[pi]
        local = {}
        lerr = {}
        st = [0, 0, 0]
        pending = part
        rounds = 0
        while pending:
            rounds += 1
            f = os.path.join(tmp, "cases_%d_%d.ndjson" % (pi, rounds))
            with open(f, "w") as fh:
                for c in pending:
                    fh.write(json.dumps(c, separators=(",", ":")) + "\n")
            e = {"CASES": f}
            if env:
                e.update(env)
            args = ["-workers", "1", "-metadir", os.path.join(tmp, "meta_%d_%d" % (pi, rounds)),
                    "-noGenerateSpecTE", "-config", os.path.join(SPEC, (cfg or module) + ".cfg"),
                    os.path.join(SPEC, module + ".tla")]
            rc, out = _java(args, env=e, cwd=tmp, timeout=timeout, xmx=xmx)
            s, g = parse_stats(out)
            st[0] += s
            st[1] += g
            st[2] += 1
            got = _parse_verdicts(out)
            for c in pending:
                if c[case_key] in got:
                    local[c[case_key]] = got[c[case_key]]
            rest = [c for c in pending if c[case_key] not in got]
            if not rest:
                break
            if rc == 124 or "TIMEOUT" in out[-20:]:
                raise MachineryError("TLC timeout validating %s" % module)
            if len(rest) == len(pending) and not re.search(r"Error:|error", out):
                raise MachineryError("TLC produced no verdicts for %s:\n%s" % (module, out[-3000:]))
            # the first case without a verdict made TLC fail: evaluation error
            bad = rest[0]
            msg = out[-1500:]
            if "was not in the domain" in out or "Attempted to" in out or "CHOOSE" in out or "Error" in out:
                local[bad[case_key]] = ["EVAL_ERROR"]
                lerr[bad[case_key]] = msg
                pending = rest[1:]
                if rounds > 25:
                    raise MachineryError("too many TLC evaluation errors in %s:\n%s" % (module, msg))
            else:
                raise MachineryError("TLC failed for %s:\n%s" % (module, out[-3000:]))
        return local, lerr, st

    try:
        with ThreadPoolExecutor(nchunks) as ex:
            for local, lerr, st in ex.map(run_part, range(nchunks)):
                verdicts.update(local)
                errors.update(lerr)
                stats["states"] += st[0]
                stats["transitions"] += st[1]
                stats["tlc_runs"] += st[2]
    finally:
        shutil.rmtree(tmp, ignore_errors=True)
    missing = [c[case_key] for c in cases if c[case_key] not in verdicts]
    if missing:
        raise MachineryError("no verdict for cases %s of %s" % (missing[:5], module))
    stats["wall"] = time.time() - t0
    stats["eval_errors"] = errors
    return verdicts, stats


def tlc_eval_json(module, cfg=None, env=None, timeout=3000, xmx="8g", workers=1):
    """Run spec/<module>.tla whose evaluation writes JSON to the file named by IOEnv.OUT
    (ndJsonSerialize / JsonSerialize inside an ASSUME or POSTCONDITION).  Returns the parsed
    ndjson records plus stats.  Used for spec -> code replay: TLC enumerates a universe /
    behaviours, the harness replays them."""
    tmp = tempfile.mkdtemp(prefix="tlceval_")
    try:
        outf = os.path.join(tmp, "out.ndjson")
        e = {"OUT": outf}
        if env:
            e.update(env)
        args = ["-workers", str(workers), "-metadir", os.path.join(tmp, "meta"), "-noGenerateSpecTE",
                "-config", os.path.join(SPEC, (cfg or module) + ".cfg"), os.path.join(SPEC, module + ".tla")]
        rc, out = _java(args, env=e, cwd=tmp, timeout=timeout, xmx=xmx)
        if rc != 0 or not os.path.exists(outf):
            raise MachineryError("TLC eval of %s failed rc=%s:\n%s" % (module, rc, out[-3000:]))
        recs = []
        with open(outf) as fh:
            for line in fh:
                line = line.strip()
                if line:
                    recs.append(json.loads(line))
        s, g = parse_stats(out)
        return recs, dict(states=s, transitions=g, out=out)
    finally:
        shutil.rmtree(tmp, ignore_errors=True)


def tlc_simulate_json(module, cfg=None, num=200, depth=12, seed=0, env=None, timeout=1200, tag="H",
                      workers=1, xmx="3g"):
    """tlc -simulate on a spec that carries a history variable and prints
    PrintT(<<"H", ToJson(hist)>>) when a behaviour is complete.  Returns list of parsed
    histories (JSON)."""
    tmp = tempfile.mkdtemp(prefix="tlcsim_")
    try:
        args = ["-workers", str(workers), "-metadir", os.path.join(tmp, "meta"), "-noGenerateSpecTE",
                "-simulate", "num=%d" % num, "-depth", str(depth), "-seed", str(seed),
                "-config", os.path.join(SPEC, (cfg or module) + ".cfg"), os.path.join(SPEC, module + ".tla")]
        rc, out = _java(args, env=env, cwd=tmp, timeout=timeout, xmx=xmx)
        res = []
        for raw in _extract_printed(out, tag):
            m = re.match(r'<<\s*"%s",\s*(".*")\s*>>$' % tag, raw, re.S)
            if not m:
                continue
            s = m.group(1)
            # TLC prints a string value with \" and \\ escapes; it may wrap long strings? (it does not)
            inner = json.loads(s)
            res.append(json.loads(inner))
        if rc != 0 and not res:
            raise MachineryError("TLC simulate of %s failed rc=%s:\n%s" % (module, rc, out[-3000:]))
        return res, out
    finally:
        shutil.rmtree(tmp, ignore_errors=True)


# --------------------------------------------------------------------------- evidence

def load_known_findings():
    p = os.path.join(VERIF, "known_findings.json")
    if not os.path.exists(p):
        return []
    with open(p) as fh:
        return json.load(fh)["findings"]


class Check:
    """One run of one property's check: counters, violations, evidence."""

    def __init__(self, pid, level="model_checking"):
        self.pid = pid
        self.level = level
        self.t0 = time.time()
        self.states = 0
        self.transitions = 0
        self.traces = 0
        self.evaluations = 0
        self.nontrivial = set()
        self.samples = []
        self.violations = []
        self.known_hits = {}
        self.extra = {}
        self.assumptions = []
        self.rule = ""
        self.exhaustive = False
        self.known = [f for f in load_known_findings() if f["property"] == pid and f.get("status") == "known"]
        os.makedirs(REPLAYS, exist_ok=True)

    # -- accounting
    def add_tlc(self, stats):
        self.states += int(stats.get("states", 0))
        self.transitions += int(stats.get("transitions", 0))

    def note_case(self, key, nontrivial=True):
        self.evaluations += 1
        if nontrivial:
            self.nontrivial.add(hashlib.sha1(json.dumps(key, sort_keys=True, default=str).encode()).hexdigest()[:16])

    def sample(self, s, limit=5):
        if len(self.samples) < limit:
            self.samples.append(s)

    # -- verdicts
    def violation(self, what, replay_obj, signature=None):
        """Record a violation.  If `signature` matches a committed known finding it is
        reported as KNOWN-FINDING and does not fail the check."""
        if signature is not None:
            for f in self.known:
                if f["signature"] == signature:
                    if signature not in self.known_hits:
                        self.known_hits[signature] = dict(count=0, what=f.get("description", what), example=replay_obj)
                    self.known_hits[signature]["count"] += 1
                    return False
        if signature is not None:
            self.extra.setdefault("violation_signatures", {})
            self.extra["violation_signatures"][signature] = self.extra["violation_signatures"].get(signature, 0) + 1
        n = len(self.violations)
        path = os.path.join(REPLAYS, "%s-%d-%d.json" % (self.pid, SEED, n))
        if n < 20:
            with open(path, "w") as fh:
                json.dump(dict(property=self.pid, what=what, signature=signature, case=replay_obj), fh,
                          indent=1, default=str)
        self.violations.append((what, path))
        if n < 20:
            print("VIOLATION property=%s replay=%s" % (self.pid, path))
            print("  what: %s" % (what[:500],))
            sys.stdout.flush()
        return True

    def finish(self):
        for sig, h in sorted(self.known_hits.items()):
            print("KNOWN-FINDING: property=%s %s [signature=%s, %d case(s) this run]" %
                  (self.pid, h["what"], sig, h["count"]))
        cov = dict(
            states=self.states, transitions=self.transitions,
            traces_validated_against_impl=self.traces,
            evaluations=self.evaluations, distinct_nontrivial=len(self.nontrivial),
            rule=self.rule, samples=self.samples if self.samples else ["(none)"],
            exhaustive=self.exhaustive,
            known_findings_hit={k: v["count"] for k, v in self.known_hits.items()},
        )
        cov.update(self.extra)
        ev = dict(property_id=self.pid, tier=TIER, seed=SEED, level=self.level, coverage=cov,
                  assumptions=self.assumptions, wall_s=round(time.time() - self.t0, 2),
                  violations=len(self.violations))
        os.makedirs(EVIDENCE, exist_ok=True)
        with open(os.path.join(EVIDENCE, self.pid + ".json"), "w") as fh:
            json.dump(ev, fh, indent=1, default=str)
        print("%s: %s tier=%s seed=%d evaluations=%d nontrivial=%d tlc_states=%d traces=%d wall=%.1fs" % (
            self.pid, "FAIL" if self.violations else "ok", TIER, SEED, self.evaluations, len(self.nontrivial),
            self.states, self.traces, time.time() - self.t0))
        return 1 if self.violations else 0


def main_wrapper(fn):
    try:
        rc = fn()
    except MachineryError as e:
        sys.stderr.write("MACHINERY FAILURE: %s\n" % e)
        sys.exit(2)
    except Exception as e:
        import traceback
        traceback.print_exc()
        # Where was it raised?  An exception that originates inside the library (innermost frame under <repo>/python, or an exception
        # class defined by tskit / _tskit) while a driver exercises it on inputs on which the unchanged tree never raises is a change
        # of behaviour, i.e. a verdict; one raised by harness code is a bug of the harness and never a verdict.
        frames = traceback.extract_tb(e.__traceback__)
        inner = frames[-1].filename if frames else ""
        # ... or raised further down (standard library, numpy) while library code was running: some frame below the last harness frame
        # belongs to the library
        libdir = os.path.join(REPO, "python")
        last_harness = max([i for i, f in enumerate(frames) if f.filename.startswith(VERIF)], default=-1)
        below_library = any(f.filename.startswith(libdir) for f in frames[last_harness + 1:])
        from_library = inner.startswith(libdir) or below_library or type(e).__module__.split(".")[0] in ("tskit", "_tskit")
        if from_library:
            pid = os.path.basename(sys.argv[0]).replace(".py", "").upper() if sys.argv and sys.argv[0] else "C??"
            try:
                pid = sys.modules["__main__"].__spec__.name.split(".")[-1].upper()
            except Exception:
                pass
            os.makedirs(REPLAYS, exist_ok=True)
            path = os.path.join(REPLAYS, "%s-%d-library-exception.json" % (pid, SEED))
            with open(path, "w") as fh:
                json.dump(dict(property=pid, what="the library raised %s inside a driver step that never raises on the unchanged tree" % type(e).__name__,
                               traceback=traceback.format_exc()[-4000:]), fh, indent=1)
            print("VIOLATION property=%s replay=%s" % (pid, path))
            print("  what: the library raised %s: %s" % (type(e).__name__, str(e)[:300]))
            sys.exit(1)
        sys.stderr.write("MACHINERY FAILURE: unexpected exception in the driver (see traceback)\n")
        sys.exit(2)
    sys.exit(rc)
