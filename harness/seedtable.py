#!/usr/bin/env python3
"""Regenerate the table of DESIGN.md section 12 (between the SEEDTABLE markers) from seeded/*/meta.json and seeded/RESULTS.json."""
import json, os, re
VERIF = os.path.dirname(os.path.dirname(os.path.abspath(__file__)))
root = os.path.join(VERIF, "seeded")
res = json.load(open(os.path.join(root, "RESULTS.json"))) if os.path.exists(os.path.join(root, "RESULTS.json")) else {}
res1 = json.load(open(os.path.join(root, "RESULTS_seed1.json"))) if os.path.exists(os.path.join(root, "RESULTS_seed1.json")) else {}
rows = ["| seeded change | property | needs | caught by (quick, seed 0) | seed 1 | first failing clause | history |", "|---|---|---|---|---|---|---|"]
for name in sorted(os.listdir(root)):
    d = os.path.join(root, name)
    if not os.path.isdir(d):
        continue
    m = json.load(open(os.path.join(d, "meta.json")))
    r = res.get(name, {})
    by = m.get("caught_by", m["property"])
    caught = ("%s: yes (%d violations)" % (by, r.get("violations", 0))) if r.get("caught") else ("%s: no" % by if r else "not swept")
    first = (r.get("first") or [""])[0].replace("what: ", "").replace("|", "/")[:110]
    hist = "; ".join("%s: %s" % (k, v) for k, v in (m.get("checks") or {}).items()).replace("|", "/")
    r1 = res1.get(name)
    s1 = "-" if r1 is None else ("yes" if r1.get("caught") else "no")
    rows.append("| `%s` | %s | %s | %s | %s | %s | %s |" % (name, m["property"], m.get("needs", "").replace("|", "/")[:160], caught, s1, first, hist[:420]))
p = os.path.join(VERIF, "DESIGN.md")
s = open(p).read()
s = re.sub(r"<!-- SEEDTABLE -->.*<!-- /SEEDTABLE -->", "<!-- SEEDTABLE -->\n" + "\n".join(rows) + "\n<!-- /SEEDTABLE -->", s, flags=re.S)
open(p, "w").write(s)
print(len(rows) - 2, "rows")
